#!/usr/bin/env python3
"""Regenerates the generated parts of DESIGN.md section 10 (seeded changes table, as-built sizes) between markers."""
import json,glob,os,re
ROOT='/verif'
s=open(f'{ROOT}/DESIGN.md').read()
B='<!-- GENERATED:BEGIN -->'; E='<!-- GENERATED:END -->'
out=[B,'\n### 10.4 Seeded changes: which check catches which change\n\n',
"Independent sub-agents were given only the text of one property and a scratch worktree of the repository (nothing from `/verif`) and asked for a subtle\n"
"property-breaking change that compiles, passes the existing tests and needs something specific to manifest, with a demonstration test. Each change kept here\n"
"was confirmed in a scratch worktree (`tools/confirm_seed.sh`: demonstration passes without and fails with the change; `cargo test -p c2pa --lib` gives the same\n"
"result with the change as without) and then run against the checks (`tools/seed_try.sh` applies it to `/repo`, runs `./check`, and undoes it; while other\n"
"builds were using `/repo`, `tools/mutant_run.sh` did the same on a patched scratch worktree). Where a check missed a change it was strengthened *generally*\n"
"(new seeds / operations / construction routes, never a special case for the patch) and re-run. Files: `/verif/seeded/<id>/{patch.diff,demo.rs,meta.json}`.\n\n",
"| seed | breaks | change | needs to manifest | result |\n|---|---|---|---|---|\n"]
for f in sorted(glob.glob(f'{ROOT}/seeded/*/meta.json')):
    m=json.load(open(f))
    esc=lambda t: str(t).replace('|','\\|').replace('\n',' ')
    out.append(f"| {m['seed']} | {m['breaks_property']} | {esc(m['change'])} | {esc(m['needs_to_manifest'])} | **{esc(m['status'])}** — {esc(m['caught_by'])} |\n")
metas=[json.load(open(f)) for f in sorted(glob.glob(f'{ROOT}/seeded/*/meta.json'))]
n=len(metas); at_once=sum(1 for m in metas if m['status']=='caught'); later=sum(1 for m in metas if 'after-strengthening' in m['status']); other=n-at_once-later
out.append(f"\nSummary: {n} seeded changes for {len(set(m['breaks_property'] for m in metas))} properties; {at_once} were caught by the checks as first built, {later} were missed at first and are caught after the general strengthening named in the row"+(f", {other} have another status (see row)" if other else "")+". Every one of them now makes `./check <id> quick` exit 1 with a VIOLATION whose key no known finding matches, and the checks exit 0 on the unchanged tree.\n")
out.append('\nThe implementers\' own mutants (one or more per property, `/verif/mutants/*.diff`, each caught by its check at the quick tier) are listed in the header comment of each `props/src/cXX.rs`.\n')
out.append('\n### 10.5 As-built sizes (quick tier, from the committed evidence files)\n\n| id | level | evaluations | distinct non-trivial | states | transitions | known-finding cases | wall s |\n|---|---|---|---|---|---|---|---|\n')
for f in sorted(glob.glob(f'{ROOT}/evidence/C*.json')):
    d=json.load(open(f)); c=d['coverage']
    out.append(f"| {d['property_id']} | {d['level']} | {c.get('evaluations')} | {c.get('distinct_nontrivial')} | {c.get('states','')} | {c.get('transitions','')} | {d.get('known_finding_cases',0)} | {d['wall_s']:.1f} |\n")
out.append('\n'+E)
block=''.join(out)
if B in s:
    s=s[:s.index(B)]+block+s[s.index(E)+len(E):]
else:
    marker='## Appendix A — minimal asset recipes validated by the spike'
    i=s.index(marker)
    # insert before the separator line preceding the appendix
    sep='---------------------------------------------------------------------------\n\n'+marker
    s=s.replace(sep,block+'\n\n'+sep)
open(f'{ROOT}/DESIGN.md','w').write(s)
print('ok')

#!/usr/bin/env python3
"""Regenerates /verif/MANIFEST.json from tools/checks.json (one entry per implemented property)."""
import json, subprocess, os
ROOT='/verif'
import glob
checks=[json.load(open(f)) for f in sorted(glob.glob(f'{ROOT}/tools/checks/C*.json'))]
props=[json.loads(l) for l in open(f'{ROOT}/properties.jsonl')]
ids=[p['id'] for p in props]
hooks_commits=subprocess.run(['git','-C','/repo','log','--format=%H %s'],capture_output=True,text=True).stdout.splitlines()
hook_commits=[l.split()[0] for l in hooks_commits if ' verif hooks:' in ' '+l.split(' ',1)[1] or l.split(' ',1)[1].startswith('verif hooks')]
m={
 "version":1,
 "setup_cmd":"cd /verif && ./setup.sh",
 "hooks":{
   "guard":"--cfg contentauth_c2pa_rs_verif",
   "enable":"RUSTFLAGS='--cfg contentauth_c2pa_rs_verif' (set in /verif/mc/.cargo/config.toml; the harness workspace path-depends on /repo/sdk and /repo/c2pa_c_ffi)",
   "baseline_off_cmd":"/verif/baseline_off.sh",
   "source_commits":hook_commits,
   "add_only":True
 },
 "engines":[
   {"name":"mc","path":"/verif/mc","serves_properties":[c['id'] for c in checks],
    "kind_free_text":"Rust harness linking the real c2pa crates: bounded-exhaustive explorers (operation sequences, environment deviations, interleavings, finite input domains) with reference-model / invariant oracles; see DESIGN.md sections 1-3"}
 ],
 "checks":[],
 "not_applicable":[],
 "notes":"Every check explores the implementation itself (no separate model), so every explored trace is an implementation trace. Exit protocol: 0 held, 1 VIOLATION, >=2 machinery failure. Known findings: /verif/known_findings.json."
}
done=set()
for c in checks:
    done.add(c['id'])
    e={
      "property_id":c['id'],
      "quick_cmd":f"./check {c['id']} quick",
      "thorough_cmd":f"./check {c['id']} thorough",
      "evidence_file":f"/verif/evidence/{c['id']}.json",
      "replay_cmd_template":f"./check {c['id']} --replay {{path}}",
      "engine":"mc",
      "level_claimed":{"category":c['level'],"text":c['text'],"design_ref":f"DESIGN.md section 4, {c['id']}"},
      "level_note":c['note'],
      "technique":c['technique'],
    }
    m['checks'].append(e)
na=json.load(open(f'{ROOT}/tools/not_applicable.json')) if os.path.exists(f'{ROOT}/tools/not_applicable.json') else {}
for i in ids:
    if i not in done:
        m['not_applicable'].append({"property_id":i,"reason":na.get(i,"check not built yet in this tree (design in DESIGN.md section 4); not claimed until it exists")})
json.dump(m,open(f'{ROOT}/MANIFEST.json','w'),indent=1)
print("checks:",len(m['checks']),"not_applicable:",len(m['not_applicable']))

#!/bin/bash
# tools/seed_try.sh <patch.diff> <Cxx> [tier]  — the brief's procedure: apply the change to /repo, run the check, undo it straight afterwards.
# Output goes to /tmp/seedtry-out (VERIF_OUT) so real evidence is not overwritten. Exit code = the check's.
set -u
patch=$(readlink -f "$1"); id=$2; tier=${3:-quick}
cd /repo || exit 2
if [ -n "$(git status --porcelain --untracked-files=no)" ]; then echo "seed_try: /repo working tree is not clean"; exit 2; fi
git apply "$patch" || { echo "seed_try: patch does not apply"; exit 2; }
trap 'git -C /repo checkout -- . ' EXIT
cd /verif && VERIF_OUT=/tmp/seedtry-out ./check "$id" "$tier"
rc=$?
echo "seed_try: check $id exit $rc"
exit $rc

#!/bin/bash
# tools/mutant_run.sh <tag> <patch.diff> <Cxx> [tier]
# Runs a check against a patched copy of /repo WITHOUT touching /repo: a scratch git worktree gets the patch,
# the harness is built with cargo path overrides pointing at it, in its own target dir, and evidence/replays go to /tmp/verif-out-<tag>.
# Prints the check output; exit code is the check's. The worktree is removed afterwards; the target dir /verif/target-mut-<tag> is kept for reuse (remove when done).
set -u
tag=$1; patch=$(readlink -f "$2"); id=$3; tier=${4:-quick}
WT=/tmp/wt-mut-$tag
git -C /repo worktree remove --force "$WT" 2>/dev/null
git -C /repo worktree add -q --detach "$WT" HEAD || exit 2
# carry over uncommitted hook additions of /repo's working tree (hooks are appended by several groups before the lead commits them)
git -C /repo diff HEAD > /tmp/wt-mut-$tag.wip.diff
if [ -s /tmp/wt-mut-$tag.wip.diff ]; then ( cd "$WT" && git apply /tmp/wt-mut-$tag.wip.diff ) || { echo "cannot carry over /repo working-tree changes"; git -C /repo worktree remove --force "$WT"; exit 2; }; fi
( cd "$WT" && git apply "$patch" ) || { echo "patch does not apply"; git -C /repo worktree remove --force "$WT"; exit 2; }
export CARGO_TARGET_DIR=/verif/target-mut-$tag CARGO_NET_OFFLINE=true
( cd /verif/mc && cargo build --release --bin mc --config "paths=[\"$WT/sdk\",\"$WT/c2pa_c_ffi\"]" >/tmp/mutbuild-$tag.log 2>&1 ) || { echo "mutant build failed, see /tmp/mutbuild-$tag.log"; tail -20 /tmp/mutbuild-$tag.log; git -C /repo worktree remove --force "$WT"; exit 2; }
mkdir -p /tmp/verif-out-$tag
VERIF_OUT=/tmp/verif-out-$tag VERIF_MUT_REPO=$WT $CARGO_TARGET_DIR/release/mc "$id" --tier "$tier"
rc=$?
git -C /repo worktree remove --force "$WT"
echo "mutant_run: exit $rc"
exit $rc

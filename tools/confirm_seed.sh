#!/bin/bash
# tools/confirm_seed.sh <seed dir with patch.diff + demo.rs> <id> [cargo test args for the demo, default: -p c2pa --features file_io]
# Confirms independently, in a scratch worktree (never /repo): demo passes without the patch, fails with it, and the c2pa lib tests give the
# same result with the patch as without (the pinned tree has a few tests that fail under plain `cargo test` because of emptied fixtures).
set -u
src=$(readlink -f "$1"); id=$2; shift 2
WT=/tmp/confirm-wt; TGT=/tmp/confirm-target
export CARGO_TARGET_DIR=$TGT CARGO_NET_OFFLINE=true
unset RUSTFLAGS
git -C /repo worktree remove --force $WT 2>/dev/null
git -C /repo worktree add -q --detach $WT HEAD || exit 2
if [ ! -d $TGT/debug ]; then
  mkdir -p $TGT/debug/deps; ( cd /repo/target/debug && cp -a .fingerprint build $TGT/debug/ && find deps -maxdepth 1 \( -name '*.rlib' -o -name '*.rmeta' -o -name '*.d' -o -name '*.so' \) -exec cp -a {} $TGT/debug/deps/ \; )
fi
cd $WT
demo_name=seed_$id
case "$(head -c 2000 "$src/demo.rs")" in *) : ;; esac
crate_dir=sdk; pkg="-p c2pa --features file_io"
[ -f "$src/demo_location" ] && crate_dir=$(cat "$src/demo_location")
[ -f "$src/demo_pkg" ] && pkg=$(cat "$src/demo_pkg")
mkdir -p $crate_dir/tests; cp "$src/demo.rs" $crate_dir/tests/$demo_name.rs
run_demo() { timeout 3000 cargo test $pkg --test $demo_name --offline 2>&1 | grep -E "^test result|error(\[|:)|FAILED|panicked" | head -5; }
echo "== demo WITHOUT patch"; run_demo | tee /tmp/confirm-$id.without
git apply "$src/patch.diff" || { echo "patch does not apply to HEAD"; exit 2; }
echo "== demo WITH patch"; run_demo | tee /tmp/confirm-$id.with
echo "== lib tests WITH patch"; timeout 3000 cargo test -p c2pa --lib --offline 2>&1 | grep -E "^test result" | tee /tmp/confirm-$id.lib
cd /; git -C /repo worktree remove --force $WT

#!/bin/bash
# tools/build_c2patool.sh — build the REAL c2patool binary from a repo working tree (default /repo) for check C32.
# Never builds inside the repo's own target dir. Prints the path of the binary on stdout (last line).
#   VERIF_MUT_REPO=<patched worktree>   build from that tree instead, into a target dir derived from its path
#   VERIF_CLI_TARGET=<dir>              override the target dir
# RUSTFLAGS are cleared on purpose: c2patool needs no verification hooks, and must therefore live in a target dir
# that is not shared with the harness (/verif/target/cli).
set -u
REPO=${VERIF_MUT_REPO:-/repo}
if [ -n "${VERIF_CLI_TARGET:-}" ]; then
  TGT=$VERIF_CLI_TARGET
elif [ "$REPO" = "/repo" ]; then
  TGT=/verif/target/cli
else
  TGT=/verif/target/cli-mut-$(echo "$REPO" | tr -c 'A-Za-z0-9\n' '_')
fi
if [ ! -d "$TGT/release" ] && [ "$TGT" != /verif/target/cli ] && [ -d /verif/target/cli/release ]; then
  # seed a mutant target dir from the main one: only the workspace crates are rebuilt (minutes saved)
  mkdir -p "$TGT" && cp -a /verif/target/cli/release "$TGT/" 2>/dev/null
fi
mkdir -p "$TGT"
LOG="$TGT/build.log"
(
  cd "$REPO/cli" || exit 2
  # a lock so that concurrent checks do not fight over the same target dir
  exec 9>"$TGT/.verif-build.lock"
  flock 9
  env -u RUSTFLAGS -u CARGO_ENCODED_RUSTFLAGS -u CARGO_BUILD_RUSTFLAGS CARGO_TARGET_DIR="$TGT" CARGO_NET_OFFLINE=true \
    cargo build --release --offline --bin c2patool >"$LOG" 2>&1
)
rc=$?
if [ $rc -ne 0 ]; then
  echo "build_c2patool: cargo build failed (see $LOG)" >&2
  grep -E "^error" -A8 "$LOG" | head -40 >&2
  exit 2
fi
BIN="$TGT/release/c2patool"
[ -x "$BIN" ] || { echo "build_c2patool: $BIN missing" >&2; exit 2; }
echo "$BIN"

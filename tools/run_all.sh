#!/bin/bash
# tools/run_all.sh [quick|thorough] — runs every registered check through ./check and prints one line each.
tier=${1:-quick}
cd /verif
for i in $(seq -w 1 40); do id=C$i; s=$(date +%s); ./check $id $tier > /tmp/runall-$id.log 2>&1; rc=$?; e=$(date +%s); echo "$id rc=$rc t=$((e-s))s known=$(grep -c '^KNOWN-FINDING' /tmp/runall-$id.log) viol=$(grep -c '^VIOLATION' /tmp/runall-$id.log) | $(tail -1 /tmp/runall-$id.log | cut -c1-150)"; done

#!/opt/veriftools/pyvenv/bin/python
import json,jsonschema,glob,sys
ok=True
jsonschema.validate(json.load(open('/verif/MANIFEST.json')),json.load(open('/root/.vp/MANIFEST.schema.json'))); print('manifest valid')
s=json.load(open('/root/.vp/EVIDENCE.schema.json'))
for f in sorted(glob.glob('/verif/evidence/*.json')):
    try:
        jsonschema.validate(json.load(open(f)),s)
    except Exception as e:
        ok=False; print('INVALID',f,str(e)[:300])
print('evidence files checked:',len(glob.glob('/verif/evidence/*.json')))
sys.exit(0 if ok else 1)

pub mod assets;
pub mod ev;
pub mod par;
pub mod canon;
pub mod sdk;
pub mod defs;
pub use ev::{Run, Tier};

//! mc <Cxx> [--tier quick|thorough] [--replay <file>]
//! One module per property; see /verif/DESIGN.md section 4.

use kit::{ev, Run, Tier};
use serde_json::Value;

macro_rules! props {
    ($( $id:literal => $m:ident : $level:literal ),* $(,)?) => {
        $( mod $m; )*
        fn dispatch(id: &str, run_tier: Tier, replay: Option<Value>) -> i32 {
            match id {
                $( $id => {
                    let run = Run::new($id, run_tier, $level);
                    $m::run(&run, replay.as_ref());
                    run.finish()
                } )*
                _ => { eprintln!("unknown property {id}"); 2 }
            }
        }
        fn all_ids() -> Vec<&'static str> { vec![$($id),*] }
    };
}

props! {
    "C03" => c03 : "exploration",
    "C15" => c15 : "exploration",
    "C17" => c17 : "exploration",
    "C22" => c22 : "exploration",
    "C39" => c39 : "exploration",
    "C40" => c40 : "exploration",
}

fn main() {
    let args: Vec<String> = std::env::args().collect();
    if args.len() < 2 {
        eprintln!("usage: mc <Cxx>|list [--tier quick|thorough] [--replay file]");
        std::process::exit(2);
    }
    if args[1] == "list" {
        for i in all_ids() {
            println!("{i}");
        }
        return;
    }
    let mut tier = match std::env::var("VERIF_TIER").as_deref() {
        Ok("thorough") => Tier::Thorough,
        _ => Tier::Quick,
    };
    let mut replay = None;
    let mut i = 2;
    while i < args.len() {
        match args[i].as_str() {
            "--tier" => {
                i += 1;
                tier = match args.get(i).map(|s| s.as_str()) {
                    Some("thorough") => Tier::Thorough,
                    Some("quick") => Tier::Quick,
                    _ => ev::machinery("bad --tier"),
                };
            }
            "--replay" => {
                i += 1;
                let p = args.get(i).unwrap_or_else(|| ev::machinery("--replay needs a path"));
                let b = std::fs::read(p).unwrap_or_else(|e| ev::machinery(format!("replay file: {e}")));
                let v: Value = serde_json::from_slice(&b).unwrap_or_else(|e| ev::machinery(format!("replay json: {e}")));
                replay = Some(v["case"].clone());
            }
            x => ev::machinery(format!("unknown argument {x}")),
        }
        i += 1;
    }
    kit::par::quiet_panics();
    let code = dispatch(&args[1], tier, replay);
    std::process::exit(code);
}

//! Canonical report (DESIGN.md 3.4): what two reads must agree on.

use std::collections::BTreeMap;

use c2pa::Reader;
use serde_json::Value;

/// Canonical JSON value of a reader: json + detailed_json with volatile parts normalised.
pub fn canon(r: &Reader) -> Value {
    let j: Value = serde_json::from_str(&r.json()).unwrap_or(Value::Null);
    let d: Value = serde_json::from_str(&r.detailed_json()).unwrap_or(Value::Null);
    let mut v = serde_json::json!({"json": j, "detailed": d, "state": crate::sdk::state_name(r.validation_state())});
    let mut map = Renamer::default();
    // `Reader.manifests` is a HashMap, so the order in which manifest labels first occur is not
    // stable between two reads. Fix the renaming order from content: active manifest first, then
    // the other manifests ordered by their JSON with every id masked.
    let mut order: Vec<(u8, String, String)> = vec![];
    let active = v["json"]["active_manifest"].as_str().unwrap_or("").to_string();
    if let Some(ms) = v["json"]["manifests"].as_object() {
        for (label, m) in ms {
            let mut masked = m.clone();
            let mut mask = Renamer { names: BTreeMap::new(), mask_all: true };
            normalise(&mut masked, &mut mask);
            order.push((if *label == active { 0 } else { 1 }, stable(&masked), label.clone()));
        }
    }
    order.sort();
    for (_, _, label) in order {
        map.rename(&label);
    }
    normalise(&mut v, &mut map);
    v
}

/// canon() rendered as a stable string.
pub fn canon_string(r: &Reader) -> String {
    stable(&canon(r))
}

/// Sorted list of (bin, code, url-with-labels-normalised) of all validation statuses.
pub fn codes(r: &Reader) -> Vec<String> {
    let mut out = vec![];
    if let Some(vr) = r.validation_results() {
        let v = serde_json::to_value(vr).unwrap_or(Value::Null);
        collect_codes(&v, "", &mut out);
    }
    out.sort();
    out
}

fn collect_codes(v: &Value, path: &str, out: &mut Vec<String>) {
    match v {
        Value::Object(m) => {
            if let Some(Value::String(code)) = m.get("code") {
                out.push(format!("{path}:{code}"));
            }
            for (k, x) in m {
                let p = match k.as_str() {
                    "success" | "informational" | "failure" | "activeManifest"
                    | "ingredientDeltas" | "validationDeltas" => format!("{path}/{k}"),
                    _ => path.to_string(),
                };
                collect_codes(x, &p, out);
            }
        }
        Value::Array(a) => {
            for x in a {
                collect_codes(x, path, out)
            }
        }
        _ => {}
    }
}

#[derive(Default)]
pub struct Renamer {
    names: BTreeMap<String, String>,
    mask_all: bool,
}

impl Renamer {
    fn rename(&mut self, s: &str) -> String {
        // replace every urn:c2pa:<uuid...> / urn:uuid:<uuid> / xmp:iid:<uuid> token by an index
        let mut out = String::new();
        let mut rest = s;
        loop {
            let idx = ["urn:c2pa:", "urn:uuid:", "xmp:iid:", "xmp.iid:", "xmp:did:"]
                .iter()
                .filter_map(|p| rest.find(p).map(|i| (i, p.len())))
                .min();
            match idx {
                None => {
                    out.push_str(rest);
                    break;
                }
                Some((i, plen)) => {
                    out.push_str(&rest[..i]);
                    let tail = &rest[i..];
                    let end = tail[plen..]
                        .find(|c: char| !(c.is_ascii_hexdigit() || c == '-'))
                        .map(|e| e + plen)
                        .unwrap_or(tail.len());
                    let tok = &tail[..end];
                    if self.mask_all {
                        out.push_str("<id>");
                    } else {
                        let n = self.names.len();
                        let name = self
                            .names
                            .entry(tok.to_string())
                            .or_insert_with(|| format!("<id{n}>"))
                            .clone();
                        out.push_str(&name);
                    }
                    rest = &tail[end..];
                }
            }
        }
        out
    }
}

fn normalise(v: &mut Value, map: &mut Renamer) {
    match v {
        Value::Object(m) => {
            let keys: Vec<String> = m.keys().cloned().collect();
            let mut newm = serde_json::Map::new();
            for k in keys {
                let mut x = m.remove(&k).unwrap();
                if k == "validation_time" || k == "validationTime" {
                    continue;
                }
                normalise(&mut x, map);
                let nk = map.rename(&k);
                newm.insert(nk, x);
            }
            // sort keys for stability
            let mut entries: Vec<(String, Value)> = newm.into_iter().collect();
            entries.sort_by(|a, b| a.0.cmp(&b.0));
            *m = entries.into_iter().collect();
        }
        Value::Array(a) => {
            for x in a.iter_mut() {
                normalise(x, map);
            }
            // arrays of status objects: sort by stable rendering
            if a.iter().all(|x| x.get("code").is_some()) && !a.is_empty() {
                a.sort_by_key(stable);
            }
        }
        Value::String(s) => {
            *s = map.rename(s);
        }
        _ => {}
    }
}

pub fn stable(v: &Value) -> String {
    serde_json::to_string(v).unwrap_or_default()
}

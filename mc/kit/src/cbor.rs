//! Minimal, independent CBOR codec (owner: group I; used by C33). Definite lengths only, lossless:
//! `encode(decode(x)) == x` for every input that uses shortest-form heads; callers assert the round trip on
//! their seeds. Text strings are kept as raw bytes so that nothing is normalised.

#[derive(Clone, Debug, PartialEq)]
pub enum V {
    /// major 0
    U(u64),
    /// major 1, value is -1 - n
    N(u64),
    /// major 2
    B(Vec<u8>),
    /// major 3 (raw bytes of the text)
    T(Vec<u8>),
    /// major 4
    A(Vec<V>),
    /// major 5 (insertion order preserved)
    M(Vec<(V, V)>),
    /// major 6
    Tag(u64, Box<V>),
    /// major 7: additional info + raw following bytes (simple values, floats)
    S(u8, Vec<u8>),
}

impl V {
    pub fn text(s: &str) -> V {
        V::T(s.as_bytes().to_vec())
    }
    pub fn as_text(&self) -> Option<&str> {
        match self {
            V::T(b) => std::str::from_utf8(b).ok(),
            _ => None,
        }
    }
    pub fn get(&self, key: &str) -> Option<&V> {
        match self {
            V::M(m) => m.iter().find(|(k, _)| k.as_text() == Some(key)).map(|(_, v)| v),
            _ => None,
        }
    }
    pub fn get_mut(&mut self, key: &str) -> Option<&mut V> {
        match self {
            V::M(m) => m.iter_mut().find(|(k, _)| k.as_text() == Some(key)).map(|(_, v)| v),
            _ => None,
        }
    }
    pub fn remove(&mut self, key: &str) -> Option<V> {
        match self {
            V::M(m) => {
                let i = m.iter().position(|(k, _)| k.as_text() == Some(key))?;
                Some(m.remove(i).1)
            }
            _ => None,
        }
    }
}

fn head(d: &[u8], p: usize) -> Result<(u8, u8, u64, usize), String> {
    let b = *d.get(p).ok_or("truncated head")?;
    let (maj, ai) = (b >> 5, b & 0x1F);
    let (val, n) = match ai {
        0..=23 => (ai as u64, 1),
        24 => (*d.get(p + 1).ok_or("truncated")? as u64, 2),
        25 => (u16::from_be_bytes(d.get(p + 1..p + 3).ok_or("truncated")?.try_into().unwrap()) as u64, 3),
        26 => (u32::from_be_bytes(d.get(p + 1..p + 5).ok_or("truncated")?.try_into().unwrap()) as u64, 5),
        27 => (u64::from_be_bytes(d.get(p + 1..p + 9).ok_or("truncated")?.try_into().unwrap()), 9),
        _ => return Err(format!("indefinite or reserved additional info {ai} at {p}")),
    };
    Ok((maj, ai, val, n))
}

fn dec(d: &[u8], p: usize, depth: usize) -> Result<(V, usize), String> {
    if depth > 64 {
        return Err("too deep".into());
    }
    let (maj, ai, val, n) = head(d, p)?;
    let q = p + n;
    Ok(match maj {
        0 => (V::U(val), q),
        1 => (V::N(val), q),
        2 | 3 => {
            let e = q.checked_add(val as usize).ok_or("overflow")?;
            let b = d.get(q..e).ok_or("truncated string")?.to_vec();
            (if maj == 2 { V::B(b) } else { V::T(b) }, e)
        }
        4 => {
            let mut v = vec![];
            let mut c = q;
            for _ in 0..val {
                let (x, e) = dec(d, c, depth + 1)?;
                v.push(x);
                c = e;
            }
            (V::A(v), c)
        }
        5 => {
            let mut v = vec![];
            let mut c = q;
            for _ in 0..val {
                let (k, e) = dec(d, c, depth + 1)?;
                let (x, e2) = dec(d, e, depth + 1)?;
                v.push((k, x));
                c = e2;
            }
            (V::M(v), c)
        }
        6 => {
            let (x, e) = dec(d, q, depth + 1)?;
            (V::Tag(val, Box::new(x)), e)
        }
        _ => (V::S(ai, d[p + 1..q].to_vec()), q),
    })
}

/// Decode exactly one item that must span the whole input.
pub fn decode(d: &[u8]) -> Result<V, String> {
    let (v, e) = dec(d, 0, 0)?;
    if e != d.len() {
        return Err(format!("{} trailing bytes", d.len() - e));
    }
    Ok(v)
}

fn put_head(out: &mut Vec<u8>, maj: u8, val: u64) {
    let m = maj << 5;
    if val < 24 {
        out.push(m | val as u8);
    } else if val <= 0xFF {
        out.push(m | 24);
        out.push(val as u8);
    } else if val <= 0xFFFF {
        out.push(m | 25);
        out.extend_from_slice(&(val as u16).to_be_bytes());
    } else if val <= 0xFFFF_FFFF {
        out.push(m | 26);
        out.extend_from_slice(&(val as u32).to_be_bytes());
    } else {
        out.push(m | 27);
        out.extend_from_slice(&val.to_be_bytes());
    }
}

pub fn encode_into(v: &V, out: &mut Vec<u8>) {
    match v {
        V::U(n) => put_head(out, 0, *n),
        V::N(n) => put_head(out, 1, *n),
        V::B(b) => {
            put_head(out, 2, b.len() as u64);
            out.extend_from_slice(b);
        }
        V::T(b) => {
            put_head(out, 3, b.len() as u64);
            out.extend_from_slice(b);
        }
        V::A(a) => {
            put_head(out, 4, a.len() as u64);
            for x in a {
                encode_into(x, out);
            }
        }
        V::M(m) => {
            put_head(out, 5, m.len() as u64);
            for (k, x) in m {
                encode_into(k, out);
                encode_into(x, out);
            }
        }
        V::Tag(t, x) => {
            put_head(out, 6, *t);
            encode_into(x, out);
        }
        V::S(ai, raw) => {
            out.push(0xE0 | ai);
            out.extend_from_slice(raw);
        }
    }
}

pub fn encode(v: &V) -> Vec<u8> {
    let mut o = vec![];
    encode_into(v, &mut o);
    o
}

/// Leaf spans of a CBOR item with a readable path: (start, end, path). Heads of containers get their own span
/// (path suffixed with "#head"); byte strings that themselves hold exactly one CBOR item are descended into
/// when `descend_bstr` is true (COSE protected headers).
pub fn spans(d: &[u8], descend_bstr: bool) -> Result<Vec<(usize, usize, String)>, String> {
    fn key_name(d: &[u8], p: usize) -> Result<(String, usize), String> {
        let (v, e) = dec(d, p, 0)?;
        let s = match &v {
            V::U(n) => n.to_string(),
            V::N(n) => format!("-{}", n + 1),
            V::T(b) => String::from_utf8_lossy(b).into_owned(),
            _ => "?".into(),
        };
        Ok((s, e))
    }
    fn walk(d: &[u8], base: usize, p: usize, path: &str, descend: bool, out: &mut Vec<(usize, usize, String)>, depth: usize) -> Result<usize, String> {
        if depth > 32 {
            return Err("too deep".into());
        }
        let (maj, _ai, val, n) = head(d, p)?;
        let q = p + n;
        match maj {
            0 | 1 | 7 => {
                out.push((base + p, base + q, path.to_string()));
                Ok(q)
            }
            2 | 3 => {
                let e = q + val as usize;
                if e > d.len() {
                    return Err("truncated".into());
                }
                out.push((base + p, base + q, format!("{path}#head")));
                let inner = &d[q..e];
                if maj == 2 && descend && !inner.is_empty() && matches!(dec(inner, 0, 0), Ok((V::M(_), l)) | Ok((V::A(_), l)) if l == inner.len()) {
                    walk(inner, base + q, 0, path, descend, out, depth + 1)?;
                } else if e > q {
                    out.push((base + q, base + e, path.to_string()));
                }
                Ok(e)
            }
            4 => {
                out.push((base + p, base + q, format!("{path}#head")));
                let mut c = q;
                for i in 0..val {
                    c = walk(d, base, c, &format!("{path}[{i}]"), descend, out, depth + 1)?;
                }
                Ok(c)
            }
            5 => {
                out.push((base + p, base + q, format!("{path}#head")));
                let mut c = q;
                for _ in 0..val {
                    let (k, e) = key_name(d, c)?;
                    out.push((base + c, base + e, format!("{path}/{k}#key")));
                    c = walk(d, base, e, &format!("{path}/{k}"), descend, out, depth + 1)?;
                }
                Ok(c)
            }
            _ => {
                out.push((base + p, base + q, format!("{path}#tag")));
                walk(d, base, q, path, descend, out, depth + 1)
            }
        }
    }
    let mut out = vec![];
    let e = walk(d, 0, 0, "", descend_bstr, &mut out, 0)?;
    if e != d.len() {
        return Err("trailing bytes".into());
    }
    Ok(out)
}

#[cfg(test)]
mod tests {
    use super::*;
    #[test]
    fn round_trip() {
        let v = V::M(vec![(V::text("a"), V::A(vec![V::U(1), V::N(0), V::B(vec![1, 2, 3]), V::S(22, vec![])])), (V::U(33), V::Tag(18, Box::new(V::U(300))))]);
        let e = encode(&v);
        assert_eq!(decode(&e).unwrap(), v);
        let sp = spans(&e, true).unwrap();
        let covered: usize = sp.iter().map(|s| s.1 - s.0).sum();
        assert_eq!(covered, e.len());
    }
}

//! Evidence writer, violation bookkeeping, known-findings matching and exit protocol.
//!
//! Exit protocol (DESIGN.md 2.1): 0 = held (possibly after KNOWN-FINDING lines),
//! 1 = VIOLATION not listed in known_findings.json, >=2 = machinery failure.

use std::{
    collections::{BTreeMap, BTreeSet},
    path::PathBuf,
    sync::Mutex,
    time::Instant,
};

use serde_json::{json, Value};

pub const VERIF_ROOT: &str = "/verif";

/// Where evidence/ and replays/ are written (VERIF_OUT overrides; used for mutant runs so they never touch real evidence).
pub fn out_root() -> PathBuf {
    PathBuf::from(std::env::var("VERIF_OUT").unwrap_or_else(|_| VERIF_ROOT.to_string()))
}

static REPLAY_MODE: std::sync::atomic::AtomicBool = std::sync::atomic::AtomicBool::new(false);

/// In replay mode (`--replay`) a run re-executes one recorded case: it prints its verdict but never
/// rewrites evidence or replay files.
pub fn set_replay_mode() {
    REPLAY_MODE.store(true, std::sync::atomic::Ordering::Relaxed);
}

pub fn replay_mode() -> bool {
    REPLAY_MODE.load(std::sync::atomic::Ordering::Relaxed)
}

#[derive(Clone, Copy, PartialEq, Eq, Debug)]
pub enum Tier {
    Quick,
    Thorough,
}

impl Tier {
    pub fn name(self) -> &'static str {
        match self {
            Tier::Quick => "quick",
            Tier::Thorough => "thorough",
        }
    }

    pub fn is_thorough(self) -> bool {
        self == Tier::Thorough
    }

    /// pick(q, t)
    pub fn pick<T>(self, q: T, t: T) -> T {
        match self {
            Tier::Quick => q,
            Tier::Thorough => t,
        }
    }
}

#[derive(Clone, Debug)]
pub struct Violation {
    /// Specific, stable identification of what fails (matched against known findings).
    pub key: String,
    /// Human readable description.
    pub what: String,
    /// The replayable case.
    pub case: Value,
}

/// Thread-safe run record; one per check invocation.
pub struct Run {
    pub prop: String,
    pub tier: Tier,
    pub level: &'static str,
    pub seed: i64,
    start: Instant,
    inner: Mutex<Inner>,
}

#[derive(Default)]
struct Inner {
    evaluations: u64,
    nontrivial: BTreeSet<String>,
    nontrivial_count: u64,
    outcomes: BTreeMap<String, u64>,
    samples: Vec<Value>,
    violations: Vec<Violation>,
    rule: String,
    assumptions: Vec<String>,
    extra: BTreeMap<String, Value>,
    states: u64,
    transitions: u64,
    traces: u64,
    exhaustive: bool,
    cap_hit: Option<String>,
    spaces: Vec<Value>,
}

pub const MAX_SAMPLES: usize = 12;
pub const MAX_VIOLATIONS_KEPT: usize = 2000;

impl Run {
    pub fn new(prop: &str, tier: Tier, level: &'static str) -> Self {
        let seed = std::env::var("VERIF_SEED")
            .ok()
            .and_then(|s| s.parse().ok())
            .unwrap_or(0);
        Run {
            prop: prop.to_string(),
            tier,
            level,
            seed,
            start: Instant::now(),
            inner: Mutex::new(Inner {
                exhaustive: true,
                ..Default::default()
            }),
        }
    }

    fn lock(&self) -> std::sync::MutexGuard<'_, Inner> {
        self.inner.lock().unwrap_or_else(|e| e.into_inner())
    }

    pub fn rule(&self, r: &str) {
        self.lock().rule = r.to_string();
    }

    pub fn assume(&self, a: &str) {
        self.lock().assumptions.push(a.to_string());
    }

    /// Record that one case was executed against the implementation.
    pub fn eval(&self) {
        self.lock().evaluations += 1;
    }

    pub fn evals(&self, n: u64) {
        self.lock().evaluations += n;
    }

    /// Record a distinct non-trivial case, identified by `id` (deduplicated).
    pub fn nontrivial(&self, id: impl Into<String>) {
        let mut g = self.lock();
        if g.nontrivial.len() < 2_000_000 {
            g.nontrivial.insert(id.into());
        } else {
            // ids are unique by construction in the callers that reach this size
            g.nontrivial_count += 1;
        }
    }

    /// Count `n` distinct non-trivial cases whose distinctness the caller guarantees by construction.
    pub fn nontrivial_n(&self, n: u64) {
        self.lock().nontrivial_count += n;
    }

    /// Count an observed outcome class (for "distinct_outcomes").
    pub fn outcome(&self, class: impl Into<String>) {
        *self.lock().outcomes.entry(class.into()).or_insert(0) += 1;
    }

    pub fn outcome_n(&self, class: impl Into<String>, n: u64) {
        *self.lock().outcomes.entry(class.into()).or_insert(0) += n;
    }

    pub fn sample(&self, v: Value) {
        let mut g = self.lock();
        if g.samples.len() < MAX_SAMPLES {
            g.samples.push(v);
        }
    }

    pub fn states(&self, n: u64) {
        self.lock().states += n;
    }

    pub fn transitions(&self, n: u64) {
        self.lock().transitions += n;
    }

    pub fn traces(&self, n: u64) {
        self.lock().traces += n;
    }

    pub fn extra(&self, k: &str, v: Value) {
        self.lock().extra.insert(k.to_string(), v);
    }

    /// Describe one enumerated sub-space (name, size, exhaustive?).
    pub fn space(&self, name: &str, size: u64, exhaustive: bool) {
        let mut g = self.lock();
        g.spaces
            .push(json!({"space": name, "cases": size, "exhaustive": exhaustive}));
        if !exhaustive {
            g.exhaustive = false;
        }
    }

    pub fn cap_hit(&self, what: &str) {
        let mut g = self.lock();
        g.exhaustive = false;
        g.cap_hit = Some(what.to_string());
    }

    pub fn violation(&self, key: impl Into<String>, what: impl Into<String>, case: Value) {
        let mut g = self.lock();
        if g.violations.len() < MAX_VIOLATIONS_KEPT {
            g.violations.push(Violation {
                key: key.into(),
                what: what.into(),
                case,
            });
        } else {
            g.extra
                .insert("violations_truncated".into(), Value::Bool(true));
        }
    }

    pub fn violation_count(&self) -> usize {
        self.lock().violations.len()
    }

    pub fn elapsed(&self) -> f64 {
        self.start.elapsed().as_secs_f64()
    }

    /// Write evidence and replays; print KNOWN-FINDING / VIOLATION lines; return the exit code.
    pub fn finish(&self) -> i32 {
        let g = self.lock();
        let known = load_known(&self.prop);
        let mut new_viol: Vec<&Violation> = Vec::new();
        let mut known_hits: BTreeMap<String, (String, u64)> = BTreeMap::new();
        for v in &g.violations {
            match known.iter().find(|k| k.matches(&v.key)) {
                Some(k) => {
                    let e = known_hits
                        .entry(k.id.clone())
                        .or_insert((k.what.clone(), 0));
                    e.1 += 1;
                }
                None => new_viol.push(v),
            }
        }
        for (id, (what, n)) in &known_hits {
            println!(
                "KNOWN-FINDING: property={} {} [{}; {} case(s) this run]",
                self.prop, what, id, n
            );
        }

        if replay_mode() {
            for v in &new_viol {
                println!("VIOLATION property={} replay=(replayed case)", self.prop);
                println!("  key: {}", v.key);
                println!("  what: {}", v.what);
            }
            println!("{} replay: {} violation(s), {} known-finding case(s)", self.prop, new_viol.len(), g.violations.len() - new_viol.len());
            return if new_viol.is_empty() { 0 } else { 1 };
        }

        // replays
        let rdir = out_root().join("replays").join(&self.prop);
        let mut first_replay: Option<PathBuf> = None;
        if !new_viol.is_empty() {
            let _ = std::fs::create_dir_all(&rdir);
            // group by key, keep first case per key (bounds are iterated smallest first)
            let mut seen = BTreeSet::new();
            let mut n = 0;
            for v in &new_viol {
                if !seen.insert(v.key.clone()) {
                    continue;
                }
                n += 1;
                if n > 50 {
                    break;
                }
                let p = rdir.join(format!("{}-{:03}.json", self.tier.name(), n));
                let body = json!({
                    "property": self.prop, "key": v.key, "what": v.what, "case": v.case,
                    "replay_cmd": format!("./check {} --replay {}", self.prop, p.display()),
                });
                let _ = std::fs::write(&p, serde_json::to_vec_pretty(&body).unwrap());
                println!("VIOLATION property={} replay={}", self.prop, p.display());
                println!("  key: {}", v.key);
                println!("  what: {}", v.what);
                if first_replay.is_none() {
                    first_replay = Some(p);
                }
            }
        }

        let distinct = g.nontrivial.len() as u64 + g.nontrivial_count;
        let mut cov = serde_json::Map::new();
        cov.insert("evaluations".into(), json!(g.evaluations));
        cov.insert("distinct_nontrivial".into(), json!(distinct));
        cov.insert("rule".into(), json!(g.rule));
        cov.insert("samples".into(), json!(g.samples));
        cov.insert("exhaustive".into(), json!(g.exhaustive));
        if let Some(c) = &g.cap_hit {
            cov.insert("cap_hit".into(), json!(c));
        }
        if g.states > 0 || self.level == "model_checking" {
            cov.insert("states".into(), json!(g.states));
            cov.insert("transitions".into(), json!(g.transitions));
            cov.insert("traces_validated_against_impl".into(), json!(g.traces));
        }
        cov.insert("distinct_outcomes".into(), json!(g.outcomes.len()));
        cov.insert("outcomes".into(), json!(g.outcomes));
        cov.insert("spaces".into(), json!(g.spaces));
        cov.insert(
            "known_findings_hit".into(),
            json!(known_hits
                .iter()
                .map(|(k, v)| json!({"id": k, "cases": v.1}))
                .collect::<Vec<_>>()),
        );
        for (k, v) in &g.extra {
            cov.insert(k.clone(), v.clone());
        }
        // distinct violation keys with their case counts (unlisted ones first), capped
        let mut key_counts: BTreeMap<String, (u64, bool)> = BTreeMap::new();
        for v in &g.violations {
            let is_known = known.iter().any(|k| k.matches(&v.key));
            key_counts.entry(v.key.clone()).or_insert((0, is_known)).0 += 1;
        }
        cov.insert(
            "violation_keys".into(),
            json!(key_counts
                .iter()
                .take(1500)
                .map(|(k, (n, kn))| json!({"key": k, "cases": n, "known_finding": kn}))
                .collect::<Vec<_>>()),
        );
        let ev = json!({
            "property_id": self.prop,
            "tier": self.tier.name(),
            "seed": self.seed,
            "level": self.level,
            "coverage": Value::Object(cov),
            "assumptions": g.assumptions,
            "wall_s": self.start.elapsed().as_secs_f64(),
            "violations": new_viol.len(),
            "known_finding_cases": g.violations.len() - new_viol.len(),
        });
        let edir = out_root().join("evidence");
        let _ = std::fs::create_dir_all(&edir);
        let ep = edir.join(format!("{}.json", self.prop));
        if let Err(e) = std::fs::write(&ep, serde_json::to_vec_pretty(&ev).unwrap()) {
            eprintln!("machinery: cannot write evidence {}: {e}", ep.display());
            return 3;
        }
        println!(
            "{} {}: evaluations={} distinct_nontrivial={} outcomes={} states={} violations={} known_cases={} wall={:.1}s exhaustive={}",
            self.prop,
            self.tier.name(),
            g.evaluations,
            distinct,
            g.outcomes.len(),
            g.states,
            new_viol.len(),
            g.violations.len() - new_viol.len(),
            self.start.elapsed().as_secs_f64(),
            g.exhaustive
        );
        if !new_viol.is_empty() {
            return 1;
        }
        if g.evaluations == 0 {
            eprintln!("machinery: no evaluations performed");
            return 3;
        }
        0
    }
}

/// `*` matches any (possibly empty) run of characters; everything else is literal.
pub fn glob(pattern: &str, text: &str) -> bool {
    let parts: Vec<&str> = pattern.split('*').collect();
    if parts.len() == 1 {
        return pattern == text;
    }
    let mut rest = text;
    for (i, part) in parts.iter().enumerate() {
        if i == 0 {
            match rest.strip_prefix(part) {
                Some(r) => rest = r,
                None => return false,
            }
        } else if i == parts.len() - 1 {
            return rest.ends_with(part);
        } else {
            match rest.find(part) {
                Some(pos) => rest = &rest[pos + part.len()..],
                None => return false,
            }
        }
    }
    true
}

/// One entry of /verif/known_findings.json.
pub struct Known {
    pub id: String,
    pub what: String,
    /// key patterns; `*` is a wildcard
    pub patterns: Vec<String>,
}

impl Known {
    pub fn matches(&self, key: &str) -> bool {
        self.patterns.iter().any(|p| glob(p, key))
    }
}

pub fn load_known(prop: &str) -> Vec<Known> {
    let p = PathBuf::from(VERIF_ROOT).join("known_findings.json");
    let Ok(bytes) = std::fs::read(&p) else {
        return vec![];
    };
    let v: Value = match serde_json::from_slice(&bytes) {
        Ok(v) => v,
        Err(e) => {
            eprintln!("machinery: known_findings.json unreadable: {e}");
            std::process::exit(3);
        }
    };
    let mut out = vec![];
    for f in v["findings"].as_array().cloned().unwrap_or_default() {
        if f["property"].as_str() != Some(prop) {
            continue;
        }
        // only status "known" suppresses; "fixed" entries suppress nothing
        if f["status"].as_str() != Some("known") {
            continue;
        }
        out.push(Known {
            id: f["id"].as_str().unwrap_or("?").to_string(),
            what: f["what"].as_str().unwrap_or("").to_string(),
            patterns: f["keys"]
                .as_array()
                .map(|a| {
                    a.iter()
                        .filter_map(|s| s.as_str().map(|s| s.to_string()))
                        .collect()
                })
                .unwrap_or_default(),
        });
    }
    out
}

/// Abort with a machinery failure (never a verdict).
pub fn machinery(msg: impl AsRef<str>) -> ! {
    eprintln!("MACHINERY-FAILURE: {}", msg.as_ref());
    std::process::exit(2);
}

/// hex helper
pub fn hex(b: &[u8]) -> String {
    b.iter().map(|x| format!("{x:02x}")).collect()
}

pub fn unhex(s: &str) -> Vec<u8> {
    (0..s.len() / 2)
        .map(|i| u8::from_str_radix(&s[2 * i..2 * i + 2], 16).unwrap_or(0))
        .collect()
}

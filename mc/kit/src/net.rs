//! Group D (C26–C28): scripted/recording mock transports for the SDK's resolver traits, a minimal
//! `block_on`, and the INDEPENDENT oracle side: an RFC 3986 authority splitter, a host-pattern matcher
//! written from the documented allow-list rules, an `inet_aton`-style IPv4 parser and the table of
//! forbidden address blocks transcribed from the IANA special-purpose registries.
//!
//! Nothing in the oracle half calls into `c2pa` (the mock transports necessarily implement its traits).

use std::{
    future::Future,
    io::{Cursor, Read},
    net::Ipv6Addr,
    sync::{Arc, Mutex},
    task::{Context, Poll, Waker},
};

use async_trait::async_trait;
use c2pa::http::{
    http::{HeaderMap, HeaderName, HeaderValue, Request, Response},
    AsyncHttpResolver, HttpResolverError, SyncHttpResolver,
};

// ---------------------------------------------------------------------------------------------
// block_on
// ---------------------------------------------------------------------------------------------

/// Drive a future to completion on the calling thread. The harness's resolvers and signers never
/// suspend, so a future that stays pending is a harness error (panic -> machinery failure).
pub fn block_on<F: Future>(fut: F) -> F::Output {
    let mut cx = Context::from_waker(Waker::noop());
    let mut fut = std::pin::pin!(fut);
    let mut spins = 0u64;
    loop {
        match fut.as_mut().poll(&mut cx) {
            Poll::Ready(v) => return v,
            Poll::Pending => {
                spins += 1;
                if spins > 5_000_000 {
                    panic!("block_on: future stayed pending (harness futures never suspend)");
                }
                std::thread::yield_now();
            }
        }
    }
}

// ---------------------------------------------------------------------------------------------
// mock transport
// ---------------------------------------------------------------------------------------------

/// One request as the transport saw it.
#[derive(Clone, Debug, PartialEq)]
pub struct Seen {
    pub method: String,
    pub uri: String,
    /// lower-case header names (the `http` crate normalises them) with their values, in map order
    pub headers: Vec<(String, String)>,
    pub body_len: usize,
}

impl Seen {
    pub fn has_header(&self, name: &str) -> bool {
        self.headers.iter().any(|(n, _)| n.eq_ignore_ascii_case(name))
    }
}

/// What the transport answers.
#[derive(Clone, Debug)]
pub struct Answer {
    pub status: u16,
    /// raw bytes of the Location header, if any (raw so that non-ASCII values can be served)
    pub location: Option<Vec<u8>>,
    pub body: Vec<u8>,
}

impl Answer {
    pub fn ok() -> Self {
        Answer { status: 200, location: None, body: vec![] }
    }
    pub fn ok_body(body: Vec<u8>) -> Self {
        Answer { status: 200, location: None, body }
    }
    pub fn status(status: u16) -> Self {
        Answer { status, location: None, body: vec![] }
    }
    pub fn redirect(status: u16, location: &str) -> Self {
        Answer { status, location: Some(location.as_bytes().to_vec()), body: vec![] }
    }
}

type AnswerFn = dyn Fn(usize, &Seen) -> Answer + Send + Sync;

/// Recording transport: every call is logged, the answer comes from the script closure
/// `(index of this call, request) -> Answer`. Implements both resolver traits.
pub struct Transport {
    log: Mutex<Vec<Seen>>,
    answer: Box<AnswerFn>,
}

impl Transport {
    pub fn new(answer: impl Fn(usize, &Seen) -> Answer + Send + Sync + 'static) -> Arc<Self> {
        Arc::new(Transport { log: Mutex::new(Vec::new()), answer: Box::new(answer) })
    }

    pub fn seen(&self) -> Vec<Seen> {
        self.log.lock().unwrap_or_else(|e| e.into_inner()).clone()
    }

    pub fn clear(&self) {
        self.log.lock().unwrap_or_else(|e| e.into_inner()).clear();
    }

    fn handle(&self, request: Request<Vec<u8>>) -> Result<Response<Box<dyn Read>>, HttpResolverError> {
        let seen = Seen {
            method: request.method().as_str().to_string(),
            uri: request.uri().to_string(),
            headers: request
                .headers()
                .iter()
                .map(|(n, v)| (n.as_str().to_string(), String::from_utf8_lossy(v.as_bytes()).into_owned()))
                .collect(),
            body_len: request.body().len(),
        };
        let idx = {
            let mut g = self.log.lock().unwrap_or_else(|e| e.into_inner());
            g.push(seen.clone());
            g.len() - 1
        };
        let a = (self.answer)(idx, &seen);
        let mut b = Response::builder().status(a.status);
        if let Some(loc) = &a.location {
            match HeaderValue::from_bytes(loc) {
                Ok(v) => b = b.header("location", v),
                // a value the `http` crate cannot even carry never reaches the SDK from a real client either
                Err(_) => panic!("harness: Location value not representable as a header value: {:?}", loc),
            }
        }
        b = b.header("content-length", a.body.len().to_string());
        b.body(Box::new(Cursor::new(a.body)) as Box<dyn Read>)
            .map_err(HttpResolverError::Http)
    }
}

impl SyncHttpResolver for Transport {
    fn http_resolve(&self, request: Request<Vec<u8>>) -> Result<Response<Box<dyn Read>>, HttpResolverError> {
        self.handle(request)
    }
}

#[async_trait]
impl AsyncHttpResolver for Transport {
    async fn http_resolve_async(
        &self,
        request: Request<Vec<u8>>,
    ) -> Result<Response<Box<dyn Read>>, HttpResolverError> {
        self.handle(request)
    }
}

/// Build a request; `None` when the `http` crate refuses the URI or a header (then there is no case to run).
pub fn request(method: &str, uri: &str, headers: &[(&str, &str)], body: Vec<u8>) -> Option<Request<Vec<u8>>> {
    let mut map = HeaderMap::new();
    for (n, v) in headers {
        map.append(HeaderName::from_bytes(n.as_bytes()).ok()?, HeaderValue::from_str(v).ok()?);
    }
    let mut r = Request::builder().method(method).uri(uri).body(body).ok()?;
    *r.headers_mut() = map;
    Some(r)
}

/// Short class of a resolver error (variant name).
pub fn err_class(e: &HttpResolverError) -> &'static str {
    match e {
        HttpResolverError::Http(_) => "Http",
        HttpResolverError::Io(_) => "Io",
        HttpResolverError::SyncHttpResolverNotImplemented => "SyncNotImplemented",
        HttpResolverError::AsyncHttpResolverNotImplemented => "AsyncNotImplemented",
        HttpResolverError::UriDisallowed { .. } => "UriDisallowed",
        HttpResolverError::ResponseTooLarge => "ResponseTooLarge",
        HttpResolverError::RedirectDisallowed { .. } => "RedirectDisallowed",
        HttpResolverError::RedirectTargetDisallowed { .. } => "RedirectTargetDisallowed",
        HttpResolverError::TooManyRedirects { .. } => "TooManyRedirects",
        HttpResolverError::Other(_) => "Other",
        _ => "Unknown",
    }
}

// ---------------------------------------------------------------------------------------------
// independent URI splitting (RFC 3986 section 3.2)
// ---------------------------------------------------------------------------------------------

#[derive(Clone, Debug, PartialEq)]
pub struct UriParts {
    /// lower-cased scheme, when the text has `scheme://`
    pub scheme: Option<String>,
    pub userinfo: Option<String>,
    /// host as written (IPv6 literals keep their brackets)
    pub host: String,
    /// port digits as written (may be empty for `host:`)
    pub port: Option<String>,
}

/// Split `scheme://userinfo@host:port/...` (or the authority-form `host:port`). `None` if there is no authority.
pub fn split_uri(s: &str) -> Option<UriParts> {
    let (scheme, rest) = match s.find("://") {
        Some(i)
            if !s[..i].is_empty()
                && s[..i].bytes().all(|b| b.is_ascii_alphanumeric() || b == b'+' || b == b'-' || b == b'.') =>
        {
            (Some(s[..i].to_ascii_lowercase()), &s[i + 3..])
        }
        _ => (None, s),
    };
    let end = rest.find(['/', '?', '#']).unwrap_or(rest.len());
    let authority = &rest[..end];
    let (userinfo, hostport) = match authority.rfind('@') {
        Some(i) => (Some(authority[..i].to_string()), &authority[i + 1..]),
        None => (None, authority),
    };
    if hostport.is_empty() {
        return None;
    }
    let (host, port) = if hostport.starts_with('[') {
        let close = hostport.find(']')?;
        let host = &hostport[..=close];
        let after = &hostport[close + 1..];
        let port = match after.strip_prefix(':') {
            Some(p) => Some(p.to_string()),
            None if after.is_empty() => None,
            None => return None,
        };
        (host.to_string(), port)
    } else {
        match hostport.rfind(':') {
            Some(i) => (hostport[..i].to_string(), Some(hostport[i + 1..].to_string())),
            None => (hostport.to_string(), None),
        }
    };
    if host.is_empty() {
        return None;
    }
    Some(UriParts { scheme, userinfo, host, port })
}

pub fn default_port(scheme: &str) -> Option<u32> {
    match scheme {
        "http" | "ws" => Some(80),
        "https" | "wss" => Some(443),
        "ftp" => Some(21),
        _ => None,
    }
}

// ---------------------------------------------------------------------------------------------
// independent host-pattern matcher (C26), from the documentation of `HostPattern` /
// `core.allowed_network_hosts`:
//   * a pattern may include a scheme, a host name or IP address with a single leading `*.` wildcard, a port;
//   * matching is case-insensitive; `*.x` matches `sub.x` but neither `x` nor `fakex`;
//   * with a scheme only URIs of that scheme match, without one any scheme;
//   * `http://192.0.2.1:8080` does not match `http://192.0.2.1` (port omitted): the port must match.
// The matcher is deliberately the most PERMISSIVE reading wherever the documentation is silent
// (trailing root dot, default ports), because the property is one-directional: a request that reached
// the transport must be accepted by this matcher.
// ---------------------------------------------------------------------------------------------

#[derive(Clone, Debug, PartialEq)]
pub struct Pat {
    pub text: String,
    pub scheme: Option<String>,
    pub host: Option<String>,
    pub port: Option<String>,
}

impl Pat {
    pub fn parse(text: &str) -> Pat {
        let lower = text.to_ascii_lowercase();
        let (scheme, rest) = match lower.find("://") {
            Some(i) => (Some(lower[..i].to_string()), lower[i + 3..].to_string()),
            None => (None, lower.clone()),
        };
        let (host, port) = if rest.starts_with('[') {
            match rest.find(']') {
                Some(c) => {
                    let after = &rest[c + 1..];
                    match after.strip_prefix(':') {
                        Some(p) => (rest[..=c].to_string(), Some(p.to_string())),
                        None => (rest.clone(), None),
                    }
                }
                None => (rest.clone(), None),
            }
        } else {
            match rest.rfind(':') {
                Some(i) => (rest[..i].to_string(), Some(rest[i + 1..].to_string())),
                None => (rest.clone(), None),
            }
        };
        Pat { text: text.to_string(), scheme, host: if host.is_empty() { None } else { Some(host) }, port }
    }

    /// shape used in violation keys
    pub fn shape(&self) -> String {
        let h = match &self.host {
            None => "nohost",
            Some(h) if h.starts_with("*.") => "wildcard",
            Some(_) => "exact",
        };
        format!(
            "{}{}{}",
            h,
            if self.scheme.is_some() { "+scheme" } else { "" },
            if self.port.is_some() { "+port" } else { "" }
        )
    }

    /// `Ok(())` when the documented rules let `uri` match; otherwise the components that do not match.
    pub fn accepts(&self, uri: &UriParts) -> Result<(), Vec<&'static str>> {
        let mut fail = vec![];
        if self.host.is_none() && self.scheme.is_none() {
            return Err(vec!["empty-pattern"]);
        }
        if let Some(ph) = &self.host {
            let uh = uri.host.to_ascii_lowercase();
            let uh_nodot = uh.strip_suffix('.').unwrap_or(&uh);
            let mut empty_label = false;
            let ok = if let Some(suffix) = ph.strip_prefix("*.") {
                // something non-empty in place of the wildcard, a dot, then the suffix
                let mut m = |h: &str| {
                    let tail_ok = h.len() >= suffix.len() + 1 && h.ends_with(suffix) && h.as_bytes()[h.len() - suffix.len() - 1] == b'.';
                    if tail_ok && h.len() == suffix.len() + 1 {
                        empty_label = true;
                    }
                    tail_ok && h.len() > suffix.len() + 1
                };
                m(&uh) || m(uh_nodot)
            } else {
                *ph == uh || ph == uh_nodot
            };
            if !ok {
                fail.push(if empty_label { "host(empty-wildcard-label)" } else { "host" });
            }
        }
        // port must match (permissive about the scheme's default port)
        let dflt = uri.scheme.as_deref().and_then(default_port);
        let num = |p: &str| p.parse::<u32>().ok();
        let port_ok = match (&self.port, &uri.port) {
            // a host-less pattern without a port (scheme only, e.g. `https://`) says nothing about ports
            (None, _) if self.host.is_none() => true,
            (None, None) => true,
            (Some(p), Some(u)) => p == u || (num(p).is_some() && num(p) == num(u)),
            (Some(p), None) => num(p).is_some() && num(p) == dflt,
            (None, Some(u)) => u.is_empty() || (num(u).is_some() && num(u) == dflt),
        };
        if !port_ok {
            fail.push("port");
        }
        if let Some(ps) = &self.scheme {
            if uri.scheme.as_deref() != Some(ps.as_str()) {
                fail.push("scheme");
            }
        }
        if fail.is_empty() {
            Ok(())
        } else {
            Err(fail)
        }
    }
}

/// `Ok(())` if some pattern of the list accepts; otherwise the failure of the closest pattern
/// (fewest failing components) as `(components, shape of that pattern)`.
pub fn list_accepts(list: &[Pat], uri: &UriParts) -> Result<(), (String, String)> {
    let mut best: Option<(usize, String, String)> = None;
    for p in list {
        match p.accepts(uri) {
            Ok(()) => return Ok(()),
            Err(f) => {
                if best.as_ref().map(|b| f.len() < b.0).unwrap_or(true) {
                    best = Some((f.len(), f.join("+"), p.shape()));
                }
            }
        }
    }
    match best {
        Some((_, f, s)) => Err((f, s)),
        None => Err(("empty-list".into(), "none".into())),
    }
}

// ---------------------------------------------------------------------------------------------
// forbidden address classes (C27): transcription of the blocks the property names from the IANA
// IPv4 / IPv6 Special-Purpose Address Registries and the IPv4 multicast address space registry.
// ---------------------------------------------------------------------------------------------

/// (network, prefix length, class)
pub const V4_BLOCKS: &[(u32, u8, &str)] = &[
    (0x0000_0000, 32, "unspecified"),   // 0.0.0.0/32        RFC 1122 "this host on this network"
    (0x0A00_0000, 8, "private"),        // 10.0.0.0/8        RFC 1918
    (0x6440_0000, 10, "shared"),        // 100.64.0.0/10     RFC 6598 shared address space
    (0x7F00_0000, 8, "loopback"),       // 127.0.0.0/8       RFC 1122
    (0xA9FE_0000, 16, "link-local"),    // 169.254.0.0/16    RFC 3927
    (0xAC10_0000, 12, "private"),       // 172.16.0.0/12     RFC 1918
    (0xC000_0200, 24, "documentation"), // 192.0.2.0/24      RFC 5737 TEST-NET-1
    (0xC0A8_0000, 16, "private"),       // 192.168.0.0/16    RFC 1918
    (0xC633_6400, 24, "documentation"), // 198.51.100.0/24   RFC 5737 TEST-NET-2
    (0xCB00_7100, 24, "documentation"), // 203.0.113.0/24    RFC 5737 TEST-NET-3
    (0xE000_0000, 4, "multicast"),      // 224.0.0.0/4       RFC 5771
    (0xFFFF_FFFF, 32, "broadcast"),     // 255.255.255.255/32 RFC 919 limited broadcast
];

pub fn v4_mask(len: u8) -> u32 {
    if len == 0 {
        0
    } else {
        u32::MAX << (32 - len as u32)
    }
}

/// Forbidden class of an IPv4 address, `None` when the property does not name its block.
pub fn v4_class(a: u32) -> Option<&'static str> {
    V4_BLOCKS.iter().find(|(net, len, _)| a & v4_mask(*len) == *net).map(|b| b.2)
}

/// (network, prefix length, class); `::ffff:0:0/96` is handled separately (IPv4 rules apply).
pub const V6_BLOCKS: &[(u128, u8, &str)] = &[
    (0, 128, "unspecified"),                                       // ::/128      RFC 4291
    (1, 128, "loopback"),                                          // ::1/128     RFC 4291
    (0xfc00_0000_0000_0000_0000_0000_0000_0000, 7, "unique-local"), // fc00::/7    RFC 4193
    (0xfe80_0000_0000_0000_0000_0000_0000_0000, 10, "link-local"), // fe80::/10   RFC 4291
    (0xff00_0000_0000_0000_0000_0000_0000_0000, 8, "multicast"),   // ff00::/8    RFC 4291
];

pub const V6_MAPPED_PREFIX: u128 = 0x0000_0000_0000_0000_0000_ffff_0000_0000; // ::ffff:0:0/96 RFC 4291

pub fn v6_class(a: u128) -> Option<&'static str> {
    if a >> 32 == V6_MAPPED_PREFIX >> 32 {
        return v4_class(a as u32);
    }
    V6_BLOCKS
        .iter()
        .find(|(net, len, _)| {
            let mask = if *len == 0 { 0 } else { u128::MAX << (128 - *len as u32) };
            a & mask == *net
        })
        .map(|b| b.2)
}

/// `inet_aton` / WHATWG IPv4 parser: 1–4 dot separated parts, each decimal, `0x` hex or `0` octal; all but
/// the last part are octets, the last fills the remaining bytes; one trailing dot is allowed.
pub fn parse_v4_any(host: &str) -> Option<u32> {
    let h = host.strip_suffix('.').unwrap_or(host);
    if h.is_empty() {
        return None;
    }
    let parts: Vec<&str> = h.split('.').collect();
    if parts.is_empty() || parts.len() > 4 {
        return None;
    }
    let mut nums: Vec<u64> = vec![];
    for p in &parts {
        if p.is_empty() {
            return None;
        }
        let v = if let Some(hex) = p.strip_prefix("0x").or_else(|| p.strip_prefix("0X")) {
            if hex.is_empty() {
                0
            } else {
                if hex.len() > 12 {
                    return None;
                }
                u64::from_str_radix(hex, 16).ok()?
            }
        } else if p.len() > 1 && p.starts_with('0') {
            if p.len() > 16 {
                return None;
            }
            u64::from_str_radix(p, 8).ok()?
        } else {
            if p.len() > 12 || !p.bytes().all(|b| b.is_ascii_digit()) {
                return None;
            }
            p.parse::<u64>().ok()?
        };
        nums.push(v);
    }
    let n = nums.len();
    for v in &nums[..n - 1] {
        if *v > 255 {
            return None;
        }
    }
    let last = nums[n - 1];
    if last >= 256u64.pow((5 - n) as u32) {
        return None;
    }
    let mut a: u64 = last;
    for (i, v) in nums[..n - 1].iter().enumerate() {
        a += v << (8 * (3 - i));
    }
    Some(a as u32)
}

/// Forbidden class denoted by a host string as it appears in a URI (IPv6 in brackets), or `None`.
pub fn host_class(host: &str) -> Option<&'static str> {
    if let Some(inner) = host.strip_prefix('[').and_then(|h| h.strip_suffix(']')) {
        return inner.parse::<Ipv6Addr>().ok().and_then(|a| v6_class(u128::from(a)));
    }
    if let Some(a) = parse_v4_any(host) {
        return v4_class(a);
    }
    let name = host.to_ascii_lowercase();
    let name = name.strip_suffix('.').unwrap_or(&name);
    if name == "localhost" || name.ends_with(".localhost") {
        return Some("localhost");
    }
    None
}

/// Forbidden class of the host of a URI text, `None` when not forbidden or no host.
pub fn uri_host_class(uri: &str) -> Option<&'static str> {
    split_uri(uri).and_then(|p| host_class(&p.host))
}

#[cfg(test)]
mod tests {
    use super::*;

    #[test]
    fn splitter() {
        let p = split_uri("http://a.com:80@evil.org:8080/x?y#z").unwrap();
        assert_eq!(p.host, "evil.org");
        assert_eq!(p.port.as_deref(), Some("8080"));
        assert_eq!(p.userinfo.as_deref(), Some("a.com:80"));
        let p = split_uri("https://[::1]:443/").unwrap();
        assert_eq!(p.host, "[::1]");
        assert_eq!(p.port.as_deref(), Some("443"));
        let p = split_uri("a.com:8080").unwrap();
        assert_eq!((p.scheme, p.host.as_str(), p.port.as_deref()), (None, "a.com", Some("8080")));
    }

    #[test]
    fn v4() {
        assert_eq!(parse_v4_any("0x7f.1"), Some(0x7f000001));
        assert_eq!(parse_v4_any("2130706433"), Some(0x7f000001));
        assert_eq!(parse_v4_any("0177.0.0.01."), Some(0x7f000001));
        assert_eq!(parse_v4_any("127.0.0.256"), None);
        assert_eq!(v4_class(0x64800000), None);
        assert_eq!(v4_class(0x647fffff), Some("shared"));
        assert_eq!(host_class("[::ffff:10.0.0.1]"), Some("private"));
        assert_eq!(host_class("[fdff::1]"), Some("unique-local"));
        assert_eq!(host_class("[fec0::1]"), None);
        assert_eq!(host_class("x.LocalHost."), Some("localhost"));
    }
}

// ---------------------------------------------------------------------------------------------
// per-key cap on recorded violation cases (a systematic defect fails millions of enumerated cases; the
// evidence writer keeps 2000 violations in total, so one key must not crowd the others out)
// ---------------------------------------------------------------------------------------------

pub struct KeyCap {
    seen: Mutex<std::collections::BTreeMap<String, u64>>,
    cap: u64,
}

impl KeyCap {
    pub const fn new(cap: u64) -> Self {
        KeyCap { seen: Mutex::new(std::collections::BTreeMap::new()), cap }
    }

    /// Record the violation unless `cap` cases with this key were recorded already (all are counted).
    pub fn violation(&self, run: &crate::Run, key: impl Into<String>, what: impl FnOnce() -> String, case: impl FnOnce() -> serde_json::Value) {
        let key = key.into();
        let n = {
            let mut g = self.seen.lock().unwrap_or_else(|e| e.into_inner());
            let n = g.entry(key.clone()).or_insert(0);
            *n += 1;
            *n
        };
        if n <= self.cap {
            run.violation(key, what(), case());
        }
    }

    /// Write the complete per-key counts into the evidence.
    pub fn report(&self, run: &crate::Run) {
        let g = self.seen.lock().unwrap_or_else(|e| e.into_inner());
        if !g.is_empty() {
            run.extra("violating_cases_per_key", serde_json::json!(*g));
        }
    }
}

// ---------------------------------------------------------------------------------------------
// real-client support (C26 space 4): a tokio runtime for the SDK's default async client and harness-owned
// loopback HTTP/1.1 responders that play a shared redirect script
// ---------------------------------------------------------------------------------------------

/// Drive a future on a fresh current-thread tokio runtime (the SDK's default async HTTP client needs a reactor).
pub fn block_on_tokio<F: Future>(fut: F) -> F::Output {
    let rt = tokio::runtime::Builder::new_current_thread()
        .enable_all()
        .build()
        .unwrap_or_else(|e| crate::ev::machinery(format!("cannot build a tokio runtime: {e}")));
    rt.block_on(fut)
}

/// One request as a loopback responder received it on the wire.
#[derive(Clone, Debug, PartialEq)]
pub struct WireSeen {
    /// index of the responder that received it
    pub listener: usize,
    pub method: String,
    /// value of the Host header
    pub host: String,
    /// request target (origin form)
    pub target: String,
}

impl WireSeen {
    pub fn uri(&self) -> String {
        format!("http://{}{}", self.host, self.target)
    }
}

#[derive(Default)]
struct LoopState {
    /// Location to serve for the n-th request received by ANY responder; `None`/exhausted = 200
    script: Vec<Option<String>>,
    log: Vec<WireSeen>,
}

/// A set of HTTP/1.1 responders on 127.0.0.1 (one thread each) sharing one script and one log.
pub struct Loopback {
    pub ports: Vec<u16>,
    state: Arc<Mutex<LoopState>>,
}

impl Loopback {
    pub fn start(n: usize) -> Option<Loopback> {
        let state: Arc<Mutex<LoopState>> = Arc::new(Mutex::new(LoopState::default()));
        let mut ports = vec![];
        for id in 0..n {
            let l = std::net::TcpListener::bind("127.0.0.1:0").ok()?;
            ports.push(l.local_addr().ok()?.port());
            let st = state.clone();
            std::thread::spawn(move || {
                for s in l.incoming() {
                    let Ok(mut s) = s else { continue };
                    let _ = s.set_read_timeout(Some(std::time::Duration::from_millis(1000)));
                    let mut buf = [0u8; 4096];
                    let mut got: Vec<u8> = Vec::new();
                    loop {
                        match s.read(&mut buf) {
                            Ok(0) | Err(_) => break,
                            Ok(k) => {
                                got.extend_from_slice(&buf[..k]);
                                if got.windows(4).any(|w| w == b"\r\n\r\n") || got.len() > 65536 {
                                    break;
                                }
                            }
                        }
                    }
                    let head = String::from_utf8_lossy(&got).into_owned();
                    let mut lines = head.split("\r\n");
                    let first = lines.next().unwrap_or("");
                    let mut parts = first.split(' ');
                    let (method, target) = (parts.next().unwrap_or("").to_string(), parts.next().unwrap_or("").to_string());
                    if method.is_empty() {
                        continue; // a probe connection without a request
                    }
                    let host = lines
                        .find_map(|l| l.split_once(':').filter(|(n, _)| n.eq_ignore_ascii_case("host")).map(|(_, v)| v.trim().to_string()))
                        .unwrap_or_default();
                    let answer = {
                        let mut g = st.lock().unwrap_or_else(|e| e.into_inner());
                        let idx = g.log.len();
                        g.log.push(WireSeen { listener: id, method, host, target });
                        g.script.get(idx).cloned().flatten()
                    };
                    let resp = match answer {
                        Some(loc) => format!("HTTP/1.1 302 Found\r\nLocation: {loc}\r\nContent-Length: 0\r\nConnection: close\r\n\r\n"),
                        None => "HTTP/1.1 200 OK\r\nContent-Length: 2\r\nConnection: close\r\n\r\nok".to_string(),
                    };
                    use std::io::Write;
                    let _ = s.write_all(resp.as_bytes());
                    let _ = s.flush();
                    let _ = s.shutdown(std::net::Shutdown::Write);
                }
            });
        }
        Some(Loopback { ports, state })
    }

    /// Install the script for the next call and clear the log.
    pub fn arm(&self, script: Vec<Option<String>>) {
        let mut g = self.state.lock().unwrap_or_else(|e| e.into_inner());
        g.script = script;
        g.log.clear();
    }

    pub fn log(&self) -> Vec<WireSeen> {
        self.state.lock().unwrap_or_else(|e| e.into_inner()).log.clone()
    }
}

/// Names from /etc/hosts that resolve to 127.0.0.1 only and are not spelled like localhost: as redirect targets they
/// pass the SDK's name-based internal-address filter and still reach the harness's loopback responders.
pub fn loopback_aliases() -> Vec<String> {
    use std::net::ToSocketAddrs;
    let mut out = vec![];
    for line in std::fs::read_to_string("/etc/hosts").unwrap_or_default().lines() {
        let line = line.split('#').next().unwrap_or("");
        let mut it = line.split_whitespace();
        if it.next() != Some("127.0.0.1") {
            continue;
        }
        for name in it {
            let n = name.to_ascii_lowercase();
            if n == "localhost" || n.ends_with(".localhost") || host_class(&n).is_some() || out.contains(&n) {
                continue;
            }
            if !n.bytes().all(|b| b.is_ascii_alphanumeric() || b == b'-' || b == b'.') {
                continue;
            }
            let ok = (n.as_str(), 80u16)
                .to_socket_addrs()
                .map(|a| {
                    let v: Vec<_> = a.collect();
                    !v.is_empty() && v.iter().all(|x| x.ip() == std::net::IpAddr::V4(std::net::Ipv4Addr::LOCALHOST))
                })
                .unwrap_or(false);
            if ok {
                out.push(n);
            }
        }
    }
    out
}

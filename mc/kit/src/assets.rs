//! Tiny structurally valid assets for every writable format (DESIGN.md 3.1, Appendix A).
//! Built from code; handlers only parse structure, so these are accepted.
#![allow(clippy::all)]

#[derive(Clone, Debug)]
pub struct Asset {
    pub name: &'static str,
    pub mime: &'static str,
    pub ext: &'static str,
    pub data: Vec<u8>,
}

pub fn crc32(data: &[u8]) -> u32 { let mut c: u32 = 0xFFFF_FFFF; for &b in data { c ^= b as u32; for _ in 0..8 { c = if c & 1 != 0 { (c >> 1) ^ 0xEDB8_8320 } else { c >> 1 }; } } !c }
pub fn be32(n: u32) -> [u8;4] { n.to_be_bytes() }
pub fn bx(t: &[u8;4], body: &[u8]) -> Vec<u8> { let mut v = be32(body.len() as u32 + 8).to_vec(); v.extend_from_slice(t); v.extend_from_slice(body); v }
pub fn fbx(t: &[u8;4], body: &[u8]) -> Vec<u8> { let mut b = vec![0u8;4]; b.extend_from_slice(body); bx(t, &b) }

pub fn jpeg() -> Vec<u8> {
    let mut v = vec![0xFF,0xD8, 0xFF,0xE0,0x00,0x10, b'J',b'F',b'I',b'F',0, 1,1, 0, 0,1, 0,1, 0,0];
    v.extend_from_slice(&[0xFF,0xDB,0x00,0x43,0x00]); v.extend(std::iter::repeat(1u8).take(64));
    v.extend_from_slice(&[0xFF,0xC0,0x00,0x0B,0x08,0x00,0x01,0x00,0x01,0x01,0x01,0x11,0x00]);
    v.extend_from_slice(&[0xFF,0xC4,0x00,0x14,0x00, 1,0,0,0,0,0,0,0,0,0,0,0,0,0,0,0, 0x00]);
    v.extend_from_slice(&[0xFF,0xC4,0x00,0x14,0x10, 1,0,0,0,0,0,0,0,0,0,0,0,0,0,0,0, 0x00]);
    v.extend_from_slice(&[0xFF,0xDA,0x00,0x08,0x01,0x01,0x00,0x00,0x3F,0x00, 0x7F, 0xA5, 0x33, 0xFF,0xD9]);
    v
}
pub fn png() -> Vec<u8> {
    fn ch(t: &[u8;4], d: &[u8]) -> Vec<u8> { let mut v = be32(d.len() as u32).to_vec(); let mut td = t.to_vec(); td.extend_from_slice(d); v.extend_from_slice(&td); v.extend_from_slice(&be32(crc32(&td))); v }
    let mut v = vec![0x89,b'P',b'N',b'G',0x0D,0x0A,0x1A,0x0A];
    v.extend(ch(b"IHDR", &[0,0,0,1, 0,0,0,1, 8, 0, 0,0,0]));
    v.extend(ch(b"IDAT", &[0x78,0x01,0x01,0x02,0x00,0xFD,0xFF,0x00,0x55,0x00,0x57,0x00,0x56]));
    v.extend(ch(b"IEND", &[])); v
}
pub fn gif() -> Vec<u8> { let mut v = b"GIF89a".to_vec(); v.extend_from_slice(&[1,0,1,0,0x80,0,0, 0,0,0, 255,255,255, 0x2C,0,0,0,0,1,0,1,0,0, 0x02,0x02,0x4C,0x01,0x00, 0x3B]); v }
pub fn riff(form: &[u8;4], chunks: &[(&[u8;4], Vec<u8>)]) -> Vec<u8> { let mut body = form.to_vec(); for (t,d) in chunks { body.extend_from_slice(*t); body.extend_from_slice(&(d.len() as u32).to_le_bytes()); body.extend_from_slice(d); if d.len()%2==1 { body.push(0); } } let mut v = b"RIFF".to_vec(); v.extend_from_slice(&(body.len() as u32).to_le_bytes()); v.extend(body); v }
pub fn wav() -> Vec<u8> { riff(b"WAVE", &[(b"fmt ", vec![1,0,1,0,0x44,0xAC,0,0,0x88,0x58,1,0,2,0,16,0]), (b"data", vec![1,2,3,4,5,6,7,8])]) }
pub fn webp() -> Vec<u8> { riff(b"WEBP", &[(b"VP8L", vec![0x2F,0,0,0,0,0x07,0x10,0x11,0x11,0x88,0x88,0xFE,0x07,0x00])]) }
pub fn avi() -> Vec<u8> { let mut hdrl = b"hdrl".to_vec(); hdrl.extend_from_slice(b"avih"); hdrl.extend_from_slice(&56u32.to_le_bytes()); hdrl.extend(vec![0u8;56]); let mut movi = b"movi".to_vec(); movi.extend_from_slice(b"00dc"); movi.extend_from_slice(&4u32.to_le_bytes()); movi.extend_from_slice(&[9,9,9,9]); riff(b"AVI ", &[(b"LIST", hdrl), (b"LIST", movi)]) }
pub fn tiff() -> Vec<u8> {
    let mut v = vec![b'I',b'I',0x2A,0, 8,0,0,0];
    let ents: Vec<(u16,u16,u32,u32)> = vec![(256,3,1,1),(257,3,1,1),(258,3,1,8),(259,3,1,1),(262,3,1,1),(273,4,1,0),(277,3,1,1),(278,3,1,1),(279,4,1,4)];
    let n = ents.len(); let data_off = 8 + 2 + n*12 + 4;
    v.extend_from_slice(&(n as u16).to_le_bytes());
    for (t,ty,c,val) in ents { v.extend_from_slice(&t.to_le_bytes()); v.extend_from_slice(&ty.to_le_bytes()); v.extend_from_slice(&c.to_le_bytes()); let val = if t==273 { data_off as u32 } else { val }; if ty==3 { v.extend_from_slice(&(val as u16).to_le_bytes()); v.extend_from_slice(&[0,0]); } else { v.extend_from_slice(&val.to_le_bytes()); } }
    v.extend_from_slice(&[0,0,0,0]); v.extend_from_slice(&[0xAA,0xBB,0xCC,0xDD]); v
}
pub fn svg() -> Vec<u8> { br#"<?xml version="1.0" encoding="UTF-8"?><svg xmlns="http://www.w3.org/2000/svg" width="1" height="1"><rect width="1" height="1"/></svg>"#.to_vec() }
pub fn mp3() -> Vec<u8> { let mut frame = vec![0xFF,0xFB,0x90,0x00]; frame.extend(vec![0u8;413]); let mut tag = b"ID3".to_vec(); let body = { let mut f = b"TIT2".to_vec(); f.extend_from_slice(&be32(3)); f.extend_from_slice(&[0,0]); f.extend_from_slice(&[0,b'h',b'i']); f }; tag.extend_from_slice(&[3,0,0]); let n = body.len() as u32; tag.extend_from_slice(&[((n>>21)&0x7f) as u8, ((n>>14)&0x7f) as u8, ((n>>7)&0x7f) as u8, (n&0x7f) as u8]); tag.extend(body); tag.extend(frame.clone()); tag.extend(frame); tag }
pub fn mp3_bare() -> Vec<u8> { let mut frame = vec![0xFF,0xFB,0x90,0x00]; frame.extend(vec![0u8;413]); let mut v = frame.clone(); v.extend(frame); v }
pub fn flac() -> Vec<u8> { let mut v = b"fLaC".to_vec(); v.extend_from_slice(&[0x80,0,0,34]); let mut si = vec![0x10,0x00,0x10,0x00, 0,0,0, 0,0,0, 0x0A,0xC4,0x42,0xF0, 0,0,0,0x10]; si.extend(vec![0u8;16]); v.extend(si); v.extend_from_slice(&[0xFF,0xF8,0x69,0x18,0,0,0xBF, 1,2,3,4,5,6]); v }
pub fn jxl() -> Vec<u8> { let mut v = vec![0,0,0,0x0C,b'J',b'X',b'L',b' ',0x0D,0x0A,0x87,0x0A]; v.extend(bx(b"ftyp", &[b'j',b'x',b'l',b' ',0,0,0,0,b'j',b'x',b'l',b' '])); v.extend(bx(b"jxlc", &[0xFF,0x0A,0x00,0x10,0x20,0x30])); v }
pub fn mp4(mdat_first: bool) -> Vec<u8> {
    let ftyp = bx(b"ftyp", &[b'i',b's',b'o',b'm',0,0,2,0,b'i',b's',b'o',b'm',b'm',b'p',b'4',b'2']);
    let mdat_payload: Vec<u8> = (0..32u8).collect(); let mdat = bx(b"mdat", &mdat_payload);
    let build_moov = |chunk_off: u32| -> Vec<u8> {
        let mvhd = fbx(b"mvhd", &{ let mut b = vec![0u8;96]; b[8..12].copy_from_slice(&be32(1000)); b[12..16].copy_from_slice(&be32(1000)); b[16..20].copy_from_slice(&be32(0x00010000)); b[92..96].copy_from_slice(&be32(2)); b });
        let tkhd = fbx(b"tkhd", &{ let mut b = vec![0u8;80]; b[8..12].copy_from_slice(&be32(1)); b });
        let mdhd = fbx(b"mdhd", &{ let mut b = vec![0u8;20]; b[8..12].copy_from_slice(&be32(1000)); b });
        let hdlr = fbx(b"hdlr", &{ let mut b = vec![0u8;4]; b.extend_from_slice(b"vide"); b.extend(vec![0u8;12]); b.push(0); b });
        let vmhd = fbx(b"vmhd", &[0u8;8]);
        let dref = fbx(b"dref", &{ let mut b = be32(1).to_vec(); b.extend(bx(b"url ", &[0,0,0,1])); b });
        let dinf = bx(b"dinf", &dref);
        let stsd = fbx(b"stsd", &be32(0));
        let stts = fbx(b"stts", &{ let mut b = be32(1).to_vec(); b.extend(be32(2)); b.extend(be32(500)); b });
        let stsc = fbx(b"stsc", &{ let mut b = be32(1).to_vec(); b.extend(be32(1)); b.extend(be32(1)); b.extend(be32(1)); b });
        let stsz = fbx(b"stsz", &{ let mut b = be32(16).to_vec(); b.extend(be32(2)); b });
        let stco = fbx(b"stco", &{ let mut b = be32(2).to_vec(); b.extend(be32(chunk_off)); b.extend(be32(chunk_off+16)); b });
        let stbl = bx(b"stbl", &[stsd, stts, stsc, stsz, stco].concat());
        let minf = bx(b"minf", &[vmhd, dinf, stbl].concat());
        let mdia = bx(b"mdia", &[mdhd, hdlr, minf].concat());
        let trak = bx(b"trak", &[tkhd, mdia].concat());
        bx(b"moov", &[mvhd, trak].concat())
    };
    let moov_len = build_moov(0).len();
    if mdat_first { let off = (ftyp.len() + 8) as u32; [ftyp, mdat, build_moov(off)].concat() } else { let off = (ftyp.len() + moov_len + 8) as u32; [ftyp, build_moov(off), mdat].concat() }
}
pub fn heic() -> Vec<u8> {
    let ftyp = bx(b"ftyp", &[b'h',b'e',b'i',b'c',0,0,0,0,b'm',b'i',b'f',b'1',b'h',b'e',b'i',b'c']);
    let hdlr = fbx(b"hdlr", &{ let mut b = vec![0u8;4]; b.extend_from_slice(b"pict"); b.extend(vec![0u8;12]); b.push(0); b });
    let pitm = fbx(b"pitm", &[0,1]);
    let iinf = fbx(b"iinf", &{ let mut b = vec![0,1]; b.extend(bx(b"infe", &{ let mut e = vec![2,0,0,0, 0,1, 0,0]; e.extend_from_slice(b"hvc1"); e.push(0); e })); b });
    let mk_meta = |off: u32| { let iloc = fbx(b"iloc", &{ let mut b = vec![0x44, 0x00, 0,1, 0,1, 0,0, 0,1]; b.extend(be32(off)); b.extend(be32(8)); b }); fbx(b"meta", &[hdlr.clone(), pitm.clone(), iloc, iinf.clone()].concat()) };
    let meta_len = mk_meta(0).len();
    let mdat = bx(b"mdat", &[1,2,3,4,5,6,7,8]);
    [ftyp.clone(), mk_meta((ftyp.len()+meta_len+8) as u32), mdat].concat()
}
pub fn store(n: usize) -> Vec<u8> { // JUMBF superbox 'c2pa' padded to exactly n bytes
    let mut jumd = vec![0x63,0x32,0x70,0x61,0x00,0x11,0x00,0x10,0x80,0x00,0x00,0xAA,0x00,0x38,0x9B,0x71, 0x03]; jumd.extend_from_slice(b"c2pa\0");
    let jumd = bx(b"jumd", &jumd); let fixed = 8 + jumd.len() + 8; assert!(n >= fixed);
    let pad: Vec<u8> = (0..(n - fixed)).map(|i| (i % 251) as u8).collect();
    let mut v = be32(n as u32).to_vec(); v.extend_from_slice(b"jumb"); v.extend(jumd); v.extend(bx(b"free", &pad)); v
}

/// JPEG with an APP1 XMP segment carrying two properties.
pub fn xmp_packet(extra: &str) -> String {
    format!("<?xpacket begin=\"\u{feff}\" id=\"W5M0MpCehiHzreSzNTczkc9d\"?><x:xmpmeta xmlns:x=\"adobe:ns:meta/\"><rdf:RDF xmlns:rdf=\"http://www.w3.org/1999/02/22-rdf-syntax-ns#\"><rdf:Description rdf:about=\"\" xmlns:dc=\"http://purl.org/dc/elements/1.1/\" xmlns:xmp=\"http://ns.adobe.com/xap/1.0/\" xmp:CreatorTool=\"kit\" dc:format=\"x/y\"{extra}><xmp:Rating>3</xmp:Rating></rdf:Description></rdf:RDF></x:xmpmeta><?xpacket end=\"w\"?>")
}

pub fn jpeg_with_xmp() -> Vec<u8> {
    let base = jpeg();
    let xmp = xmp_packet("");
    let mut seg = b"http://ns.adobe.com/xap/1.0/\0".to_vec();
    seg.extend_from_slice(xmp.as_bytes());
    let mut v = base[..20].to_vec(); // SOI + APP0
    v.extend_from_slice(&[0xFF, 0xE1]);
    v.extend_from_slice(&((seg.len() + 2) as u16).to_be_bytes());
    v.extend(seg);
    v.extend_from_slice(&base[20..]);
    v
}

/// JPEG with restart markers inside the entropy coded segment.
pub fn jpeg_with_rst() -> Vec<u8> {
    let base = jpeg();
    let n = base.len();
    let mut v = base[..n - 2].to_vec();
    v.extend_from_slice(&[0xFF, 0xD0, 0x11, 0x22, 0xFF, 0x00, 0x33, 0xFF, 0xD1, 0x44]);
    v.extend_from_slice(&[0xFF, 0xD9]);
    v
}

pub fn png_chunk(t: &[u8; 4], d: &[u8]) -> Vec<u8> {
    let mut v = be32(d.len() as u32).to_vec();
    let mut td = t.to_vec();
    td.extend_from_slice(d);
    v.extend_from_slice(&td);
    v.extend_from_slice(&be32(crc32(&td)));
    v
}

/// PNG with an iTXt XMP chunk and a tEXt chunk.
pub fn png_with_xmp() -> Vec<u8> {
    let base = png();
    let iend = base.len() - 12;
    let mut itxt = b"XML:com.adobe.xmp\0\0\0\0\0".to_vec();
    itxt.extend_from_slice(xmp_packet("").as_bytes());
    let mut v = base[..33].to_vec(); // sig + IHDR
    v.extend(png_chunk(b"iTXt", &itxt));
    v.extend(png_chunk(b"tEXt", b"Comment\0hello"));
    v.extend_from_slice(&base[33..iend]);
    v.extend_from_slice(&base[iend..]);
    v
}

/// GIF with comment and application extensions.
pub fn gif_with_ext() -> Vec<u8> {
    let mut v = b"GIF89a".to_vec();
    v.extend_from_slice(&[1, 0, 1, 0, 0x80, 0, 0, 0, 0, 0, 255, 255, 255]);
    v.extend_from_slice(&[0x21, 0xFE, 0x05, b'h', b'e', b'l', b'l', b'o', 0x00]);
    v.extend_from_slice(&[0x21, 0xFF, 0x0B]);
    v.extend_from_slice(b"NETSCAPE2.0");
    v.extend_from_slice(&[0x03, 0x01, 0x00, 0x00, 0x00]);
    v.extend_from_slice(&[0x21, 0xF9, 0x04, 0x00, 0x00, 0x00, 0x00, 0x00]);
    v.extend_from_slice(&[0x2C, 0, 0, 0, 0, 1, 0, 1, 0, 0, 0x02, 0x02, 0x4C, 0x01, 0x00, 0x3B]);
    v
}

/// JPEG with a DRI segment and TEN restart intervals: RST0..RST7, then RST0, RST1 again (the marker range wraps),
/// a few entropy bytes between them, with a stuffed FF 00 before and after the first RST7.
pub fn jpeg_rst_many() -> Vec<u8> {
    let base = jpeg();
    let sos = base.windows(2).position(|w| w == [0xFF, 0xDA]).unwrap();
    let mut v = base[..sos].to_vec();
    v.extend_from_slice(&[0xFF, 0xDD, 0x00, 0x04, 0x00, 0x01]); // DRI, restart interval 1
    v.extend_from_slice(&base[sos..base.len() - 2]); // SOS header + first entropy bytes
    for i in 0..10u8 {
        v.extend_from_slice(&[0xFF, 0xD0 + (i % 8)]);
        match i {
            3 => v.extend_from_slice(&[0x31, 0xFF, 0x00, 0x32]),
            8 => v.extend_from_slice(&[0x81, 0xFF, 0x00, 0x82, 0x83]),
            _ => v.extend_from_slice(&[0x10 + i, 0x20 + i, 0x30 + i]),
        }
    }
    v.extend_from_slice(&[0xFF, 0xD9]);
    v
}

/// JPEG with one segment of many marker kinds: APP1 (Exif), APP2, APP13, APP14, APP15, COM, DRI.
pub fn jpeg_segs() -> Vec<u8> {
    fn seg(m: u8, d: &[u8]) -> Vec<u8> { let mut v = vec![0xFF, m]; v.extend_from_slice(&((d.len() + 2) as u16).to_be_bytes()); v.extend_from_slice(d); v }
    let base = jpeg();
    let sos = base.windows(2).position(|w| w == [0xFF, 0xDA]).unwrap();
    let mut v = base[..20].to_vec();
    v.extend(seg(0xE1, b"Exif\0\0II*\0\x08\0\0\0\0\0\0\0\0\0"));
    v.extend(seg(0xE2, b"ICC_PROFILE\0\x01\x01abcd"));
    v.extend(seg(0xED, b"Photoshop 3.0\08BIM"));
    v.extend(seg(0xEE, b"Adobe\0\x64\0\0\0\0\0"));
    v.extend(seg(0xEF, b"last-app"));
    v.extend(seg(0xFE, b"a comment"));
    v.extend_from_slice(&base[20..sos]);
    v.extend(seg(0xDD, &[0, 0]));
    v.extend_from_slice(&base[sos..]);
    v
}

/// PNG with ancillary chunks before and after the image data and the image data split over three IDAT chunks.
pub fn png_multi_idat() -> Vec<u8> {
    let base = png();
    let idat = [0x78u8, 0x01, 0x01, 0x02, 0x00, 0xFD, 0xFF, 0x00, 0x55, 0x00, 0x57, 0x00, 0x56];
    let mut v = base[..33].to_vec();
    v.extend(png_chunk(b"gAMA", &[0, 0, 0xB1, 0x8F]));
    v.extend(png_chunk(b"IDAT", &idat[..5]));
    v.extend(png_chunk(b"IDAT", &idat[5..9]));
    v.extend(png_chunk(b"IDAT", &idat[9..]));
    v.extend(png_chunk(b"tEXt", b"Comment\0after"));
    v.extend(png_chunk(b"tIME", &[7, 0xEA, 1, 2, 3, 4, 5]));
    v.extend(png_chunk(b"IEND", &[]));
    v
}

/// GIF with two frames, image data in several sub-blocks, a two-sub-block comment, GCEs and a plain text extension.
pub fn gif_multi() -> Vec<u8> {
    let mut v = b"GIF89a".to_vec();
    v.extend_from_slice(&[1, 0, 1, 0, 0x80, 0, 0, 0, 0, 0, 255, 255, 255]);
    v.extend_from_slice(&[0x21, 0xFE, 0x03, b'o', b'n', b'e', 0x02, b't', b'w', 0x00]);
    v.extend_from_slice(&[0x21, 0xF9, 0x04, 0x00, 0x01, 0x00, 0x00, 0x00]);
    v.extend_from_slice(&[0x2C, 0, 0, 0, 0, 1, 0, 1, 0, 0, 0x02, 0x01, 0x4C, 0x01, 0x01, 0x00]);
    v.extend_from_slice(&[0x21, 0x01, 0x0C, 0, 0, 0, 0, 1, 0, 1, 0, 1, 1, 0, 1, 0x02, b'h', b'i', 0x00]);
    v.extend_from_slice(&[0x21, 0xF9, 0x04, 0x00, 0x02, 0x00, 0x00, 0x00]);
    v.extend_from_slice(&[0x2C, 0, 0, 0, 0, 1, 0, 1, 0, 0, 0x02, 0x02, 0x4C, 0x01, 0x00, 0x3B]);
    v
}

/// WAV with a LIST/INFO chunk holding an odd-sized sub-chunk and odd-sized sample data.
pub fn wav_list() -> Vec<u8> {
    let mut info = b"INFO".to_vec();
    info.extend_from_slice(b"INAM");
    info.extend_from_slice(&3u32.to_le_bytes());
    info.extend_from_slice(b"abc\0");
    riff(b"WAVE", &[(b"fmt ", vec![1, 0, 1, 0, 0x44, 0xAC, 0, 0, 0x88, 0x58, 1, 0, 2, 0, 16, 0]), (b"LIST", info), (b"data", vec![1, 2, 3, 4, 5, 6, 7])])
}

/// Structural-repetition variants that are NOT part of `all()` (so that checks iterating `all()` are unaffected);
/// used by C01.
pub fn structural() -> Vec<Asset> {
    vec![
        a("jpeg-segs", "image/jpeg", "jpg", jpeg_segs()),
        a("png-multi-idat", "image/png", "png", png_multi_idat()),
        a("gif-multi", "image/gif", "gif", gif_multi()),
        a("wav-list", "audio/wav", "wav", wav_list()),
    ]
}

pub fn a(name: &'static str, mime: &'static str, ext: &'static str, data: Vec<u8>) -> Asset {
    Asset { name, mime, ext, data }
}

/// One base asset per writable format.
pub fn base() -> Vec<Asset> {
    vec![
        a("jpeg", "image/jpeg", "jpg", jpeg()),
        a("png", "image/png", "png", png()),
        a("gif", "image/gif", "gif", gif()),
        a("wav", "audio/wav", "wav", wav()),
        a("webp", "image/webp", "webp", webp()),
        a("avi", "video/avi", "avi", avi()),
        a("tiff", "image/tiff", "tiff", tiff()),
        a("svg", "image/svg+xml", "svg", svg()),
        a("mp3", "audio/mpeg", "mp3", mp3()),
        a("flac", "audio/flac", "flac", flac()),
        a("jxl", "image/jxl", "jxl", jxl()),
        a("mp4", "video/mp4", "mp4", mp4(false)),
        a("heic", "image/heic", "heic", heic()),
    ]
}

/// Base assets plus structural variants.
pub fn all() -> Vec<Asset> {
    let mut v = base();
    v.extend(vec![
        a("jpeg-xmp", "image/jpeg", "jpg", jpeg_with_xmp()),
        a("jpeg-rst", "image/jpeg", "jpg", jpeg_with_rst()),
        a("jpeg-rst-many", "image/jpeg", "jpg", jpeg_rst_many()),
        a("png-xmp", "image/png", "png", png_with_xmp()),
        a("gif-ext", "image/gif", "gif", gif_with_ext()),
        a("mp3-bare", "audio/mpeg", "mp3", mp3_bare()),
        a("mp4-mdat-first", "video/mp4", "mp4", mp4(true)),
    ]);
    v
}

pub fn by_name(name: &str) -> Asset {
    all()
        .into_iter()
        .chain(structural())
        .find(|x| x.name == name)
        .unwrap_or_else(|| crate::ev::machinery(format!("no kit asset named {name}")))
}

//! Worker-subprocess pool (owner: group I; used by C10 and C19).
//!
//! Cases that may kill the process (stack overflow, abort on allocation failure, RLIMIT_AS) or hang are
//! executed in re-exec'ed copies of the current binary. Case indices `0..total` are dealt round-robin to
//! `n` worker slots. A worker records the index it is about to execute in a small progress file *before*
//! executing it, so that a dead or hung worker is attributed to the exact case. Results travel as JSON
//! lines on the worker's stdout and become visible to the parent only at *checkpoints* (a batch of
//! violation lines followed by one `ck` line carrying counter deltas); after a death the slot is restarted
//! from its last checkpoint with the dead case on a skip list, so nothing is counted twice and nothing is lost.

use std::{
    io::{BufRead, BufReader, Write},
    os::unix::fs::FileExt,
    path::{Path, PathBuf},
    process::{Command, Stdio},
    sync::{mpsc, Arc, Mutex},
    time::{Duration, Instant, SystemTime, UNIX_EPOCH},
};

use serde_json::{json, Value};

const IDLE: u64 = u64::MAX;

#[derive(Clone, Debug)]
pub struct WorkerSpec {
    pub dir: PathBuf,
    pub w: u64,
    pub n: u64,
    pub from: u64,
    pub total: u64,
    pub skip: Vec<u64>,
}

fn now_ms() -> u64 {
    SystemTime::now().duration_since(UNIX_EPOCH).map(|d| d.as_millis() as u64).unwrap_or(0)
}

/// Parse the worker specification from environment variable `env` (None in the parent).
pub fn worker_spec(env: &str) -> Option<WorkerSpec> {
    let s = std::env::var(env).ok()?;
    let p: Vec<&str> = s.split('|').collect();
    if p.len() != 6 {
        crate::ev::machinery(format!("bad worker spec in {env}: {s}"));
    }
    let num = |x: &str| x.parse::<u64>().unwrap_or_else(|_| crate::ev::machinery(format!("bad worker spec {s}")));
    Some(WorkerSpec {
        dir: PathBuf::from(p[0]),
        w: num(p[1]),
        n: num(p[2]),
        from: num(p[3]),
        total: num(p[4]),
        skip: p[5].split(',').filter(|x| !x.is_empty()).map(num).collect(),
    })
}

/// What a worker hands back at a checkpoint.
pub struct Emit {
    lines: Vec<Value>,
    pf: std::fs::File,
}
impl Emit {
    /// Record which part of the current case is about to run (read back by the parent if this worker dies).
    pub fn sub(&self, n: u64) {
        let _ = self.pf.write_all_at(&n.to_le_bytes(), 16);
    }
    /// A line delivered to the parent's `on_line` at the next checkpoint (violations, samples, observations).
    pub fn line(&mut self, v: Value) {
        self.lines.push(v);
    }
}

/// Worker side. Executes `case(idx, emit)` for every index of this slot (idx ≡ w mod n, idx ≥ from, not skipped),
/// calls `checkpoint()` every `every` cases to obtain the counter deltas accumulated since the last call, and exits
/// the process with status 0 when done. Never returns.
pub fn worker_loop(
    spec: &WorkerSpec,
    every: u64,
    mut case: impl FnMut(u64, &mut Emit),
    mut checkpoint: impl FnMut() -> Value,
) -> ! {
    let pf = std::fs::OpenOptions::new()
        .create(true)
        .write(true)
        .truncate(false)
        .open(spec.dir.join(format!("progress-{}", spec.w)))
        .unwrap_or_else(|e| crate::ev::machinery(format!("worker progress file: {e}")));
    let mark = |idx: u64| {
        let mut b = [0u8; 24];
        b[..8].copy_from_slice(&idx.to_le_bytes());
        b[8..16].copy_from_slice(&now_ms().to_le_bytes());
        let _ = pf.write_all_at(&b, 0);
    };
    mark(IDLE);
    let out = std::io::stdout();
    let mut emit = Emit { lines: vec![], pf: pf.try_clone().unwrap_or_else(|e| crate::ev::machinery(format!("worker progress file: {e}"))) };
    let mut since = 0u64;
    let mut idx = spec.from;
    // align to this slot's residue class
    while idx % spec.n != spec.w {
        idx += 1;
    }
    let flush = |emit: &mut Emit, next: u64, delta: Value| {
        let mut o = out.lock();
        for l in emit.lines.drain(..) {
            let _ = writeln!(o, "{}", json!({"t":"l","v":l}));
        }
        let _ = writeln!(o, "{}", json!({"t":"ck","next":next,"delta":delta}));
        let _ = o.flush();
    };
    while idx < spec.total {
        if !spec.skip.contains(&idx) {
            mark(idx);
            case(idx, &mut emit);
            mark(IDLE);
            since += 1;
        }
        idx += spec.n;
        if since >= every {
            since = 0;
            let d = checkpoint();
            flush(&mut emit, idx, d);
        }
    }
    let d = checkpoint();
    flush(&mut emit, idx, d);
    {
        let mut o = out.lock();
        let _ = writeln!(o, "{}", json!({"t":"done"}));
        let _ = o.flush();
    }
    std::process::exit(0);
}

/// How a case ended a worker.
#[derive(Clone, Debug)]
pub struct Death {
    pub idx: u64,
    /// value of the last `Emit::sub` call of that case (0 if none)
    pub sub: u64,
    /// "signal 11", "signal 6", "exit 101", "hang (killed by watchdog after N s)"
    pub how: String,
}

enum Ev {
    Line(Value),
    Ck(Value),
    Death(Death),
    Fatal(String),
    SlotDone,
}

pub struct PoolCfg<'a> {
    /// environment variable carrying the worker spec
    pub env: &'a str,
    /// arguments after the program name, e.g. ["C10", "--tier", "quick"]
    pub args: Vec<String>,
    pub dir: &'a Path,
    pub total: u64,
    pub workers: u64,
    /// a case that keeps a worker busy longer than this (wall clock) is killed and reported as a hang
    pub hang_secs: u64,
    /// extra environment for the workers
    pub extra_env: Vec<(String, String)>,
}

/// Parent side: run all cases in worker subprocesses. `on_line` receives every emitted line, `on_ck` every
/// checkpoint delta, `on_death` every (case, cause) that killed or hung a worker. All callbacks run on the
/// calling thread.
pub fn run_pool(
    cfg: &PoolCfg<'_>,
    mut on_line: impl FnMut(Value),
    mut on_ck: impl FnMut(Value),
    mut on_death: impl FnMut(Death),
) {
    let exe = std::env::current_exe().unwrap_or_else(|e| crate::ev::machinery(format!("current_exe: {e}")));
    let n = cfg.workers.max(1).min(cfg.total.max(1));
    let (tx, rx) = mpsc::channel::<Ev>();
    // pid + hang flag per slot, for the watchdog
    let slots: Vec<Arc<Mutex<(Option<u32>, bool)>>> = (0..n).map(|_| Arc::new(Mutex::new((None, false)))).collect();
    let finished = Arc::new(Mutex::new(0u64));
    std::thread::scope(|s| {
        // watchdog
        {
            let slots = slots.clone();
            let dir = cfg.dir.to_path_buf();
            let finished = finished.clone();
            let hang_ms = cfg.hang_secs * 1000;
            s.spawn(move || loop {
                if *finished.lock().unwrap() >= n {
                    break;
                }
                std::thread::sleep(Duration::from_millis(250));
                for (w, slot) in slots.iter().enumerate() {
                    let Ok(b) = std::fs::read(dir.join(format!("progress-{w}"))) else { continue };
                    if b.len() < 16 {
                        continue;
                    }
                    let idx = u64::from_le_bytes(b[..8].try_into().unwrap());
                    let t0 = u64::from_le_bytes(b[8..16].try_into().unwrap());
                    if idx != IDLE && now_ms().saturating_sub(t0) > hang_ms {
                        let mut g = slot.lock().unwrap();
                        if let (Some(pid), false) = (g.0, g.1) {
                            g.1 = true;
                            unsafe {
                                libc::kill(pid as i32, libc::SIGKILL);
                            }
                        }
                    }
                }
            });
        }
        for w in 0..n {
            let tx = tx.clone();
            let slot = slots[w as usize].clone();
            let exe = exe.clone();
            let finished = finished.clone();
            s.spawn(move || {
                let mut from = 0u64;
                let mut skip: Vec<u64> = vec![];
                loop {
                    let pfile = cfg.dir.join(format!("progress-{w}"));
                    let _ = std::fs::remove_file(&pfile);
                    let spec = format!(
                        "{}|{}|{}|{}|{}|{}",
                        cfg.dir.display(),
                        w,
                        n,
                        from,
                        cfg.total,
                        skip.iter().map(|x| x.to_string()).collect::<Vec<_>>().join(",")
                    );
                    let mut cmd = Command::new(&exe);
                    cmd.args(&cfg.args).env(cfg.env, &spec).stdin(Stdio::null()).stdout(Stdio::piped()).stderr(Stdio::inherit());
                    for (k, v) in &cfg.extra_env {
                        cmd.env(k, v);
                    }
                    let mut child = match cmd.spawn() {
                        Ok(c) => c,
                        Err(e) => {
                            let _ = tx.send(Ev::Fatal(format!("cannot spawn worker: {e}")));
                            break;
                        }
                    };
                    *slot.lock().unwrap() = (Some(child.id()), false);
                    let mut done = false;
                    let started = Instant::now();
                    if let Some(so) = child.stdout.take() {
                        for line in BufReader::new(so).lines() {
                            let Ok(line) = line else { break };
                            let Ok(v) = serde_json::from_str::<Value>(&line) else {
                                let _ = tx.send(Ev::Fatal(format!("worker {w} wrote a non-JSON line: {}", &line[..line.len().min(200)])));
                                continue;
                            };
                            match v["t"].as_str() {
                                Some("l") => {
                                    let _ = tx.send(Ev::Line(v["v"].clone()));
                                }
                                Some("ck") => {
                                    from = v["next"].as_u64().unwrap_or(from);
                                    let _ = tx.send(Ev::Ck(v["delta"].clone()));
                                }
                                Some("done") => done = true,
                                _ => {}
                            }
                        }
                    }
                    let status = child.wait();
                    let hung = {
                        let mut g = slot.lock().unwrap();
                        g.0 = None;
                        g.1
                    };
                    let ok = matches!(&status, Ok(s) if s.success());
                    if done && ok {
                        break;
                    }
                    // death: attribute to the case in the progress file
                    let pbytes = std::fs::read(&pfile).ok();
                    let idx = pbytes.as_ref().filter(|b| b.len() >= 8).map(|b| u64::from_le_bytes(b[..8].try_into().unwrap()));
                    let sub = pbytes.as_ref().filter(|b| b.len() >= 24).map(|b| u64::from_le_bytes(b[16..24].try_into().unwrap())).unwrap_or(0);
                    let how = if hung {
                        format!("hang (killed by watchdog after {} s)", cfg.hang_secs)
                    } else {
                        use std::os::unix::process::ExitStatusExt;
                        match &status {
                            Ok(s) => match (s.signal(), s.code()) {
                                (Some(sig), _) => format!("signal {sig}"),
                                (None, Some(c)) => format!("exit {c}"),
                                _ => "unknown exit".into(),
                            },
                            Err(e) => format!("wait failed: {e}"),
                        }
                    };
                    match idx {
                        Some(i) if i != IDLE => {
                            let _ = tx.send(Ev::Death(Death { idx: i, sub, how }));
                            skip.push(i);
                        }
                        _ => {
                            let _ = tx.send(Ev::Fatal(format!(
                                "worker {w} died ({how}) outside a case after {:.1}s",
                                started.elapsed().as_secs_f64()
                            )));
                            break;
                        }
                    }
                    if skip.len() > 5000 {
                        let _ = tx.send(Ev::Fatal(format!("worker {w}: more than 5000 deaths, giving up")));
                        break;
                    }
                }
                *finished.lock().unwrap() += 1;
                let _ = tx.send(Ev::SlotDone);
            });
        }
        drop(tx);
        let mut fatal: Option<String> = None;
        for ev in rx {
            match ev {
                Ev::Line(v) => on_line(v),
                Ev::Ck(v) => on_ck(v),
                Ev::Death(d) => on_death(d),
                Ev::Fatal(m) => {
                    if fatal.is_none() {
                        fatal = Some(m);
                    }
                }
                Ev::SlotDone => {}
            }
        }
        if let Some(m) = fatal {
            crate::ev::machinery(m);
        }
    });
}

/// Peak resident set size and current resident set size of this process in KiB (from /proc/self/status).
pub fn rss_kib() -> (u64, u64) {
    let s = std::fs::read_to_string("/proc/self/status").unwrap_or_default();
    let f = |key: &str| -> u64 {
        s.lines()
            .find(|l| l.starts_with(key))
            .and_then(|l| l.split_whitespace().nth(1))
            .and_then(|x| x.parse().ok())
            .unwrap_or(0)
    };
    (f("VmHWM:"), f("VmRSS:"))
}

/// Reset the peak-RSS counter of this process (Linux: write "5" to /proc/self/clear_refs). Returns false when unsupported.
pub fn reset_peak_rss() -> bool {
    std::fs::write("/proc/self/clear_refs", b"5").is_ok()
}

/// CPU time consumed by the calling thread, in microseconds.
pub fn thread_cpu_us() -> u64 {
    let mut ts = libc::timespec { tv_sec: 0, tv_nsec: 0 };
    unsafe {
        libc::clock_gettime(libc::CLOCK_THREAD_CPUTIME_ID, &mut ts);
    }
    ts.tv_sec as u64 * 1_000_000 + ts.tv_nsec as u64 / 1000
}

/// Limit the address space of this process (RLIMIT_AS), so that runaway allocation kills only this process.
pub fn limit_address_space(bytes: u64) {
    let lim = libc::rlimit { rlim_cur: bytes, rlim_max: bytes };
    unsafe {
        libc::setrlimit(libc::RLIMIT_AS, &lim);
    }
}

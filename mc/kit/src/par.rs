//! Parallel exhaustive iteration helpers. Work is sharded over independent cases;
//! SDK objects are never shared between workers.

use std::{
    panic::{catch_unwind, AssertUnwindSafe},
    sync::atomic::{AtomicBool, AtomicU64, Ordering},
};

pub fn workers() -> usize {
    std::env::var("VERIF_JOBS")
        .ok()
        .and_then(|s| s.parse().ok())
        .unwrap_or_else(|| {
            std::thread::available_parallelism()
                .map(|n| n.get())
                .unwrap_or(4)
        })
        .max(1)
}

/// Run `f(i)` for every i in 0..n on all cores (dynamic chunking). Every index is visited exactly once.
pub fn for_each_index<F: Fn(u64) + Sync>(n: u64, f: F) {
    let next = AtomicU64::new(0);
    let chunk = (n / (workers() as u64 * 64)).clamp(1, 4096);
    let failed = AtomicBool::new(false);
    std::thread::scope(|s| {
        for _ in 0..workers() {
            s.spawn(|| loop {
                let start = next.fetch_add(chunk, Ordering::Relaxed);
                if start >= n {
                    break;
                }
                for i in start..(start + chunk).min(n) {
                    if catch_unwind(AssertUnwindSafe(|| f(i))).is_err() {
                        failed.store(true, Ordering::Relaxed);
                    }
                }
            });
        }
    });
    if failed.load(Ordering::Relaxed) {
        crate::ev::machinery("harness code panicked outside a guarded subject call");
    }
}

/// Run `f(item)` for every item of the slice on all cores.
pub fn for_each<T: Sync, F: Fn(&T) + Sync>(items: &[T], f: F) {
    for_each_index(items.len() as u64, |i| f(&items[i as usize]));
}

/// Call the subject, turning a panic into Err(message).
pub fn guard<T>(f: impl FnOnce() -> T) -> Result<T, String> {
    catch_unwind(AssertUnwindSafe(f)).map_err(|e| {
        if let Some(s) = e.downcast_ref::<&str>() {
            s.to_string()
        } else if let Some(s) = e.downcast_ref::<String>() {
            s.clone()
        } else {
            "panic (non-string payload)".to_string()
        }
    })
}

/// Silence the default panic hook output for guarded subject panics (they are reported as cases).
pub fn quiet_panics() {
    std::panic::set_hook(Box::new(|info| {
        if std::env::var("VERIF_SHOW_PANICS").is_ok() {
            eprintln!("panic: {info}");
        }
    }));
}

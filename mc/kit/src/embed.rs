//! Group A helpers shared by C07/C08/C09/C12: store byte strings, guarded wrappers around the embedding
//! seam (`jumbf_io::{save,load}_jumbf_*_memory` + hooks), the store-length sets, and extra hand-built asset
//! variants / layout grammars (BMFF, TIFF, RIFF, GIF, JXL, SVG, ID3) that are not in `assets.rs`.
#![allow(clippy::all)]

use crate::assets::{self, a, be32, bx, fbx, Asset};
use crate::par;

// ------------------------------------------------------------------------------------------------
// store byte strings
// ------------------------------------------------------------------------------------------------

pub const MIN_STORE: usize = 46;

/// Well-formed C2PA JUMBF superbox of exactly `n` bytes (n >= 46) whose padding pattern depends on `salt`
/// (same structure as `assets::store`: jumb{ jumd(C2PA uuid, label "c2pa"), free(pattern) }).
pub fn store(n: usize, salt: u8) -> Vec<u8> {
    let mut v = assets::store(n);
    for (i, b) in v.iter_mut().enumerate().skip(MIN_STORE) {
        *b = ((i as u32).wrapping_mul(7).wrapping_add(salt as u32 * 31) % 251) as u8;
    }
    v
}

/// Arbitrary (non-JUMBF) byte string of length n.
pub fn raw(n: usize, salt: u8) -> Vec<u8> {
    (0..n).map(|i| ((i as u32 * 13 + salt as u32 * 17 + 1) % 256) as u8).collect()
}

/// The C07/C08 quick length set: every n in [46, 4096], +-8 around 64000*k and 65536*k (JPEG APP11 split,
/// 16-bit boundaries), which also covers odd/even (RIFF pad) and all base64 phases (n mod 3).
pub fn quick_lengths() -> Vec<usize> {
    let mut v: Vec<usize> = (MIN_STORE..=4096).collect();
    for k in 1..=3usize {
        v.extend(64000 * k - 8..=64000 * k + 8);
    }
    for k in 1..=2usize {
        v.extend(65536 * k - 8..=65536 * k + 8);
    }
    v.sort();
    v.dedup();
    v
}

// ------------------------------------------------------------------------------------------------
// guarded seam
// ------------------------------------------------------------------------------------------------

/// Outcome of a subject call: Ok(value) | Err("kind: message") ; a panic is reported as Err("PANIC: ...").
pub type Out<T> = Result<T, String>;

pub fn is_panic<T>(r: &Out<T>) -> bool {
    matches!(r, Err(e) if e.starts_with("PANIC"))
}

fn wrap<T>(f: impl FnOnce() -> c2pa::Result<T>) -> Out<T> {
    match par::guard(f) {
        Ok(Ok(v)) => Ok(v),
        Ok(Err(e)) => Err(crate::sdk::err_kind(&e) + ": " + &format!("{e:?}").chars().take(160).collect::<String>()),
        Err(p) => Err(format!("PANIC: {p}")),
    }
}

pub fn save(mime: &str, asset: &[u8], store: &[u8]) -> Out<Vec<u8>> {
    wrap(|| c2pa::jumbf_io::save_jumbf_to_memory(mime, asset, store))
}
pub fn load(mime: &str, asset: &[u8]) -> Out<Vec<u8>> {
    wrap(|| c2pa::jumbf_io::load_jumbf_from_memory(mime, asset))
}
pub fn remove(mime: &str, asset: &[u8]) -> Out<Vec<u8>> {
    wrap(|| c2pa::verif_hooks::remove_cai_store(mime, asset))
}
/// (offset, length, type name) triples
pub fn locations(mime: &str, asset: &[u8]) -> Out<Vec<(usize, usize, String)>> {
    wrap(|| c2pa::verif_hooks::object_locations(mime, asset)).map(|v| v.into_iter().map(|p| (p.offset, p.length, format!("{:?}", p.htype))).collect())
}
/// (first name, start, len) triples; None when the format has no box-hash support
pub fn box_map(mime: &str, asset: &[u8]) -> Option<Out<Vec<(String, u64, u64)>>> {
    let r = par::guard(|| c2pa::verif_hooks::box_map(mime, asset));
    match r {
        Err(p) => Some(Err(format!("PANIC: {p}"))),
        Ok(None) => None,
        Ok(Some(Err(e))) => Some(Err(crate::sdk::err_kind(&e))),
        Ok(Some(Ok(v))) => Some(Ok(v.into_iter().map(|b| (b.names.first().cloned().unwrap_or_default(), b.range_start, b.range_len)).collect())),
    }
}

/// Short error kind (text before the first ':').
pub fn kind_of_err(e: &str) -> &str {
    e.split(':').next().unwrap_or(e)
}

// ------------------------------------------------------------------------------------------------
// extra asset variants
// ------------------------------------------------------------------------------------------------

pub fn sidecar() -> Asset {
    a("c2pa", "application/c2pa", "c2pa", vec![])
}

pub fn gif87a() -> Vec<u8> {
    let mut v = assets::gif();
    v[4] = b'7';
    v
}

fn gif_sub(data: &[u8]) -> Vec<u8> {
    let mut v = vec![];
    for c in data.chunks(255) {
        v.push(c.len() as u8);
        v.extend_from_slice(c);
    }
    v.push(0);
    v
}

/// GIF89a with an XMP application extension (packet + magic trailer in proper sub-blocks) and a local colour table.
pub fn gif_xmp() -> Vec<u8> {
    let mut v = b"GIF89a".to_vec();
    v.extend_from_slice(&[1, 0, 1, 0, 0x80, 0, 0, 0, 0, 0, 255, 255, 255]);
    let mut x = assets::xmp_packet("").into_bytes();
    x.push(1);
    x.extend((0..=255u8).rev());
    v.extend_from_slice(&[0x21, 0xFF, 0x0B]);
    v.extend_from_slice(b"XMP DataXMP");
    v.extend(gif_sub(&x));
    v.extend_from_slice(&[0x2C, 0, 0, 0, 0, 1, 0, 1, 0, 0x80, 1, 2, 3, 4, 5, 6, 0x02, 0x02, 0x4C, 0x01, 0x00, 0x3B]);
    v
}

/// GIF89a with a plain text extension (GIF89a spec section 25: block size 12, then 12 bytes grid/cell/colour
/// fields, then data sub-blocks). `fg`,`bg` are the colour index bytes (the last two of the 12).
/// NOT part of `seeds()`: the SDK's parser skips 11 instead of 13 bytes here and only accepts the file for
/// lucky colour values.
pub fn gif_plaintext(fg: u8, bg: u8) -> Vec<u8> {
    let mut v = b"GIF89a".to_vec();
    v.extend_from_slice(&[1, 0, 1, 0, 0x80, 0, 0, 0, 0, 0, 255, 255, 255]);
    v.extend_from_slice(&[0x21, 0x01, 12, 0, 0, 0, 0, 1, 0, 1, 0, 8, 8, fg, bg]);
    v.extend(gif_sub(b"hi"));
    v.extend_from_slice(&[0x2C, 0, 0, 0, 0, 1, 0, 1, 0, 0, 0x02, 0x02, 0x4C, 0x01, 0x00, 0x3B]);
    v
}

pub fn with_trailing(mut v: Vec<u8>, extra: &[u8]) -> Vec<u8> {
    v.extend_from_slice(extra);
    v
}

/// JPEG with a COM segment, a short APP11 segment (not JUMBF), an APP2 segment and two scans.
pub fn jpeg_rich() -> Vec<u8> {
    let base = assets::jpeg();
    let n = base.len();
    let mut v = base[..20].to_vec();
    v.extend_from_slice(&[0xFF, 0xFE, 0x00, 0x07, b'h', b'e', b'l', b'l', b'o']);
    v.extend_from_slice(&[0xFF, 0xEB, 0x00, 0x06, 1, 2, 3, 4]);
    v.extend_from_slice(&[0xFF, 0xE2, 0x00, 0x08, b'I', b'C', b'C', 0, 1, 1]);
    v.extend_from_slice(&base[20..n - 2]);
    v.extend_from_slice(&[0xFF, 0xDA, 0x00, 0x08, 0x01, 0x01, 0x00, 0x00, 0x3F, 0x00, 0x12, 0xFF, 0x00, 0x34]);
    v.extend_from_slice(&[0xFF, 0xD9]);
    v
}

/// JPEG whose APP11 segment carries a non-C2PA JUMBF box (long enough to be inspected by the handler).
pub fn jpeg_foreign_jumbf() -> Vec<u8> {
    let base = assets::jpeg();
    let mut jumd = vec![0x65, 0x78, 0x69, 0x66, 0x00, 0x11, 0x00, 0x10, 0x80, 0x00, 0x00, 0xAA, 0x00, 0x38, 0x9B, 0x71, 0x03];
    jumd.extend_from_slice(b"exif\0");
    let sb = bx(b"jumb", &[bx(b"jumd", &jumd), bx(b"bidb", &[1, 2, 3, 4, 5, 6, 7, 8])].concat());
    let mut seg = vec![b'J', b'P', 0x00, 0x07, 0, 0, 0, 1];
    seg.extend(sb);
    let mut v = base[..20].to_vec();
    v.extend_from_slice(&[0xFF, 0xEB]);
    v.extend_from_slice(&((seg.len() + 2) as u16).to_be_bytes());
    v.extend(seg);
    v.extend_from_slice(&base[20..]);
    v
}

/// PNG with ancillary chunks before and after IDAT and two IDAT chunks.
pub fn png_rich() -> Vec<u8> {
    let base = assets::png();
    let iend = base.len() - 12;
    let mut v = base[..33].to_vec();
    v.extend(assets::png_chunk(b"gAMA", &[0, 0, 0xB1, 0x8F]));
    v.extend(assets::png_chunk(b"tEXt", b"Software\0kit"));
    v.extend_from_slice(&base[33..iend]);
    v.extend(assets::png_chunk(b"tIME", &[7, 0xE8, 1, 1, 0, 0, 0]));
    v.extend_from_slice(&base[iend..]);
    v
}

pub fn webp_xmp() -> Vec<u8> {
    assets::riff(
        b"WEBP",
        &[
            (b"VP8X", vec![4, 0, 0, 0, 0, 0, 0, 0, 0, 0]),
            (b"VP8L", vec![0x2F, 0, 0, 0, 0, 0x07, 0x10, 0x11, 0x11, 0x88, 0x88, 0xFE, 0x07, 0x00]),
            (b"XMP ", assets::xmp_packet("").into_bytes()),
        ],
    )
}

/// WAV with odd-sized chunks (pad bytes) and a LIST/INFO chunk.
pub fn wav_odd() -> Vec<u8> {
    let mut info = b"INFO".to_vec();
    info.extend_from_slice(b"INAM");
    info.extend_from_slice(&3u32.to_le_bytes());
    info.extend_from_slice(b"abc\0");
    assets::riff(b"WAVE", &[(b"fmt ", vec![1, 0, 1, 0, 0x44, 0xAC, 0, 0, 0x88, 0x58, 1, 0, 2, 0, 16, 0]), (b"LIST", info), (b"data", vec![1, 2, 3, 4, 5, 6, 7])])
}

/// AVI followed by a second top-level `RIFF AVIX` chunk (OpenDML continuation).
pub fn avi_avix() -> Vec<u8> {
    let mut v = assets::avi();
    let mut movi = b"movi".to_vec();
    movi.extend_from_slice(b"00dc");
    movi.extend_from_slice(&4u32.to_le_bytes());
    movi.extend_from_slice(&[7, 7, 7, 7]);
    let mut x = assets::riff(b"AVIX", &[(b"LIST", movi)]);
    v.append(&mut x);
    v
}

// ---- TIFF builder ---------------------------------------------------------------------------------

#[derive(Clone)]
pub enum TVal {
    /// numeric values of the entry's type
    N(Vec<u64>),
    /// raw bytes (types 1, 2, 7)
    B(Vec<u8>),
    /// strip data blobs: the entry holds their offsets (LONG/LONG8)
    Strips(Vec<Vec<u8>>),
    /// sub-IFDs: the entry holds their offsets
    Sub(Vec<Vec<(u16, u16, TVal)>>),
}

struct TW {
    le: bool,
    big: bool,
    out: Vec<u8>,
}
impl TW {
    fn p16(&self, v: &mut Vec<u8>, x: u16) {
        v.extend_from_slice(&if self.le { x.to_le_bytes() } else { x.to_be_bytes() });
    }
    fn p32(&self, v: &mut Vec<u8>, x: u32) {
        v.extend_from_slice(&if self.le { x.to_le_bytes() } else { x.to_be_bytes() });
    }
    fn p64(&self, v: &mut Vec<u8>, x: u64) {
        v.extend_from_slice(&if self.le { x.to_le_bytes() } else { x.to_be_bytes() });
    }
    fn pn(&self, v: &mut Vec<u8>, typ: u16, x: u64) {
        match crate::walk::tiff_type_size(typ).unwrap_or(1) {
            1 => v.push(x as u8),
            2 => self.p16(v, x as u16),
            4 => self.p32(v, x as u32),
            _ => self.p64(v, x),
        }
    }
    fn align(&mut self) {
        while self.out.len() % 2 != 0 {
            self.out.push(0);
        }
    }
    /// writes external data first, then the IFD; returns (ifd offset, position of its next-IFD field)
    fn ifd(&mut self, ents: &[(u16, u16, TVal)]) -> (u64, usize) {
        let inl = if self.big { 8 } else { 4 };
        let mut fields: Vec<(u16, u16, u64, Vec<u8>)> = vec![];
        for (tag, typ, val) in ents {
            let (count, bytes) = match val {
                TVal::N(xs) => {
                    let mut b = vec![];
                    for x in xs {
                        self.pn(&mut b, *typ, *x);
                    }
                    (xs.len() as u64, b)
                }
                TVal::B(b) => (b.len() as u64, b.clone()),
                TVal::Strips(blobs) => {
                    let mut b = vec![];
                    for blob in blobs {
                        self.align();
                        let o = self.out.len() as u64;
                        self.out.extend_from_slice(blob);
                        self.pn(&mut b, *typ, o);
                    }
                    (blobs.len() as u64, b)
                }
                TVal::Sub(subs) => {
                    let mut b = vec![];
                    for s in subs {
                        let (o, _) = self.ifd(s);
                        self.pn(&mut b, *typ, o);
                    }
                    (subs.len() as u64, b)
                }
            };
            let field = if bytes.len() <= inl {
                let mut f = bytes.clone();
                f.resize(inl, 0);
                f
            } else {
                self.align();
                let o = self.out.len() as u64;
                self.out.extend_from_slice(&bytes);
                let mut f = vec![];
                if self.big {
                    self.p64(&mut f, o)
                } else {
                    self.p32(&mut f, o as u32)
                }
                f
            };
            fields.push((*tag, *typ, count, field));
        }
        self.align();
        let off = self.out.len() as u64;
        let mut v = vec![];
        if self.big {
            self.p64(&mut v, fields.len() as u64)
        } else {
            self.p16(&mut v, fields.len() as u16)
        }
        for (tag, typ, count, field) in fields {
            self.p16(&mut v, tag);
            self.p16(&mut v, typ);
            if self.big {
                self.p64(&mut v, count)
            } else {
                self.p32(&mut v, count as u32)
            }
            v.extend(field);
        }
        let next_pos = self.out.len() + v.len();
        if self.big {
            self.p64(&mut v, 0)
        } else {
            self.p32(&mut v, 0)
        }
        self.out.extend(v);
        (off, next_pos)
    }
}

/// Build a TIFF from pages of (tag, type, value) entries (must be sorted by tag).
pub fn tiff_build(le: bool, big: bool, pages: &[Vec<(u16, u16, TVal)>]) -> Vec<u8> {
    let mut w = TW { le, big, out: vec![] };
    let bo = if le { b'I' } else { b'M' };
    let mut h = vec![bo, bo];
    if big {
        w.p16(&mut h, 43);
        w.p16(&mut h, 8);
        w.p16(&mut h, 0);
        w.p64(&mut h, 0);
    } else {
        w.p16(&mut h, 42);
        w.p32(&mut h, 0);
    }
    w.out = h;
    let mut link = if big { 8usize } else { 4usize };
    for p in pages {
        let (off, next_pos) = w.ifd(p);
        let mut f = vec![];
        if big {
            w.p64(&mut f, off)
        } else {
            w.p32(&mut f, off as u32)
        }
        w.out[link..link + f.len()].copy_from_slice(&f);
        link = next_pos;
    }
    w.out
}

pub fn tiff_page(strip: &[u8], off_typ: u16, extra: Vec<(u16, u16, TVal)>) -> Vec<(u16, u16, TVal)> {
    use TVal::*;
    let mut v = vec![
        (256, 3, N(vec![1])),
        (257, 3, N(vec![1])),
        (258, 3, N(vec![8])),
        (259, 3, N(vec![1])),
        (262, 3, N(vec![1])),
        (273, off_typ, Strips(vec![strip.to_vec()])),
        (277, 3, N(vec![1])),
        (278, 3, N(vec![1])),
        (279, 4, N(vec![strip.len() as u64])),
    ];
    v.extend(extra);
    v.sort_by_key(|e| e.0);
    v
}

/// TIFF layout variants: byte order x classic/BigTIFF x {1 page, 2 pages, XMP, sub-IFD + Exif IFD, two strips}.
pub fn tiff_variants() -> Vec<(String, Vec<u8>)> {
    use TVal::*;
    let mut out = vec![];
    for (le, big) in [(true, false), (false, false), (true, true), (false, true)] {
        let ot = if big { 16 } else { 4 };
        let tag = format!("{}{}", if le { "II" } else { "MM" }, if big { "-big" } else { "" });
        out.push((format!("tiff-{tag}-1page"), tiff_build(le, big, &[tiff_page(&[0xAA, 0xBB, 0xCC, 0xDD, 0xEE], ot, vec![])])));
        out.push((
            format!("tiff-{tag}-2pages"),
            tiff_build(le, big, &[tiff_page(&[1, 2, 3, 4, 5, 6], ot, vec![]), tiff_page(&[9, 8, 7, 6, 5, 4, 3, 2], ot, vec![(270, 2, B(b"second page\0".to_vec()))])]),
        ));
        out.push((format!("tiff-{tag}-xmp"), tiff_build(le, big, &[tiff_page(&[5, 5, 5, 5, 5, 5], ot, vec![(700, 1, B(assets::xmp_packet("").into_bytes()))])])));
        let sub = tiff_page(&[0x51, 0x52, 0x53, 0x54, 0x55, 0x56, 0x57], ot, vec![]);
        let exif = vec![(36864u16, 7u16, B(b"0230".to_vec())), (37510, 7, B(b"ASCII\0\0\0a user comment".to_vec()))];
        // sub-IFD pointers use type IFD (13, 4 bytes) also in BigTIFF: the SDK reads them as 32-bit values only
        // (see `valid_but_unsupported` for the IFD8 form)
        out.push((
            format!("tiff-{tag}-subifd"),
            tiff_build(le, big, &[tiff_page(&[0x41, 0x42, 0x43, 0x44, 0x45, 0x46], ot, vec![(330, 13, Sub(vec![sub])), (34665, if big { 18 } else { 13 }, Sub(vec![exif]))])]),
        ));
        let mut two = tiff_page(&[0], ot, vec![]);
        for e in two.iter_mut() {
            if e.0 == 273 {
                e.2 = Strips(vec![vec![1, 1, 1, 1, 1, 1], vec![2, 2, 2, 2, 2, 2, 2, 2, 2, 2]]);
            }
            if e.0 == 279 {
                e.2 = N(vec![6, 10]);
            }
            if e.0 == 257 {
                e.2 = N(vec![2]);
            }
        }
        out.push((format!("tiff-{tag}-2strips"), tiff_build(le, big, &[two])));
    }
    out
}

// ---- JPEG XL / SVG / ID3 ----------------------------------------------------------------------------

/// JPEG XL container with an `xml ` box, an Exif box and a non-C2PA `jumb` box.
pub fn jxl_rich(with_foreign_jumb: bool) -> Vec<u8> {
    let mut v = vec![0, 0, 0, 0x0C, b'J', b'X', b'L', b' ', 0x0D, 0x0A, 0x87, 0x0A];
    v.extend(bx(b"ftyp", &[b'j', b'x', b'l', b' ', 0, 0, 0, 0, b'j', b'x', b'l', b' ']));
    v.extend(bx(b"xml ", assets::xmp_packet("").as_bytes()));
    if with_foreign_jumb {
        let mut jumd = vec![0x65, 0x78, 0x69, 0x66, 0x00, 0x11, 0x00, 0x10, 0x80, 0x00, 0x00, 0xAA, 0x00, 0x38, 0x9B, 0x71, 0x03];
        jumd.extend_from_slice(b"exif\0");
        v.extend(bx(b"jumb", &[bx(b"jumd", &jumd), bx(b"bidb", &[1, 2, 3, 4, 5, 6, 7, 8])].concat()));
    }
    v.extend(bx(b"jxlc", &[0xFF, 0x0A, 0x00, 0x10, 0x20, 0x30]));
    v.extend(bx(b"Exif", &[0, 0, 0, 0, b'I', b'I', 0x2A, 0, 8, 0, 0, 0, 0, 0, 0, 0, 0, 0]));
    v
}

pub fn svg_with_metadata() -> Vec<u8> {
    br#"<?xml version="1.0" encoding="UTF-8"?><!-- c --><svg xmlns="http://www.w3.org/2000/svg" width="1" height="1"><metadata><rdf:RDF xmlns:rdf="http://www.w3.org/1999/02/22-rdf-syntax-ns#"><rdf:Description rdf:about="" title="a &amp; b"/></rdf:RDF></metadata><rect width="1" height="1"/><text>x &lt; y</text></svg>"#.to_vec()
}

/// MP3 with an ID3v2.3 tag holding TIT2, a PRIV XMP frame and a non-C2PA GEOB frame.
pub fn mp3_rich() -> Vec<u8> {
    let frame = |id: &[u8; 4], body: &[u8]| {
        let mut f = id.to_vec();
        f.extend_from_slice(&be32(body.len() as u32));
        f.extend_from_slice(&[0, 0]);
        f.extend_from_slice(body);
        f
    };
    let mut body = frame(b"TIT2", &[0, b'h', b'i']);
    let mut p = b"XMP\0".to_vec();
    p.extend_from_slice(assets::xmp_packet("").as_bytes());
    body.extend(frame(b"PRIV", &p));
    let mut g = vec![0u8];
    g.extend_from_slice(b"image/png\0cover.png\0a cover\0");
    g.extend_from_slice(&[9, 8, 7, 6, 5, 4, 3, 2, 1]);
    body.extend(frame(b"GEOB", &g));
    let n = body.len() as u32;
    let mut v = b"ID3".to_vec();
    v.extend_from_slice(&[3, 0, 0]);
    v.extend_from_slice(&[((n >> 21) & 0x7f) as u8, ((n >> 14) & 0x7f) as u8, ((n >> 7) & 0x7f) as u8, (n & 0x7f) as u8]);
    v.extend(body);
    v.extend(assets::mp3_bare());
    v
}

// ---- BMFF layout grammar ----------------------------------------------------------------------------

#[derive(Clone, Copy, Debug, PartialEq)]
pub enum Table {
    Stco,
    Co64,
}

#[derive(Clone, Copy, Debug, PartialEq)]
pub enum Top {
    Ftyp,
    Moov,
    Mdat,
    /// hand-built C2PA uuid box ("manifest" purpose) carrying `store(EXISTING_STORE, 9)`
    C2pa,
    Free,
    /// XMP uuid box
    Xmp,
    /// HEIF `meta` box with iloc
    Meta,
}

pub const EXISTING_STORE: usize = 120;

pub fn c2pa_uuid_box(store_bytes: &[u8]) -> Vec<u8> {
    let mut b = crate::walk::BMFF_C2PA_UUID.to_vec();
    b.extend_from_slice(&[0, 0, 0, 0]);
    b.extend_from_slice(b"manifest\0");
    b.extend_from_slice(&[0u8; 8]);
    b.extend_from_slice(store_bytes);
    bx(b"uuid", &b)
}

fn moov(table: Table, tracks: usize, chunk_offs: &[u64]) -> Vec<u8> {
    let mvhd = fbx(b"mvhd", &{
        let mut b = vec![0u8; 96];
        b[8..12].copy_from_slice(&be32(1000));
        b[12..16].copy_from_slice(&be32(1000));
        b[16..20].copy_from_slice(&be32(0x00010000));
        b[92..96].copy_from_slice(&be32(tracks as u32 + 1));
        b
    });
    let mut kids = vec![mvhd];
    for t in 0..tracks {
        let tkhd = fbx(b"tkhd", &{
            let mut b = vec![0u8; 80];
            b[8..12].copy_from_slice(&be32(t as u32 + 1));
            b
        });
        let mdhd = fbx(b"mdhd", &{
            let mut b = vec![0u8; 20];
            b[8..12].copy_from_slice(&be32(1000));
            b
        });
        let hdlr = fbx(b"hdlr", &{
            let mut b = vec![0u8; 4];
            b.extend_from_slice(if t == 0 { b"vide" } else { b"soun" });
            b.extend(vec![0u8; 12]);
            b.push(0);
            b
        });
        let vmhd = fbx(b"vmhd", &[0u8; 8]);
        let dref = fbx(b"dref", &{
            let mut b = be32(1).to_vec();
            b.extend(bx(b"url ", &[0, 0, 0, 1]));
            b
        });
        let dinf = bx(b"dinf", &dref);
        let stsd = fbx(b"stsd", &be32(0));
        let stts = fbx(b"stts", &{
            let mut b = be32(1).to_vec();
            b.extend(be32(2));
            b.extend(be32(500));
            b
        });
        let stsc = fbx(b"stsc", &{
            let mut b = be32(1).to_vec();
            b.extend(be32(1));
            b.extend(be32(1));
            b.extend(be32(1));
            b
        });
        let stsz = fbx(b"stsz", &{
            let mut b = be32(8).to_vec();
            b.extend(be32(2));
            b
        });
        let offs = &chunk_offs[2 * t..2 * t + 2];
        let tab = match table {
            Table::Stco => fbx(b"stco", &{
                let mut b = be32(2).to_vec();
                for o in offs {
                    b.extend(be32(*o as u32));
                }
                b
            }),
            Table::Co64 => fbx(b"co64", &{
                let mut b = be32(2).to_vec();
                for o in offs {
                    b.extend(o.to_be_bytes());
                }
                b
            }),
        };
        let stbl = bx(b"stbl", &[stsd, stts, stsc, stsz, tab].concat());
        let minf = bx(b"minf", &[vmhd, dinf, stbl].concat());
        let mdia = bx(b"mdia", &[mdhd, hdlr, minf].concat());
        kids.push(bx(b"trak", &[tkhd, mdia].concat()));
    }
    bx(b"moov", &kids.concat())
}

#[derive(Clone, Copy, Debug, PartialEq)]
pub struct Iloc {
    pub version: u8,
    pub offset_size: u8,
    /// 0 = offsets carried in extent_offset; 4/8 = carried in base_offset with extent_offset 0
    pub base_offset_size: u8,
}

fn meta(il: Iloc, data_off: u64) -> Vec<u8> {
    let hdlr = fbx(b"hdlr", &{
        let mut b = vec![0u8; 4];
        b.extend_from_slice(b"pict");
        b.extend(vec![0u8; 12]);
        b.push(0);
        b
    });
    let pitm = fbx(b"pitm", &[0, 1]);
    let iinf = fbx(b"iinf", &{
        let mut b = vec![0, 2];
        for id in [1u8, 2] {
            b.extend(bx(b"infe", &{
                let mut e = vec![2, 0, 0, 0, 0, id, 0, 0];
                e.extend_from_slice(b"hvc1");
                e.push(0);
                e
            }));
        }
        b
    });
    let put = |b: &mut Vec<u8>, sz: u8, v: u64| match sz {
        4 => b.extend(be32(v as u32)),
        8 => b.extend(v.to_be_bytes()),
        _ => {}
    };
    let mut b = vec![il.version, 0, 0, 0, (il.offset_size << 4) | 4, il.base_offset_size << 4];
    if il.version < 2 {
        b.extend_from_slice(&[0, 2]);
    } else {
        b.extend(be32(2));
    }
    for (i, (o, l)) in [(data_off, 8u64), (data_off + 8, 8u64)].iter().enumerate() {
        if il.version < 2 {
            b.extend_from_slice(&[0, i as u8 + 1]);
        } else {
            b.extend(be32(i as u32 + 1));
        }
        if il.version >= 1 {
            b.extend_from_slice(&[0, 0]); // construction_method 0
        }
        b.extend_from_slice(&[0, 0]); // data_reference_index
        let (base, ext) = if il.base_offset_size > 0 { (*o, 0) } else { (0, *o) };
        put(&mut b, il.base_offset_size, base);
        b.extend_from_slice(&[0, 1]);
        put(&mut b, il.offset_size, ext);
        b.extend(be32(*l as u32));
    }
    let iloc = bx(b"iloc", &b);
    fbx(b"meta", &[hdlr, pitm, iloc, iinf].concat())
}

/// Build a BMFF file from a top-level order. Offsets in stco/co64/iloc point into the (single) mdat.
pub fn bmff_layout(order: &[Top], table: Table, tracks: usize, il: Iloc) -> Vec<u8> {
    let heif = order.contains(&Top::Meta);
    let ftyp = if heif {
        bx(b"ftyp", &[b'h', b'e', b'i', b'c', 0, 0, 0, 0, b'm', b'i', b'f', b'1', b'h', b'e', b'i', b'c'])
    } else {
        bx(b"ftyp", &[b'i', b's', b'o', b'm', 0, 0, 2, 0, b'i', b's', b'o', b'm', b'm', b'p', b'4', b'2'])
    };
    let payload: Vec<u8> = (0..(16 * tracks.max(1)) as u8).map(|i| 0xA0 ^ i.wrapping_mul(5)).collect();
    let mdat = bx(b"mdat", &payload);
    let build = |mdat_payload_off: u64| -> Vec<u8> {
        let offs: Vec<u64> = (0..2 * tracks.max(1) as u64).map(|k| mdat_payload_off + 8 * k).collect();
        let mut v = vec![];
        for t in order {
            match t {
                Top::Ftyp => v.extend(ftyp.clone()),
                Top::Moov => v.extend(moov(table, tracks, &offs)),
                Top::Mdat => v.extend(mdat.clone()),
                Top::C2pa => v.extend(c2pa_uuid_box(&store(EXISTING_STORE, 9))),
                Top::Free => v.extend(bx(b"free", &[0u8; 12])),
                Top::Xmp => v.extend(bx(b"uuid", &{
                    let mut b = vec![0xBE, 0x7A, 0xCF, 0xCB, 0x97, 0xA9, 0x42, 0xE8, 0x9C, 0x71, 0x99, 0x94, 0x91, 0xE3, 0xAF, 0xAC];
                    b.extend_from_slice(assets::xmp_packet("").as_bytes());
                    b
                })),
                Top::Meta => v.extend(meta(il, mdat_payload_off)),
            }
        }
        v
    };
    // sizes do not depend on offset values, so one dry run gives the mdat position
    let dry = build(0);
    let boxes = crate::walk::bmff_boxes(&dry).unwrap_or_default();
    let off = boxes.iter().find(|b| &b.typ == b"mdat").map(|b| b.start as u64 + 8).unwrap_or(0);
    build(off)
}

pub fn order_name(order: &[Top]) -> String {
    order.iter().map(|t| format!("{t:?}").to_lowercase()).collect::<Vec<_>>().join(",")
}

/// All orders of the given movable boxes after a leading ftyp.
pub fn permutations(items: &[Top]) -> Vec<Vec<Top>> {
    if items.is_empty() {
        return vec![vec![]];
    }
    let mut out = vec![];
    for i in 0..items.len() {
        let mut rest = items.to_vec();
        let x = rest.remove(i);
        for mut p in permutations(&rest) {
            p.insert(0, x);
            out.push(p);
        }
    }
    out
}

// ------------------------------------------------------------------------------------------------
// seed registry
// ------------------------------------------------------------------------------------------------

pub fn leak(s: String) -> &'static str {
    Box::leak(s.into_boxed_str())
}

/// Every seed asset used by group A: kit base + variants, the sidecar, and the hand-built extras above.
pub fn seeds() -> Vec<Asset> {
    let mut v = assets::all();
    v.push(sidecar());
    v.push(a("gif87a", "image/gif", "gif", gif87a()));
    v.push(a("gif-xmp", "image/gif", "gif", gif_xmp()));
    v.push(a("gif-trailing", "image/gif", "gif", with_trailing(assets::gif(), b"TRAILING-DATA")));
    v.push(a("jpeg-rich", "image/jpeg", "jpg", jpeg_rich()));
    v.push(a("jpeg-foreign-jumbf", "image/jpeg", "jpg", jpeg_foreign_jumbf()));
    v.push(a("jpeg-trailing", "image/jpeg", "jpg", with_trailing(assets::jpeg(), b"TRAILING-DATA")));
    v.push(a("png-rich", "image/png", "png", png_rich()));
    v.push(a("png-trailing", "image/png", "png", with_trailing(assets::png(), b"TRAILING-DATA")));
    v.push(a("webp-xmp", "image/webp", "webp", webp_xmp()));
    v.push(a("wav-odd", "audio/wav", "wav", wav_odd()));
    v.push(a("avi-avix", "video/avi", "avi", avi_avix()));
    v.push(a("jxl-rich", "image/jxl", "jxl", jxl_rich(false)));
    v.push(a("jxl-foreign-jumb", "image/jxl", "jxl", jxl_rich(true)));
    v.push(a("svg-meta", "image/svg+xml", "svg", svg_with_metadata()));
    v.push(a("mp3-rich", "audio/mpeg", "mp3", mp3_rich()));
    for (name, data) in tiff_variants() {
        v.push(a(leak(name), "image/tiff", "tiff", data));
    }
    let il = Iloc { version: 0, offset_size: 4, base_offset_size: 0 };
    v.push(a("mp4-co64-2trk", "video/mp4", "mp4", bmff_layout(&[Top::Ftyp, Top::Moov, Top::Mdat], Table::Co64, 2, il)));
    v.push(a("mp4-xmp-free", "video/mp4", "mp4", bmff_layout(&[Top::Ftyp, Top::Xmp, Top::Free, Top::Moov, Top::Mdat], Table::Stco, 1, il)));
    v
}

/// Files that are valid per their format specification but exercise forms the handlers may not support.
/// They are NOT seeds (no precondition asserted on them); C07 reports a rejection as a violation of
/// "every valid asset".
pub fn valid_but_unsupported() -> Vec<Asset> {
    use TVal::*;
    let sub = tiff_page(&[0x51, 0x52, 0x53, 0x54, 0x55, 0x56, 0x57], 16, vec![]);
    vec![
        a("gif-plaintext-fg0-bg1", "image/gif", "gif", gif_plaintext(0, 1)),
        a("gif-plaintext-fg1-bg0", "image/gif", "gif", gif_plaintext(1, 0)),
        a("tiff-MM-big-subifd8", "image/tiff", "tiff", tiff_build(false, true, &[tiff_page(&[0x41, 0x42, 0x43, 0x44, 0x45, 0x46], 16, vec![(330, 18, Sub(vec![sub]))])])),
    ]
}

pub fn seed(name: &str) -> Asset {
    seeds().into_iter().chain(valid_but_unsupported()).find(|x| x.name == name).unwrap_or_else(|| crate::ev::machinery(format!("no group-A seed named {name}")))
}

pub fn kind(a: &Asset) -> crate::walk::Kind {
    crate::walk::kind_of(a.mime).unwrap_or_else(|| crate::ev::machinery(format!("walker has no container family for {}", a.mime)))
}

// ------------------------------------------------------------------------------------------------
// violation reporting with a per-key cap (sweeps can hit the same defect thousands of times)
// ------------------------------------------------------------------------------------------------

static SEEN_KEYS: std::sync::Mutex<Option<std::collections::HashMap<String, u64>>> = std::sync::Mutex::new(None);
pub const MAX_CASES_PER_KEY: u64 = 3;

/// `run.violation`, but only the first MAX_CASES_PER_KEY cases of a key are recorded as violations; all
/// cases are counted in the outcome class "violating cases: <key>".
pub fn report(run: &crate::Run, key: impl Into<String>, what: impl Into<String>, case: serde_json::Value) {
    let (key, what): (String, String) = (key.into(), what.into());
    let n = {
        let mut g = SEEN_KEYS.lock().unwrap_or_else(|e| e.into_inner());
        let m = g.get_or_insert_with(Default::default);
        let c = m.entry(key.clone()).or_insert(0);
        *c += 1;
        *c
    };
    run.outcome(format!("violating cases: {key}"));
    if std::env::var("VERIF_A_DUMP").is_ok() {
        eprintln!("DUMP\t{key}\t{what}");
    }
    if n <= MAX_CASES_PER_KEY {
        run.violation(key, what, case);
    }
}

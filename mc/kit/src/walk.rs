//! INDEPENDENT minimal container walkers (owner: group A). Nothing in this file calls the SDK.
//!
//! They are the oracle side of C07/C08/C09/C12: they answer, from the bytes alone,
//!   * how a file is cut into segments / chunks / blocks / boxes / IFDs / frames (`*_segments`, `*_chunks`, ...),
//!   * where C2PA manifest containers are and which store bytes they carry ([`manifests`]),
//!   * what the *media content* is: every non-manifest item in order, and the bytes that every absolute
//!     offset stored in the container dereferences to ([`media`]).
//!
//! All functions take the whole file as `&[u8]`, never panic on hostile input (every access is
//! bounds-checked) and return `Err(String)` when the bytes are not interpretable; callers decide whether
//! that is a machinery failure (seed) or a skipped case (mutant).
//!
//! Offsets are absolute file offsets; ranges are half-open `start..end`.
#![allow(clippy::all)]

use std::ops::Range;

pub type R = Range<usize>;
pub type Res<T> = Result<T, String>;

fn get<'a>(d: &'a [u8], r: R) -> Res<&'a [u8]> {
    if r.start <= r.end && r.end <= d.len() {
        Ok(&d[r])
    } else {
        Err(format!("range {}..{} outside file of {} bytes", r.start, r.end, d.len()))
    }
}
fn be16(d: &[u8], o: usize) -> Res<u16> {
    Ok(u16::from_be_bytes(get(d, o..o.saturating_add(2))?.try_into().unwrap()))
}
fn be32(d: &[u8], o: usize) -> Res<u32> {
    Ok(u32::from_be_bytes(get(d, o..o.saturating_add(4))?.try_into().unwrap()))
}
fn be64(d: &[u8], o: usize) -> Res<u64> {
    Ok(u64::from_be_bytes(get(d, o..o.saturating_add(8))?.try_into().unwrap()))
}
fn le32(d: &[u8], o: usize) -> Res<u32> {
    Ok(u32::from_le_bytes(get(d, o..o.saturating_add(4))?.try_into().unwrap()))
}
fn four(d: &[u8], o: usize) -> Res<[u8; 4]> {
    Ok(get(d, o..o.saturating_add(4))?.try_into().unwrap())
}
pub fn fourcc(t: &[u8; 4]) -> String {
    t.iter().map(|&b| if (0x20..0x7f).contains(&b) { b as char } else { '?' }).collect()
}

// =====================================================================================================
// JPEG
// =====================================================================================================

/// One JPEG marker segment. `start` is the offset of the 0xFF that introduces the marker; `end` is one past
/// the last byte that belongs to it (for SOS this includes the entropy-coded data and any RSTn markers in it).
#[derive(Clone, Debug)]
pub struct JpegSeg {
    pub marker: u8,
    pub start: usize,
    pub end: usize,
    /// segment parameters (after the 2-byte length field); empty for stand-alone markers
    pub payload: R,
    /// entropy-coded data following an SOS header (empty otherwise)
    pub entropy: R,
}

#[derive(Clone, Debug)]
pub struct Jpeg {
    pub segs: Vec<JpegSeg>,
    /// offset one past EOI; bytes from here to the end of the file are trailing data
    pub end: usize,
}

fn jpeg_standalone(m: u8) -> bool {
    m == 0x01 || (0xD0..=0xD9).contains(&m)
}

/// Walk a single-image JPEG: SOI, marker segments, SOS + entropy data (ends at the first 0xFF followed by
/// something that is neither 0x00, 0xFF nor RST0..7), EOI. Fill bytes (0xFF 0xFF) before a marker are
/// attributed to the following segment.
pub fn jpeg_segments(d: &[u8]) -> Res<Jpeg> {
    if d.len() < 4 || d[0] != 0xFF || d[1] != 0xD8 {
        return Err("no SOI".into());
    }
    let mut segs = vec![JpegSeg { marker: 0xD8, start: 0, end: 2, payload: 2..2, entropy: 2..2 }];
    let mut p = 2usize;
    loop {
        let start = p;
        if *d.get(p).ok_or("truncated before marker")? != 0xFF {
            return Err(format!("expected marker at {p}"));
        }
        while *d.get(p + 1).ok_or("truncated in marker")? == 0xFF {
            p += 1;
        }
        let m = d[p + 1];
        p += 2;
        if m == 0x00 {
            return Err(format!("stuffed byte outside entropy data at {start}"));
        }
        if jpeg_standalone(m) {
            segs.push(JpegSeg { marker: m, start, end: p, payload: p..p, entropy: p..p });
            if m == 0xD9 {
                return Ok(Jpeg { segs, end: p });
            }
            continue;
        }
        let l = be16(d, p)? as usize;
        if l < 2 {
            return Err(format!("segment length {l} at {p}"));
        }
        let payload = p + 2..p + l;
        get(d, payload.clone())?;
        p += l;
        let mut entropy = p..p;
        if m == 0xDA {
            let mut q = p;
            loop {
                let b = *d.get(q).ok_or("truncated in entropy data")?;
                if b == 0xFF {
                    let n = *d.get(q + 1).ok_or("truncated in entropy data")?;
                    if n == 0x00 || (0xD0..=0xD7).contains(&n) {
                        q += 2;
                        continue;
                    }
                    if n == 0xFF {
                        q += 1;
                        continue;
                    }
                    break;
                }
                q += 1;
            }
            entropy = p..q;
            p = q;
        }
        segs.push(JpegSeg { marker: m, start, end: p, payload, entropy });
    }
}

// =====================================================================================================
// PNG
// =====================================================================================================

/// Length-prefixed chunk (PNG). `start..end` covers length, type, data and CRC; `data` the chunk data.
#[derive(Clone, Debug)]
pub struct Chunk {
    pub kind: [u8; 4],
    pub start: usize,
    pub end: usize,
    pub data: R,
}

#[derive(Clone, Debug)]
pub struct Png {
    pub chunks: Vec<Chunk>,
    /// one past the IEND chunk; anything after is trailing data
    pub end: usize,
}

pub const PNG_SIG: [u8; 8] = [0x89, b'P', b'N', b'G', 0x0D, 0x0A, 0x1A, 0x0A];

/// Walk PNG chunks up to and including IEND. CRCs are not verified (the handlers do not either).
pub fn png_chunks(d: &[u8]) -> Res<Png> {
    if get(d, 0..8)? != PNG_SIG {
        return Err("no PNG signature".into());
    }
    let mut p = 8usize;
    let mut chunks = vec![];
    loop {
        let l = be32(d, p)? as usize;
        let kind = four(d, p + 4)?;
        let end = p.checked_add(12).and_then(|x| x.checked_add(l)).ok_or("overflow")?;
        get(d, p..end)?;
        chunks.push(Chunk { kind, start: p, end, data: p + 8..p + 8 + l });
        p = end;
        if &kind == b"IEND" {
            return Ok(Png { chunks, end: p });
        }
    }
}

// =====================================================================================================
// GIF
// =====================================================================================================

#[derive(Clone, Debug, PartialEq)]
pub enum GifKind {
    /// 6-byte signature+version
    Header,
    /// logical screen descriptor including the global colour table when present
    Screen,
    /// extension with its label (0xFF application, 0xFE comment, 0xF9 graphic control, 0x01 plain text)
    Ext(u8),
    /// image descriptor + optional local colour table + LZW data
    Image,
    Trailer,
}

#[derive(Clone, Debug)]
pub struct GifBlock {
    pub kind: GifKind,
    pub start: usize,
    pub end: usize,
    /// application identifier + authentication code (11 bytes) for application extensions
    pub app_id: Option<[u8; 11]>,
    /// file range of the data sub-blocks (from the first size byte up to and including the terminator)
    pub sub: R,
}

fn gif_skip_sub(d: &[u8], mut p: usize) -> Res<usize> {
    loop {
        let n = *d.get(p).ok_or("truncated sub-block")? as usize;
        p += 1;
        if n == 0 {
            return Ok(p);
        }
        get(d, p..p + n)?;
        p += n;
    }
}

/// Decode data sub-blocks in `sub` (as returned in [`GifBlock::sub`]) into their concatenated payload, and
/// the file ranges of the payload pieces.
pub fn gif_sub_data(d: &[u8], sub: R) -> Res<(Vec<u8>, Vec<R>)> {
    let mut p = sub.start;
    let mut out = vec![];
    let mut rs = vec![];
    loop {
        let n = *d.get(p).ok_or("truncated sub-block")? as usize;
        p += 1;
        if n == 0 {
            return Ok((out, rs));
        }
        out.extend_from_slice(get(d, p..p + n)?);
        rs.push(p..p + n);
        p += n;
    }
}

/// Walk a GIF up to and including the trailer (0x3B).
pub fn gif_blocks(d: &[u8]) -> Res<Vec<GifBlock>> {
    let h = get(d, 0..6)?;
    if &h[..3] != b"GIF" {
        return Err("no GIF signature".into());
    }
    let mut v = vec![GifBlock { kind: GifKind::Header, start: 0, end: 6, app_id: None, sub: 6..6 }];
    let flags = *d.get(10).ok_or("truncated LSD")?;
    let mut p = 13usize;
    if flags & 0x80 != 0 {
        p += 3usize << ((flags & 7) + 1);
    }
    get(d, 6..p)?;
    v.push(GifBlock { kind: GifKind::Screen, start: 6, end: p, app_id: None, sub: p..p });
    loop {
        let start = p;
        match *d.get(p).ok_or("truncated before trailer")? {
            0x3B => {
                v.push(GifBlock { kind: GifKind::Trailer, start, end: p + 1, app_id: None, sub: p..p });
                return Ok(v);
            }
            0x21 => {
                let label = *d.get(p + 1).ok_or("truncated extension")?;
                let mut q = p + 2;
                let mut app_id = None;
                if label == 0xFF {
                    if *d.get(q).ok_or("truncated extension")? != 11 {
                        return Err("application extension block size != 11".into());
                    }
                    app_id = Some(get(d, q + 1..q + 12)?.try_into().unwrap());
                    q += 12;
                } else if label == 0x01 {
                    // plain text: fixed 13-byte header block (size byte 12 + 12 bytes)
                    get(d, q..q + 13)?;
                    q += 13;
                }
                let end = gif_skip_sub(d, q)?;
                v.push(GifBlock { kind: GifKind::Ext(label), start, end, app_id, sub: q..end });
                p = end;
            }
            0x2C => {
                let f = *d.get(p + 9).ok_or("truncated image descriptor")?;
                let mut q = p + 10;
                if f & 0x80 != 0 {
                    q += 3usize << ((f & 7) + 1);
                }
                q += 1; // LZW minimum code size
                let end = gif_skip_sub(d, q)?;
                v.push(GifBlock { kind: GifKind::Image, start, end, app_id: None, sub: q..end });
                p = end;
            }
            b => return Err(format!("unknown block introducer {b:#x} at {p}")),
        }
    }
}

// =====================================================================================================
// RIFF
// =====================================================================================================

/// RIFF chunk. `start..end` covers id, size, data and the pad byte (if the size is odd and the pad byte
/// exists in the file); `data` is the unpadded data (for RIFF/LIST: after the 4-byte form type).
#[derive(Clone, Debug)]
pub struct RiffChunk {
    pub id: [u8; 4],
    pub start: usize,
    pub end: usize,
    pub data: R,
    /// form / list type for `RIFF` and `LIST` chunks
    pub form: Option<[u8; 4]>,
    pub children: Vec<RiffChunk>,
}

fn riff_one(d: &[u8], p: usize, limit: usize, depth: usize) -> Res<RiffChunk> {
    if depth > 16 {
        return Err("RIFF nesting too deep".into());
    }
    let id = four(d, p)?;
    let sz = le32(d, p + 4)? as usize;
    let dend = p.checked_add(8).and_then(|x| x.checked_add(sz)).ok_or("overflow")?;
    if dend > limit {
        return Err(format!("chunk {} at {p} exceeds its parent", fourcc(&id)));
    }
    let mut end = dend;
    if sz % 2 == 1 && end < limit {
        end += 1;
    }
    let mut c = RiffChunk { id, start: p, end, data: p + 8..dend, form: None, children: vec![] };
    if &id == b"RIFF" || &id == b"LIST" {
        c.form = Some(four(d, p + 8)?);
        c.data = p + 12..dend;
        let mut q = p + 12;
        while q + 8 <= dend {
            let ch = riff_one(d, q, dend, depth + 1)?;
            q = ch.end;
            c.children.push(ch);
        }
    }
    Ok(c)
}

/// Walk the top-level chunk sequence of a RIFF file (one `RIFF` chunk, optionally followed by further
/// `RIFF`/`AVIX` chunks), recursing into `RIFF` and `LIST`.
pub fn riff_chunks(d: &[u8]) -> Res<Vec<RiffChunk>> {
    if get(d, 0..4)? != b"RIFF" {
        return Err("no RIFF signature".into());
    }
    let mut v = vec![];
    let mut p = 0usize;
    while p + 8 <= d.len() {
        let c = riff_one(d, p, d.len(), 0)?;
        p = c.end;
        v.push(c);
    }
    Ok(v)
}

// =====================================================================================================
// TIFF
// =====================================================================================================

#[derive(Clone, Debug)]
pub struct TiffEntry {
    pub tag: u16,
    pub typ: u16,
    pub count: u64,
    /// file range of the whole directory entry (12 or 20 bytes)
    pub entry: R,
    /// file range where the value bytes live (inside the entry when they fit, else at the stored offset)
    pub data: R,
}

#[derive(Clone, Debug)]
pub struct TiffIfd {
    pub offset: usize,
    pub entries: Vec<TiffEntry>,
    pub next: u64,
}

#[derive(Clone, Debug)]
pub struct Tiff {
    pub le: bool,
    pub big: bool,
    /// the main IFD chain (pages) in order
    pub ifds: Vec<TiffIfd>,
}

pub fn tiff_type_size(t: u16) -> Option<u64> {
    Some(match t {
        1 | 2 | 6 | 7 => 1,
        3 | 8 => 2,
        4 | 9 | 11 | 13 => 4,
        5 | 10 | 12 | 16 | 17 | 18 => 8,
        _ => return None,
    })
}

impl Tiff {
    fn u16(&self, d: &[u8], o: usize) -> Res<u16> {
        let b: [u8; 2] = get(d, o..o.saturating_add(2))?.try_into().unwrap();
        Ok(if self.le { u16::from_le_bytes(b) } else { u16::from_be_bytes(b) })
    }
    fn u32(&self, d: &[u8], o: usize) -> Res<u32> {
        let b: [u8; 4] = get(d, o..o.saturating_add(4))?.try_into().unwrap();
        Ok(if self.le { u32::from_le_bytes(b) } else { u32::from_be_bytes(b) })
    }
    fn u64(&self, d: &[u8], o: usize) -> Res<u64> {
        let b: [u8; 8] = get(d, o..o.saturating_add(8))?.try_into().unwrap();
        Ok(if self.le { u64::from_le_bytes(b) } else { u64::from_be_bytes(b) })
    }
    /// The i-th numeric value of an entry of type BYTE/SHORT/LONG/LONG8/IFD/IFD8.
    pub fn value(&self, d: &[u8], e: &TiffEntry, i: u64) -> Res<u64> {
        let sz = tiff_type_size(e.typ).ok_or("unknown type")?;
        if i >= e.count {
            return Err("value index out of range".into());
        }
        let o = e.data.start + (i * sz) as usize;
        match sz {
            1 => Ok(*d.get(o).ok_or("value outside file")? as u64),
            2 => Ok(self.u16(d, o)? as u64),
            4 => Ok(self.u32(d, o)? as u64),
            _ => self.u64(d, o),
        }
    }
    /// Read one IFD at `off`.
    pub fn ifd(&self, d: &[u8], off: usize) -> Res<TiffIfd> {
        let (n, esz, first) = if self.big {
            (self.u64(d, off)? as usize, 20usize, off + 8)
        } else {
            (self.u16(d, off)? as usize, 12usize, off + 2)
        };
        if n > 4096 {
            return Err("too many IFD entries".into());
        }
        let mut entries = vec![];
        for i in 0..n {
            let p = first + i * esz;
            let tag = self.u16(d, p)?;
            let typ = self.u16(d, p + 2)?;
            let (count, vf, inl) = if self.big {
                (self.u64(d, p + 4)?, p + 12, 8u64)
            } else {
                (self.u32(d, p + 4)? as u64, p + 8, 4u64)
            };
            let total = tiff_type_size(typ).unwrap_or(1).checked_mul(count).ok_or("overflow")?;
            let data = if total <= inl {
                vf..vf + total as usize
            } else {
                let o = if self.big { self.u64(d, vf)? } else { self.u32(d, vf)? as u64 } as usize;
                let end = o.checked_add(total as usize).ok_or("overflow")?;
                get(d, o..end)?;
                o..end
            };
            entries.push(TiffEntry { tag, typ, count, entry: p..p + esz, data });
        }
        let np = first + n * esz;
        let next = if self.big { self.u64(d, np)? } else { self.u32(d, np)? as u64 };
        Ok(TiffIfd { offset: off, entries, next })
    }
}

/// Walk the main IFD chain of a classic or BigTIFF file (either byte order).
pub fn tiff_ifds(d: &[u8]) -> Res<Tiff> {
    let h = get(d, 0..4)?;
    let le = match &h[..2] {
        b"II" => true,
        b"MM" => false,
        _ => return Err("no TIFF byte-order mark".into()),
    };
    let mut t = Tiff { le, big: false, ifds: vec![] };
    let magic = t.u16(d, 2)?;
    let mut off = match magic {
        42 => t.u32(d, 4)? as u64,
        43 => {
            t.big = true;
            t.u64(d, 8)?
        }
        _ => return Err("bad TIFF magic".into()),
    };
    let mut seen = std::collections::BTreeSet::new();
    while off != 0 {
        if !seen.insert(off) || seen.len() > 1000 {
            return Err("IFD chain loops".into());
        }
        let ifd = t.ifd(d, off as usize)?;
        off = ifd.next;
        t.ifds.push(ifd);
    }
    if t.ifds.is_empty() {
        return Err("no IFD".into());
    }
    Ok(t)
}

// =====================================================================================================
// ISO BMFF (also the JPEG XL container)
// =====================================================================================================

/// ISO BMFF box. `start..end` is the whole box, `body` starts after the header (and after the extended
/// type for `uuid`; after version/flags for `meta`).
#[derive(Clone, Debug)]
pub struct BBox {
    pub typ: [u8; 4],
    pub start: usize,
    pub end: usize,
    pub body: R,
    pub uuid: Option<[u8; 16]>,
    pub children: Vec<BBox>,
}

const BMFF_CONTAINERS: [&[u8; 4]; 14] = [
    b"moov", b"trak", b"mdia", b"minf", b"stbl", b"dinf", b"edts", b"udta", b"moof", b"traf", b"mfra", b"mvex", b"meta", b"iprp",
];

fn bmff_level(d: &[u8], mut p: usize, limit: usize, depth: usize) -> Res<Vec<BBox>> {
    if depth > 16 {
        return Err("BMFF nesting too deep".into());
    }
    let mut v = vec![];
    while p < limit {
        if p + 8 > limit {
            return Err(format!("{} stray bytes at {p}", limit - p));
        }
        let s32 = be32(d, p)? as u64;
        let typ = four(d, p + 4)?;
        let (hdr, size) = match s32 {
            0 => (8usize, (limit - p) as u64),
            1 => (16usize, be64(d, p + 8)?),
            s => (8usize, s),
        };
        if size < hdr as u64 || size > (limit - p) as u64 {
            return Err(format!("box {} at {p} has size {size} (limit {})", fourcc(&typ), limit - p));
        }
        let end = p + size as usize;
        let mut body = p + hdr..end;
        let mut uuid = None;
        if &typ == b"uuid" {
            uuid = Some(get(d, body.start..body.start + 16)?.try_into().unwrap());
            body.start += 16;
        }
        let mut children = vec![];
        if BMFF_CONTAINERS.iter().any(|c| **c == typ) {
            if &typ == b"meta" {
                body.start += 4;
                if body.start > end {
                    return Err("meta too short".into());
                }
            }
            children = bmff_level(d, body.start, end, depth + 1)?;
        }
        v.push(BBox { typ, start: p, end, body, uuid, children });
        p = end;
    }
    Ok(v)
}

/// Walk all boxes of an ISO BMFF file (known container boxes are descended into).
pub fn bmff_boxes(d: &[u8]) -> Res<Vec<BBox>> {
    bmff_level(d, 0, d.len(), 0)
}

/// All boxes (depth first, in file order) whose path from the top level is `path`, e.g. `[b"moov", b"trak"]`.
pub fn bmff_find<'a>(boxes: &'a [BBox], path: &[&[u8; 4]]) -> Vec<&'a BBox> {
    let mut out = vec![];
    if let Some((first, rest)) = path.split_first() {
        for b in boxes.iter().filter(|b| &b.typ == *first) {
            if rest.is_empty() {
                out.push(b);
            } else {
                out.extend(bmff_find(&b.children, rest));
            }
        }
    }
    out
}

/// Chunk offsets of an `stco` box.
pub fn stco(d: &[u8], b: &BBox) -> Res<Vec<u64>> {
    let n = be32(d, b.body.start + 4)? as usize;
    if n > 1 << 20 {
        return Err("stco too large".into());
    }
    (0..n).map(|i| be32(d, b.body.start + 8 + 4 * i).map(|x| x as u64)).collect()
}
/// Chunk offsets of a `co64` box.
pub fn co64(d: &[u8], b: &BBox) -> Res<Vec<u64>> {
    let n = be32(d, b.body.start + 4)? as usize;
    if n > 1 << 20 {
        return Err("co64 too large".into());
    }
    (0..n).map(|i| be64(d, b.body.start + 8 + 8 * i)).collect()
}
/// Sample sizes of an `stsz` box (expanded when a constant size is used).
pub fn stsz(d: &[u8], b: &BBox) -> Res<Vec<u32>> {
    let fixed = be32(d, b.body.start + 4)?;
    let n = be32(d, b.body.start + 8)? as usize;
    if n > 1 << 20 {
        return Err("stsz too large".into());
    }
    if fixed != 0 {
        return Ok(vec![fixed; n]);
    }
    (0..n).map(|i| be32(d, b.body.start + 12 + 4 * i)).collect()
}
/// (first_chunk, samples_per_chunk) runs of an `stsc` box.
pub fn stsc(d: &[u8], b: &BBox) -> Res<Vec<(u32, u32)>> {
    let n = be32(d, b.body.start + 4)? as usize;
    if n > 1 << 20 {
        return Err("stsc too large".into());
    }
    (0..n).map(|i| Ok((be32(d, b.body.start + 8 + 12 * i)?, be32(d, b.body.start + 12 + 12 * i)?))).collect()
}

#[derive(Clone, Debug)]
pub struct IlocItem {
    pub id: u32,
    pub construction_method: u8,
    pub base_offset: u64,
    /// (extent_offset, extent_length)
    pub extents: Vec<(u64, u64)>,
}

fn be_n(d: &[u8], o: usize, n: usize) -> Res<u64> {
    match n {
        0 => Ok(0),
        4 => Ok(be32(d, o)? as u64),
        8 => be64(d, o),
        _ => Err(format!("unsupported iloc field size {n}")),
    }
}

/// Items of an `iloc` box (versions 0, 1, 2).
pub fn iloc(d: &[u8], b: &BBox) -> Res<Vec<IlocItem>> {
    let mut p = b.body.start;
    let version = *d.get(p).ok_or("iloc truncated")?;
    p += 4;
    let s = get(d, p..p + 2)?;
    let (osz, lsz, bsz, isz) = ((s[0] >> 4) as usize, (s[0] & 15) as usize, (s[1] >> 4) as usize, (s[1] & 15) as usize);
    p += 2;
    let n = if version < 2 {
        p += 2;
        be16(d, p - 2)? as usize
    } else {
        p += 4;
        be32(d, p - 4)? as usize
    };
    let mut items = vec![];
    for _ in 0..n {
        let id = if version < 2 {
            p += 2;
            be16(d, p - 2)? as u32
        } else {
            p += 4;
            be32(d, p - 4)?
        };
        let mut cm = 0u8;
        if version == 1 || version == 2 {
            cm = (be16(d, p)? & 15) as u8;
            p += 2;
        }
        p += 2; // data_reference_index
        let base_offset = be_n(d, p, bsz)?;
        p += bsz;
        let ec = be16(d, p)? as usize;
        p += 2;
        let mut extents = vec![];
        for _ in 0..ec {
            if (version == 1 || version == 2) && isz > 0 {
                p += isz;
            }
            let eo = be_n(d, p, osz)?;
            p += osz;
            let el = be_n(d, p, lsz)?;
            p += lsz;
            extents.push((eo, el));
        }
        items.push(IlocItem { id, construction_method: cm, base_offset, extents });
    }
    if p > b.end {
        return Err("iloc overruns its box".into());
    }
    Ok(items)
}

// =====================================================================================================
// JUMBF
// =====================================================================================================

/// JUMBF box. For `jumb` superboxes `children` holds the contained boxes and `label`/`uuid` come from the
/// leading `jumd` description box.
#[derive(Clone, Debug)]
pub struct JBox {
    pub typ: [u8; 4],
    pub start: usize,
    pub end: usize,
    pub uuid: Option<[u8; 16]>,
    pub label: Option<String>,
    pub children: Vec<JBox>,
}

pub const C2PA_JUMD_UUID_PREFIX: [u8; 4] = *b"c2pa";

fn jumbf_level(d: &[u8], mut p: usize, limit: usize, depth: usize) -> Res<Vec<JBox>> {
    if depth > 32 {
        return Err("JUMBF nesting too deep".into());
    }
    let mut v = vec![];
    while p < limit {
        if p + 8 > limit {
            return Err(format!("{} stray bytes at {p}", limit - p));
        }
        let s32 = be32(d, p)? as u64;
        let typ = four(d, p + 4)?;
        let (hdr, size) = match s32 {
            0 => (8usize, (limit - p) as u64),
            1 => (16usize, be64(d, p + 8)?),
            s => (8usize, s),
        };
        if size < hdr as u64 || size > (limit - p) as u64 {
            return Err(format!("JUMBF box {} at {p}: size {size} does not fit {}", fourcc(&typ), limit - p));
        }
        let end = p + size as usize;
        let mut b = JBox { typ, start: p, end, uuid: None, label: None, children: vec![] };
        if &typ == b"jumb" {
            b.children = jumbf_level(d, p + hdr, end, depth + 1)?;
            if let Some(j) = b.children.first().filter(|j| &j.typ == b"jumd") {
                let body = get(d, j.start + 8..j.end)?;
                if body.len() >= 17 {
                    b.uuid = Some(body[..16].try_into().unwrap());
                    if body[16] & 0x02 != 0 {
                        let l = &body[17..];
                        let n = l.iter().position(|&c| c == 0).unwrap_or(l.len());
                        b.label = Some(String::from_utf8_lossy(&l[..n]).into_owned());
                    }
                }
            }
        }
        v.push(b);
        p = end;
    }
    Ok(v)
}

/// Walk a JUMBF byte string (sequence of boxes; `jumb` superboxes are descended into).
pub fn jumbf_boxes(d: &[u8]) -> Res<Vec<JBox>> {
    jumbf_level(d, 0, d.len(), 0)
}

/// True when `d` starts with a `jumb` superbox whose description box carries the C2PA manifest-store type
/// (UUID beginning with "c2pa"). Only the first 28 bytes are inspected.
pub fn looks_like_c2pa_store(d: &[u8]) -> bool {
    d.len() >= 28 && &d[4..8] == b"jumb" && &d[12..16] == b"jumd" && d[16..20] == C2PA_JUMD_UUID_PREFIX
}

// =====================================================================================================
// ID3v2 (MP3, FLAC wrapper)
// =====================================================================================================

#[derive(Clone, Debug)]
pub struct Id3Frame {
    pub id: String,
    pub start: usize,
    pub end: usize,
    pub flags: u16,
    pub data: R,
}

#[derive(Clone, Debug)]
pub struct Id3 {
    pub major: u8,
    pub flags: u8,
    /// total size including the 10-byte header (and footer when flagged)
    pub end: usize,
    pub frames: Vec<Id3Frame>,
}

fn syncsafe(b: &[u8]) -> usize {
    ((b[0] as usize & 0x7f) << 21) | ((b[1] as usize & 0x7f) << 14) | ((b[2] as usize & 0x7f) << 7) | (b[3] as usize & 0x7f)
}

/// Walk an ID3v2.3 / v2.4 tag at the start of the file; `Ok(None)` when the file does not start with "ID3".
/// Unsynchronised or extended-header tags are rejected (`Err`).
pub fn id3v2(d: &[u8]) -> Res<Option<Id3>> {
    if d.len() < 10 || &d[..3] != b"ID3" {
        return Ok(None);
    }
    let major = d[3];
    let flags = d[5];
    if !(3..=4).contains(&major) {
        return Err(format!("ID3v2.{major} not supported by the walker"));
    }
    if flags & 0xC0 != 0 {
        return Err("unsynchronised / extended-header ID3 tag not supported by the walker".into());
    }
    let size = syncsafe(&d[6..10]);
    let body_end = 10 + size;
    let end = body_end + if flags & 0x10 != 0 { 10 } else { 0 };
    get(d, 0..end)?;
    let mut p = 10usize;
    let mut frames = vec![];
    while p + 10 <= body_end && d[p] != 0 {
        let id = String::from_utf8_lossy(&d[p..p + 4]).into_owned();
        let fs = if major == 4 { syncsafe(&d[p + 4..p + 8]) } else { be32(d, p + 4)? as usize };
        let fl = be16(d, p + 8)?;
        let e = p + 10 + fs;
        if e > body_end {
            return Err(format!("ID3 frame {id} overruns the tag"));
        }
        frames.push(Id3Frame { id, start: p, end: e, flags: fl, data: p + 10..e });
        p = e;
    }
    Ok(Some(Id3 { major, flags, end, frames }))
}

/// For a GEOB frame body: (mime type, file range of the encapsulated object). Handles text encodings 0 and 3
/// (single NUL terminators) and 1/2 (double NUL) for filename / description.
pub fn geob(d: &[u8], f: &Id3Frame) -> Res<(String, R)> {
    let b = get(d, f.data.clone())?;
    if f.flags & 0x00FF != 0 {
        return Err("GEOB frame with format flags (compression/unsync/...) not supported by the walker".into());
    }
    let enc = *b.first().ok_or("empty GEOB")?;
    let mut p = 1usize;
    let n = b[p..].iter().position(|&c| c == 0).ok_or("GEOB mime unterminated")?;
    let mime = String::from_utf8_lossy(&b[p..p + n]).into_owned();
    p += n + 1;
    for _ in 0..2 {
        if enc == 1 || enc == 2 {
            loop {
                let c = get(b, p..p + 2).map_err(|_| "GEOB text unterminated".to_string())?;
                p += 2;
                if c == [0, 0] {
                    break;
                }
            }
        } else {
            let n = b[p..].iter().position(|&c| c == 0).ok_or("GEOB text unterminated")?;
            p += n + 1;
        }
    }
    Ok((mime, f.data.start + p..f.data.end))
}

// =====================================================================================================
// XML tokens (SVG)
// =====================================================================================================

#[derive(Clone, Debug, PartialEq)]
pub enum XmlTok {
    /// `<name ...>`; `empty` for `<name .../>`
    Open { name: String, raw: R, empty: bool },
    Close { name: String, raw: R },
    /// character data, comments, processing instructions, CDATA, doctype: kept verbatim
    Other { raw: R },
}

/// Very small XML tokenizer: splits at `<...>` (quote aware inside tags; comments, CDATA and PIs are
/// recognised). Good enough for SVG files that do not use internal DTD subsets.
pub fn xml_tokens(d: &[u8]) -> Res<Vec<XmlTok>> {
    let mut v = vec![];
    let mut p = 0usize;
    let find = |from: usize, pat: &[u8]| -> Option<usize> { d[from..].windows(pat.len()).position(|w| w == pat).map(|i| from + i) };
    while p < d.len() {
        if d[p] != b'<' {
            let e = find(p, b"<").unwrap_or(d.len());
            v.push(XmlTok::Other { raw: p..e });
            p = e;
            continue;
        }
        let special = [(&b"<!--"[..], &b"-->"[..]), (&b"<![CDATA["[..], &b"]]>"[..]), (&b"<?"[..], &b"?>"[..]), (&b"<!"[..], &b">"[..])];
        if let Some((_, close)) = special.iter().find(|(o, _)| d[p..].starts_with(o)) {
            let e = find(p + 2, close).ok_or("unterminated markup")? + close.len();
            v.push(XmlTok::Other { raw: p..e });
            p = e;
            continue;
        }
        let mut q = p + 1;
        let mut quote = 0u8;
        while q < d.len() {
            let c = d[q];
            if quote != 0 {
                if c == quote {
                    quote = 0;
                }
            } else if c == b'"' || c == b'\'' {
                quote = c;
            } else if c == b'>' {
                break;
            }
            q += 1;
        }
        if q >= d.len() {
            return Err("unterminated tag".into());
        }
        let inner = &d[p + 1..q];
        let closing = inner.first() == Some(&b'/');
        let empty = inner.last() == Some(&b'/');
        let nm: Vec<u8> = inner.iter().skip(closing as usize).take_while(|c| !c.is_ascii_whitespace() && **c != b'/').cloned().collect();
        let name = String::from_utf8_lossy(&nm).into_owned();
        let raw = p..q + 1;
        v.push(if closing { XmlTok::Close { name, raw } } else { XmlTok::Open { name, raw, empty } });
        p = q + 1;
    }
    Ok(v)
}

/// Standard base64 (with or without padding, ASCII whitespace ignored). `Err` on any other character.
pub fn base64_decode(s: &[u8]) -> Res<Vec<u8>> {
    let mut out = vec![];
    let (mut acc, mut bits) = (0u32, 0u32);
    for &c in s {
        let v = match c {
            b'A'..=b'Z' => c - b'A',
            b'a'..=b'z' => c - b'a' + 26,
            b'0'..=b'9' => c - b'0' + 52,
            b'+' => 62,
            b'/' => 63,
            b'=' => break,
            c if c.is_ascii_whitespace() => continue,
            _ => return Err(format!("bad base64 character {c:#x}")),
        };
        acc = (acc << 6) | v as u32;
        bits += 6;
        if bits >= 8 {
            bits -= 8;
            out.push((acc >> bits) as u8);
            acc &= (1 << bits) - 1;
        }
    }
    Ok(out)
}

// =====================================================================================================
// Format-level views used by the oracles
// =====================================================================================================

#[derive(Clone, Copy, Debug, PartialEq, Eq)]
pub enum Kind {
    Jpeg,
    Png,
    Gif,
    Riff,
    Tiff,
    Svg,
    /// MP3 or FLAC: manifest in a leading ID3v2 tag
    Id3,
    Jxl,
    Bmff,
    /// `.c2pa` sidecar: the file is the store
    C2pa,
}

/// Container family of a MIME type / extension used by the kit.
pub fn kind_of(mime: &str) -> Option<Kind> {
    Some(match mime {
        "image/jpeg" | "jpg" | "jpeg" => Kind::Jpeg,
        "image/png" | "png" => Kind::Png,
        "image/gif" | "gif" => Kind::Gif,
        "audio/wav" | "image/webp" | "video/avi" | "wav" | "webp" | "avi" => Kind::Riff,
        "image/tiff" | "tiff" | "tif" | "image/x-adobe-dng" | "dng" => Kind::Tiff,
        "image/svg+xml" | "svg" => Kind::Svg,
        "audio/mpeg" | "mp3" | "audio/flac" | "flac" => Kind::Id3,
        "image/jxl" | "jxl" => Kind::Jxl,
        "video/mp4" | "image/heic" | "image/heif" | "image/avif" | "mp4" | "heic" | "heif" | "avif" | "video/quicktime" | "mov" | "audio/mp4" | "m4a" => Kind::Bmff,
        "application/c2pa" | "c2pa" | "application/x-c2pa-manifest-store" => Kind::C2pa,
        _ => return None,
    })
}

/// One C2PA manifest container found in a file.
#[derive(Clone, Debug)]
pub struct Manifest {
    /// file ranges of the complete container(s): APP11 segments, caBX chunk, application extension block,
    /// `C2PA` RIFF chunk (with pad byte), TIFF value bytes, `<c2pa:manifest>` element, GEOB frame, `jumb` box,
    /// C2PA `uuid` box, or the whole sidecar file
    pub ranges: Vec<R>,
    /// file ranges that hold the store bytes themselves (in order; for SVG the base64 text)
    pub payload_ranges: Vec<R>,
    /// the decoded store bytes
    pub payload: Vec<u8>,
}

pub const BMFF_C2PA_UUID: [u8; 16] = [0xd8, 0xfe, 0xc3, 0xd6, 0x1b, 0x0e, 0x48, 0x3c, 0x92, 0x97, 0x58, 0x28, 0x87, 0x7e, 0xc4, 0x81];
pub const TIFF_C2PA_TAG: u16 = 0xCD41;

fn concat(d: &[u8], rs: &[R]) -> Vec<u8> {
    let mut v = vec![];
    for r in rs {
        v.extend_from_slice(&d[r.clone()]);
    }
    v
}

/// All C2PA manifest containers of the file, found from the container structure alone.
pub fn manifests(kind: Kind, d: &[u8]) -> Res<Vec<Manifest>> {
    let mut out = vec![];
    match kind {
        Kind::Jpeg => {
            // ISO 19566-5 JPEG XT boxes: APP11, CI "JP", En (box instance), Z (packet sequence), LBox, TBox
            let j = jpeg_segments(d)?;
            let mut groups: Vec<(u16, Vec<(u32, &JpegSeg)>)> = vec![];
            for s in j.segs.iter().filter(|s| s.marker == 0xEB) {
                let p = &d[s.payload.clone()];
                if p.len() < 16 || &p[..2] != b"JP" || &p[12..16] != b"jumb" {
                    continue;
                }
                let en = u16::from_be_bytes([p[2], p[3]]);
                let z = u32::from_be_bytes([p[4], p[5], p[6], p[7]]);
                // a packet with Z == 1 starts a new box instance even when En repeats
                match groups.last_mut() {
                    Some(g) if g.0 == en && z != 1 => g.1.push((z, s)),
                    _ => groups.push((en, vec![(z, s)])),
                }
            }
            for (_, mut g) in groups {
                g.sort_by_key(|x| x.0);
                let mut pr = vec![];
                for (i, (_, s)) in g.iter().enumerate() {
                    let skip = if i == 0 { 8 } else { 16 };
                    pr.push(s.payload.start + skip..s.payload.end);
                }
                let payload = concat(d, &pr);
                if looks_like_c2pa_store(&payload) {
                    out.push(Manifest { ranges: g.iter().map(|(_, s)| s.start..s.end).collect(), payload_ranges: pr, payload });
                }
            }
        }
        Kind::Png => {
            for c in png_chunks(d)?.chunks.iter().filter(|c| &c.kind == b"caBX") {
                out.push(Manifest { ranges: vec![c.start..c.end], payload_ranges: vec![c.data.clone()], payload: d[c.data.clone()].to_vec() });
            }
        }
        Kind::Gif => {
            for b in gif_blocks(d)?.iter().filter(|b| b.app_id.as_ref().map(|a| a == b"C2PA_GIF\x01\x00\x00").unwrap_or(false)) {
                let (payload, pr) = gif_sub_data(d, b.sub.clone())?;
                out.push(Manifest { ranges: vec![b.start..b.end], payload_ranges: pr, payload });
            }
        }
        Kind::Riff => {
            let top = riff_chunks(d)?;
            for c in top[0].children.iter().filter(|c| &c.id == b"C2PA") {
                out.push(Manifest { ranges: vec![c.start..c.end], payload_ranges: vec![c.data.clone()], payload: d[c.data.clone()].to_vec() });
            }
        }
        Kind::Tiff => {
            let t = tiff_ifds(d)?;
            for ifd in &t.ifds {
                for e in ifd.entries.iter().filter(|e| e.tag == TIFF_C2PA_TAG) {
                    out.push(Manifest { ranges: vec![e.data.clone()], payload_ranges: vec![e.data.clone()], payload: d[e.data.clone()].to_vec() });
                }
            }
        }
        Kind::Svg => {
            let toks = xml_tokens(d)?;
            let mut i = 0;
            while i < toks.len() {
                if let XmlTok::Open { name, raw, empty } = &toks[i] {
                    if name == "c2pa:manifest" {
                        if *empty {
                            out.push(Manifest { ranges: vec![raw.clone()], payload_ranges: vec![], payload: vec![] });
                        } else {
                            let mut j = i + 1;
                            let mut pr = vec![];
                            while j < toks.len() {
                                match &toks[j] {
                                    XmlTok::Close { name, .. } if name == "c2pa:manifest" => break,
                                    XmlTok::Other { raw } => pr.push(raw.clone()),
                                    _ => return Err("markup inside c2pa:manifest".into()),
                                }
                                j += 1;
                            }
                            let XmlTok::Close { raw: craw, .. } = toks.get(j).ok_or("unterminated c2pa:manifest")? else { unreachable!() };
                            let payload = base64_decode(&concat(d, &pr))?;
                            out.push(Manifest { ranges: vec![raw.start..craw.end], payload_ranges: pr, payload });
                            i = j;
                        }
                    }
                }
                i += 1;
            }
        }
        Kind::Id3 => {
            if let Some(t) = id3v2(d)? {
                for f in t.frames.iter().filter(|f| f.id == "GEOB") {
                    let (mime, obj) = geob(d, f)?;
                    if mime == "application/c2pa" || mime == "application/x-c2pa-manifest-store" {
                        out.push(Manifest { ranges: vec![f.start..f.end], payload_ranges: vec![obj.clone()], payload: d[obj].to_vec() });
                    }
                }
            }
        }
        Kind::Jxl => {
            for b in bmff_boxes(d)?.iter().filter(|b| &b.typ == b"jumb") {
                let j = jumbf_boxes(&d[b.start..b.end]).ok();
                let is_c2pa = j.as_ref().and_then(|j| j.first()).map(|j| j.label.as_deref() == Some("c2pa") || j.uuid.map(|u| u[..4] == C2PA_JUMD_UUID_PREFIX).unwrap_or(false)).unwrap_or(false);
                if is_c2pa {
                    out.push(Manifest { ranges: vec![b.start..b.end], payload_ranges: vec![b.start..b.end], payload: d[b.start..b.end].to_vec() });
                }
            }
        }
        Kind::Bmff => {
            for b in bmff_boxes(d)?.iter().filter(|b| b.uuid == Some(BMFF_C2PA_UUID)) {
                // FullBox header, purpose C-string, 8-byte merkle offset (for purposes other than "merkle"), data
                let body = &d[b.body.clone()];
                let purpose_end = body.get(4..).and_then(|x| x.iter().position(|&c| c == 0)).ok_or("C2PA uuid box without purpose")? + 4;
                let purpose = &body[4..purpose_end];
                let mut p = purpose_end + 1;
                if purpose != b"merkle" {
                    p += 8;
                }
                if p > body.len() {
                    return Err("C2PA uuid box too short".into());
                }
                let pr = b.body.start + p..b.end;
                out.push(Manifest { ranges: vec![b.start..b.end], payload_ranges: vec![pr.clone()], payload: d[pr].to_vec() });
            }
        }
        Kind::C2pa => {
            if !d.is_empty() {
                out.push(Manifest { ranges: vec![0..d.len()], payload_ranges: vec![0..d.len()], payload: d.to_vec() });
            }
        }
    }
    Ok(out)
}

/// One unit of media content: a label (type and position-independent path) and its bytes.
#[derive(Clone, Debug, PartialEq, Eq)]
pub struct Item {
    pub label: String,
    pub bytes: Vec<u8>,
}

/// Bytes an absolute offset addresses; when the range leaves the file the item says so instead of failing,
/// so that a corrupted offset shows up as changed media rather than as an unparseable file.
fn deref(label: String, d: &[u8], o: usize, n: usize) -> Item {
    match o.checked_add(n).filter(|e| *e <= d.len()) {
        Some(e) => item(label, &d[o..e]),
        None => item(format!("{label} OUTSIDE FILE"), format!("{o}+{n} > {}", d.len()).as_bytes()),
    }
}

fn item(label: impl Into<String>, bytes: &[u8]) -> Item {
    Item { label: label.into(), bytes: bytes.to_vec() }
}

fn overlaps_any(r: &R, ms: &[Manifest]) -> bool {
    ms.iter().any(|m| m.ranges.iter().any(|x| x.start < r.end && r.start < x.end))
}

fn riff_media(d: &[u8], c: &RiffChunk, path: &str, top: bool, out: &mut Vec<Item>) {
    let me = format!("{path}/{}", fourcc(&c.id));
    if let Some(f) = c.form {
        let me = format!("{me}:{}", fourcc(&f));
        out.push(item(format!("{me} (container)"), &[]));
        for ch in &c.children {
            if top && &ch.id == b"C2PA" {
                continue;
            }
            riff_media(d, ch, &me, false, out);
        }
    } else {
        out.push(item(me, &d[c.data.clone()]));
    }
}

const TIFF_SUBIFD_TAGS: [u16; 4] = [330, 34665, 34853, 40965];
/// (offsets tag, byte-counts tag)
const TIFF_DATA_TAGS: [(u16, u16); 2] = [(273, 279), (324, 325)];

fn tiff_ifd_media(t: &Tiff, d: &[u8], ifd: &TiffIfd, path: &str, depth: usize, out: &mut Vec<Item>) -> Res<()> {
    if depth > 8 {
        return Err("sub-IFD nesting too deep".into());
    }
    for e in &ifd.entries {
        if e.tag == TIFF_C2PA_TAG {
            continue;
        }
        let lbl = format!("{path}/tag{}:type{}:count{}", e.tag, e.typ, e.count);
        if let Some((_, bc)) = TIFF_DATA_TAGS.iter().find(|(o, _)| *o == e.tag) {
            // absolute offsets: compare what they address
            let counts = ifd.entries.iter().find(|x| x.tag == *bc).ok_or("strip/tile offsets without byte counts")?;
            for i in 0..e.count {
                let o = t.value(d, e, i)? as usize;
                let n = t.value(d, counts, i)? as usize;
                out.push(deref(format!("{lbl}[{i}] -> data"), d, o, n));
            }
        } else if TIFF_SUBIFD_TAGS.contains(&e.tag) {
            for i in 0..e.count {
                let o = t.value(d, e, i)? as usize;
                let sub = t.ifd(d, o)?;
                tiff_ifd_media(t, d, &sub, &format!("{lbl}[{i}]"), depth + 1, out)?;
            }
        } else {
            out.push(item(lbl, &d[e.data.clone()]));
        }
    }
    Ok(())
}

fn bmff_media(d: &[u8], b: &BBox, path: &str, all: &[BBox], out: &mut Vec<Item>) -> Res<()> {
    let me = format!("{path}/{}", fourcc(&b.typ));
    if !b.children.is_empty() || BMFF_CONTAINERS.iter().any(|c| **c == b.typ) {
        out.push(item(format!("{me} (container)"), &d[b.start + 8..b.body.start.max(b.start + 8)]));
        for c in &b.children {
            bmff_media(d, c, &me, all, out)?;
        }
        return Ok(());
    }
    match &b.typ {
        b"stco" | b"co64" => {
            // handled by the caller (needs sibling tables); keep only the entry count here
            out.push(item(format!("{me} (entry count)"), get(d, b.body.start..b.body.start + 8)?));
        }
        b"iloc" => {
            for it in iloc(d, b)? {
                for (k, (eo, el)) in it.extents.iter().enumerate() {
                    let lbl = format!("{me} item{} cm{} extent{k} len{el} -> data", it.id, it.construction_method);
                    if it.construction_method == 0 {
                        let o = (it.base_offset + eo) as usize;
                        out.push(deref(lbl, d, o, *el as usize));
                    } else {
                        out.push(item(lbl, &eo.to_be_bytes()));
                    }
                }
            }
        }
        _ => out.push(item(me, &d[b.start + 8..b.end])),
    }
    Ok(())
}

/// Chunk bytes addressed by every `stco`/`co64` of every track: for chunk k of a track the bytes
/// `offset_k .. offset_k + sum(sizes of the samples in chunk k)` (via `stsc` + `stsz`).
fn bmff_chunk_refs(d: &[u8], boxes: &[BBox], out: &mut Vec<Item>) -> Res<()> {
    for (ti, stbl) in bmff_find(boxes, &[b"moov", b"trak", b"mdia", b"minf", b"stbl"]).into_iter().enumerate() {
        let one = |t: &[u8; 4]| stbl.children.iter().find(|c| &c.typ == t);
        let offs = match (one(b"stco"), one(b"co64")) {
            (Some(b), _) => stco(d, b)?,
            (None, Some(b)) => co64(d, b)?,
            _ => continue,
        };
        let sizes = one(b"stsz").map(|b| stsz(d, b)).transpose()?.unwrap_or_default();
        let runs = one(b"stsc").map(|b| stsc(d, b)).transpose()?.unwrap_or_default();
        let mut si = 0usize;
        for (k, off) in offs.iter().enumerate() {
            let chunk_no = k as u32 + 1;
            let spc = runs.iter().rev().find(|(first, _)| *first <= chunk_no).map(|r| r.1).unwrap_or(0) as usize;
            let len: usize = sizes.iter().skip(si).take(spc).map(|x| *x as usize).sum();
            si += spc;
            let o = *off as usize;
            out.push(deref(format!("track{ti} chunk{k} len{len} -> data"), d, o, len));
        }
    }
    Ok(())
}

/// Media content of a file: every non-manifest item in file order (label + bytes), followed, for containers
/// that store absolute offsets, by the bytes those offsets address. Two files have the same media content
/// iff their item lists are equal.
///
/// What is deliberately not part of the media content (it has to change when a manifest is embedded):
/// container size fields (RIFF size, ID3 tag size and padding, BMFF offset *values*, TIFF offset values and
/// the position of IFDs), the ID3 tag version and frame header encoding, for SVG an `xmlns:c2pa` attribute
/// on the root element and an empty `<metadata>` element.
pub fn media(kind: Kind, d: &[u8]) -> Res<Vec<Item>> {
    let ms = manifests(kind, d)?;
    let mut out = vec![];
    match kind {
        Kind::Jpeg => {
            let j = jpeg_segments(d)?;
            for s in j.segs.iter().filter(|s| !overlaps_any(&(s.start..s.end), &ms)) {
                out.push(item(format!("seg{:02X}", s.marker), &d[s.start..s.end]));
            }
            out.push(item("trailing", &d[j.end..]));
        }
        Kind::Png => {
            let p = png_chunks(d)?;
            for c in p.chunks.iter().filter(|c| &c.kind != b"caBX") {
                out.push(item(fourcc(&c.kind), &d[c.start..c.end]));
            }
            out.push(item("trailing", &d[p.end..]));
        }
        Kind::Gif => {
            let bs = gif_blocks(d)?;
            for b in bs.iter().filter(|b| !overlaps_any(&(b.start..b.end), &ms)) {
                out.push(item(format!("{:?}", b.kind), &d[b.start..b.end]));
            }
            out.push(item("trailing", &d[bs.last().map(|b| b.end).unwrap_or(0)..]));
        }
        Kind::Riff => {
            let top = riff_chunks(d)?;
            for (i, c) in top.iter().enumerate() {
                riff_media(d, c, "", i == 0, &mut out);
            }
            out.push(item("trailing", &d[top.last().map(|c| c.end).unwrap_or(0)..]));
        }
        Kind::Tiff => {
            let t = tiff_ifds(d)?;
            out.push(item("header", &d[..4]));
            let mut page = 0;
            for ifd in &t.ifds {
                // an IFD that holds nothing but the C2PA tag is the manifest's own directory, not a page
                if !ifd.entries.is_empty() && ifd.entries.iter().all(|e| e.tag == TIFF_C2PA_TAG) {
                    continue;
                }
                tiff_ifd_media(&t, d, ifd, &format!("page{page}"), 0, &mut out)?;
                page += 1;
            }
        }
        Kind::Svg => {
            let toks = xml_tokens(d)?;
            let mut skip_to: Option<usize> = None;
            let mut items: Vec<Item> = vec![];
            let mut first_open = true;
            for t in &toks {
                let raw = match t {
                    XmlTok::Open { raw, .. } | XmlTok::Close { raw, .. } | XmlTok::Other { raw } => raw.clone(),
                };
                if let Some(e) = skip_to {
                    if raw.start < e {
                        continue;
                    }
                }
                if let Some(m) = ms.iter().find(|m| m.ranges[0].start == raw.start) {
                    skip_to = Some(m.ranges[0].end);
                    continue;
                }
                match t {
                    XmlTok::Open { name, raw, .. } => {
                        let mut s = String::from_utf8_lossy(&d[raw.clone()]).into_owned();
                        if first_open {
                            first_open = false;
                            s = s.replace(" xmlns:c2pa=\"http://c2pa.org/manifest\"", "");
                        }
                        items.push(item(format!("<{name}>"), s.as_bytes()));
                    }
                    XmlTok::Close { name, raw } => {
                        // drop an empty <metadata></metadata> pair
                        if name == "metadata" && items.last().map(|i| i.label == "<metadata>").unwrap_or(false) {
                            items.pop();
                        } else {
                            items.push(item(format!("</{name}>"), &d[raw.clone()]));
                        }
                    }
                    XmlTok::Other { raw } => items.push(item("text", &d[raw.clone()])),
                }
            }
            out = items;
        }
        Kind::Id3 => {
            let t = id3v2(d)?;
            let mut audio = 0usize;
            if let Some(t) = &t {
                for f in t.frames.iter().filter(|f| !overlaps_any(&(f.start..f.end), &ms)) {
                    out.push(item(format!("frame {}", f.id), &d[f.data.clone()]));
                }
                audio = t.end;
            }
            out.push(item("audio", &d[audio..]));
        }
        Kind::Jxl => {
            for b in bmff_boxes(d)?.iter().filter(|b| !overlaps_any(&(b.start..b.end), &ms)) {
                out.push(item(fourcc(&b.typ), &d[b.start..b.end]));
            }
        }
        Kind::Bmff => {
            let boxes = bmff_boxes(d)?;
            for b in boxes.iter().filter(|b| !overlaps_any(&(b.start..b.end), &ms)) {
                bmff_media(d, b, "", &boxes, &mut out)?;
            }
            bmff_chunk_refs(d, &boxes, &mut out)?;
        }
        Kind::C2pa => {}
    }
    Ok(out)
}

/// First difference between two media lists, as a short human readable string (`None` when equal).
pub fn media_diff(a: &[Item], b: &[Item]) -> Option<String> {
    for (i, (x, y)) in a.iter().zip(b.iter()).enumerate() {
        if x.label != y.label {
            return Some(format!("item {i}: '{}' became '{}'", x.label, y.label));
        }
        if x.bytes != y.bytes {
            let p = x.bytes.iter().zip(y.bytes.iter()).position(|(p, q)| p != q).unwrap_or(x.bytes.len().min(y.bytes.len()));
            return Some(format!("item {i} '{}': bytes differ at +{p} (len {} -> {})", x.label, x.bytes.len(), y.bytes.len()));
        }
    }
    if a.len() != b.len() {
        let (l, which) = if a.len() > b.len() { (&a[b.len()], "lost") } else { (&b[a.len()], "gained") };
        return Some(format!("{which} item '{}' ({} -> {} items)", l.label, a.len(), b.len()));
    }
    None
}

#[cfg(test)]
mod tests {
    use super::*;
    use crate::assets;

    #[test]
    fn seeds_walk() {
        for a in assets::all() {
            let k = kind_of(a.mime).unwrap();
            assert!(manifests(k, &a.data).unwrap().is_empty(), "{}", a.name);
            assert!(!media(k, &a.data).unwrap().is_empty(), "{}", a.name);
        }
    }
}

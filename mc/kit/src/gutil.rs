//! Small helpers shared by the checks of group G (C13, C24, C35, C38).

use serde_json::Value;

/// Replace every UUID-shaped token (8-4-4-4-12 hex digits) by `<u0>`, `<u1>`, … in order of first occurrence,
/// so that two serialisations that differ only in freshly generated identifiers compare equal.
pub fn norm_ids(s: &str) -> String {
    let b = s.as_bytes();
    let mut names: Vec<&str> = vec![];
    let mut out = String::with_capacity(s.len());
    let mut i = 0;
    let is_uuid_at = |i: usize| -> bool {
        if i + 36 > b.len() {
            return false;
        }
        for (j, c) in b[i..i + 36].iter().enumerate() {
            let dash = matches!(j, 8 | 13 | 18 | 23);
            if dash != (*c == b'-') || (!dash && !c.is_ascii_hexdigit()) {
                return false;
            }
        }
        // not part of a longer hex run
        (i == 0 || !b[i - 1].is_ascii_hexdigit()) && (i + 36 == b.len() || !b[i + 36].is_ascii_hexdigit())
    };
    while i < b.len() {
        if b[i].is_ascii_hexdigit() && is_uuid_at(i) {
            let tok = &s[i..i + 36];
            let n = match names.iter().position(|t| t.eq_ignore_ascii_case(tok)) {
                Some(n) => n,
                None => {
                    names.push(tok);
                    names.len() - 1
                }
            };
            out.push_str(&format!("<u{n}>"));
            i += 36;
        } else {
            // copy one UTF-8 character
            let ch_len = s[i..].chars().next().map(|c| c.len_utf8()).unwrap_or(1);
            out.push_str(&s[i..i + ch_len]);
            i += ch_len;
        }
    }
    out
}

/// Stable, id-normalised rendering of any serialisable SDK value (keys sorted, arrays of status objects sorted).
pub fn canon_value<T: serde::Serialize>(v: &T) -> String {
    let mut j = serde_json::to_value(v).unwrap_or(Value::Null);
    sort_value(&mut j);
    norm_ids(&serde_json::to_string(&j).unwrap_or_default())
}

fn sort_value(v: &mut Value) {
    match v {
        Value::Object(m) => {
            let mut entries: Vec<(String, Value)> = std::mem::take(m).into_iter().collect();
            for (_, x) in entries.iter_mut() {
                sort_value(x);
            }
            entries.retain(|(k, _)| k != "validation_time" && k != "validationTime");
            entries.sort_by(|a, b| a.0.cmp(&b.0));
            *m = entries.into_iter().collect();
        }
        Value::Array(a) => {
            for x in a.iter_mut() {
                sort_value(x);
            }
            if !a.is_empty() && a.iter().all(|x| x.get("code").is_some()) {
                a.sort_by_key(|x| serde_json::to_string(x).unwrap_or_default());
            }
        }
        _ => {}
    }
}

/// Order- and identifier-independent canonical report of a reader: `json()` + `detailed_json()` + state, with
/// every UUID-shaped identifier replaced by `<id>` (no numbering: numbering by first occurrence depends on map
/// iteration order), validation time dropped, object members sorted by their rendering (so two members whose keys
/// differ only in an identifier cannot swap), arrays of status objects sorted. `mask_digests` additionally masks
/// hash values (needed when comparing two separate signing runs).
pub fn canon2(r: &c2pa::Reader, mask_digests: bool) -> String {
    let j: Value = serde_json::from_str(&r.json()).unwrap_or(Value::Null);
    let d: Value = serde_json::from_str(&r.detailed_json()).unwrap_or(Value::Null);
    let mut v = serde_json::json!({"json": j, "detailed": d, "state": crate::sdk::state_name(r.validation_state())});
    if mask_digests {
        mask_hashes(&mut v);
    }
    render(&v)
}

/// The same rendering for any serialisable SDK value.
pub fn canon2_value<T: serde::Serialize>(v: &T) -> String {
    render(&serde_json::to_value(v).unwrap_or(Value::Null))
}

fn mask_all_ids(s: &str) -> String {
    let n = norm_ids(s);
    // norm_ids numbers the identifiers; drop the numbers
    let mut out = String::with_capacity(n.len());
    let b = n.as_bytes();
    let mut i = 0;
    while i < b.len() {
        if b[i] == b'<' && i + 2 < b.len() && b[i + 1] == b'u' && b[i + 2].is_ascii_digit() {
            let mut j = i + 2;
            while j < b.len() && b[j].is_ascii_digit() {
                j += 1;
            }
            if j < b.len() && b[j] == b'>' {
                out.push_str("<id>");
                i = j + 1;
                continue;
            }
        }
        let ch_len = n[i..].chars().next().map(|c| c.len_utf8()).unwrap_or(1);
        out.push_str(&n[i..i + ch_len]);
        i += ch_len;
    }
    out
}

fn render(v: &Value) -> String {
    match v {
        Value::Object(m) => {
            let mut parts: Vec<String> = m
                .iter()
                .filter(|(k, _)| k.as_str() != "validation_time" && k.as_str() != "validationTime")
                .map(|(k, x)| format!("{}:{}", serde_json::to_string(&mask_all_ids(k)).unwrap_or_default(), render(x)))
                .collect();
            parts.sort();
            format!("{{{}}}", parts.join(","))
        }
        Value::Array(a) => {
            let mut parts: Vec<String> = a.iter().map(render).collect();
            if !a.is_empty() && a.iter().all(|x| x.get("code").is_some()) {
                parts.sort();
            }
            format!("[{}]", parts.join(","))
        }
        Value::String(s) => serde_json::to_string(&mask_all_ids(s)).unwrap_or_default(),
        other => other.to_string(),
    }
}

/// Canonical report with every digest value masked: what two *separate signing runs* of the same definition must
/// agree on (their assertion/claim hashes differ because labels and instance ids are random).
pub fn canon_masked(r: &c2pa::Reader) -> String {
    let mut v = crate::canon::canon(r);
    mask_hashes(&mut v);
    crate::canon::stable(&v)
}

fn mask_hashes(v: &mut Value) {
    match v {
        Value::Object(m) => {
            for (k, x) in m.iter_mut() {
                if (k == "hash" || k == "pad" || k == "pad2") && (x.is_string() || x.is_array()) {
                    *x = Value::String("<masked>".into());
                } else {
                    mask_hashes(x);
                }
            }
        }
        Value::Array(a) => a.iter_mut().for_each(mask_hashes),
        _ => {}
    }
}

/// Per-key violation limiter: every violating case is counted, the first `keep` of each key are recorded
/// (a root cause that shows at 10^4 choice points must not crowd every other key out of the evidence).
pub struct Limiter {
    seen: std::sync::Mutex<std::collections::BTreeMap<String, u64>>,
    keep: u64,
}

impl Limiter {
    pub const fn new(keep: u64) -> Limiter {
        Limiter { seen: std::sync::Mutex::new(std::collections::BTreeMap::new()), keep }
    }

    pub fn violation(&self, run: &crate::Run, key: impl Into<String>, what: impl Into<String>, case: Value) {
        let key = key.into();
        let n = {
            let mut g = self.seen.lock().unwrap_or_else(|e| e.into_inner());
            let e = g.entry(key.clone()).or_insert(0);
            *e += 1;
            *e
        };
        if n <= self.keep {
            run.violation(key, what, case);
        }
    }

    pub fn counts(&self) -> Value {
        serde_json::json!(*self.seen.lock().unwrap_or_else(|e| e.into_inner()))
    }
}

/// Result class of an SDK call: `Err(<variant>)`.
pub fn err_class(e: &c2pa::Error) -> String {
    format!("Err({})", crate::sdk::err_kind(e))
}

#[cfg(test)]
mod tests {
    #[test]
    fn ids() {
        assert_eq!(super::mask_all_ids("a urn:c2pa:123e4567-e89b-12d3-a456-426614174000 <u9 b"), "a urn:c2pa:<id> <u9 b");
        let a = super::norm_ids("x urn:c2pa:123e4567-e89b-12d3-a456-426614174000 y 123e4567-e89b-12d3-a456-426614174000 z 00000000-0000-0000-0000-000000000001");
        assert_eq!(a, "x urn:c2pa:<u0> y <u0> z <u1>");
    }
}

//! kit::pki — certificate / signer / TSA / OCSP factory (owned by group E; DESIGN.md 3.2).
//!
//! * keys: P-256/384/521, Ed25519, RSA-2048 (+ the deliberately weak P-192 and RSA-1024 for C06);
//!   RSA keys are cached on disk under /verif/target/pki-cache (generation is the only slow step)
//! * certificates: `CertSpec` + `issue()` on the `openssl` crate (version, basicConstraints, keyUsage, EKU,
//!   validity, signature digest, SKI/AKI, arbitrary extra extensions); issuer/subject unique IDs are spliced
//!   into the TBSCertificate by a small DER editor and the certificate is re-signed
//! * hierarchies of depth 0..3 (`Hierarchy`)
//! * signers: `KitSigner` (own raw signatures; `direct=true` makes it a direct-COSE signer built on the hook
//!   `cose_sign_unchecked`, so certificates the SDK refuses to sign with still get signed into assets),
//!   `sdk_signer()` (c2pa::create_signer::from_keys) and `Wrap` (overrides send_timestamp_request / ocsp_val)
//! * TSA: `Tsa::cli_reply` (openssl ts -reply for a given request), `Tsa::build_reply` (own CMS encoder with a
//!   chosen genTime, needed because the CLI cannot back/forward-date), `ts_verify_cli` (openssl ts -verify judge)
//! * OCSP: `ocsp_cli` (openssl ocsp responder over an index file), `build_ocsp` (own encoder with chosen times),
//!   `ocsp_verify_cli` (openssl ocsp -respin judge)
//!
//! Nothing in here calls the SDK functions that the properties judge.

use std::{
    path::PathBuf,
    process::Command,
    sync::{Arc, Mutex},
};

use c2pa::{Signer, SigningAlg};
use openssl::{
    asn1::{Asn1Integer, Asn1Object, Asn1OctetString, Asn1Time},
    bn::BigNum,
    ec::{EcGroup, EcKey},
    ecdsa::EcdsaSig,
    hash::{hash, MessageDigest},
    nid::Nid,
    pkey::{PKey, Private},
    rsa::{Padding, Rsa},
    sign::{RsaPssSaltlen, Signer as OsslSigner},
    x509::{
        extension::{AuthorityKeyIdentifier, BasicConstraints, ExtendedKeyUsage, KeyUsage, SubjectKeyIdentifier},
        X509Builder, X509Extension, X509NameBuilder, X509,
    },
};

use crate::ev::machinery;

pub const CACHE_DIR: &str = "/verif/target/pki-cache";

pub const Y2020: i64 = 1_577_836_800; // 2020-01-01T00:00:00Z
pub const Y2040: i64 = 2_208_988_800; // 2040-01-01T00:00:00Z
pub const DAY: i64 = 86_400;

pub fn now() -> i64 {
    std::time::SystemTime::now().duration_since(std::time::UNIX_EPOCH).map(|d| d.as_secs() as i64).unwrap_or(0)
}

fn ok<T, E: std::fmt::Debug>(r: Result<T, E>, what: &str) -> T {
    r.unwrap_or_else(|e| machinery(format!("pki: {what}: {e:?}")))
}

// =====================================================================================================
// minimal DER writer / reader
// =====================================================================================================
pub mod der {
    pub fn len(n: usize) -> Vec<u8> {
        if n < 0x80 {
            vec![n as u8]
        } else {
            let b: Vec<u8> = n.to_be_bytes().iter().copied().skip_while(|x| *x == 0).collect();
            let mut v = vec![0x80 | b.len() as u8];
            v.extend(b);
            v
        }
    }
    pub fn tlv(tag: u8, content: &[u8]) -> Vec<u8> {
        let mut v = vec![tag];
        v.extend(len(content.len()));
        v.extend_from_slice(content);
        v
    }
    pub fn cat(items: &[Vec<u8>]) -> Vec<u8> {
        items.iter().flat_map(|x| x.iter().copied()).collect()
    }
    pub fn seq(items: &[Vec<u8>]) -> Vec<u8> {
        tlv(0x30, &cat(items))
    }
    /// SET OF with DER ordering of the element encodings
    pub fn set_of(items: &[Vec<u8>]) -> Vec<u8> {
        let mut v = items.to_vec();
        v.sort();
        tlv(0x31, &cat(&v))
    }
    /// INTEGER from big-endian magnitude (non-negative)
    pub fn int_bytes(mag: &[u8]) -> Vec<u8> {
        let mut m: Vec<u8> = mag.iter().copied().skip_while(|x| *x == 0).collect();
        if m.is_empty() {
            m.push(0);
        }
        if m[0] & 0x80 != 0 {
            m.insert(0, 0);
        }
        tlv(0x02, &m)
    }
    pub fn int(n: u64) -> Vec<u8> {
        int_bytes(&n.to_be_bytes())
    }
    pub fn enumerated(n: u8) -> Vec<u8> {
        tlv(0x0A, &[n])
    }
    pub fn null() -> Vec<u8> {
        vec![5, 0]
    }
    pub fn octet(b: &[u8]) -> Vec<u8> {
        tlv(0x04, b)
    }
    pub fn bitstring(b: &[u8]) -> Vec<u8> {
        let mut c = vec![0u8];
        c.extend_from_slice(b);
        tlv(0x03, &c)
    }
    pub fn oid(dotted: &str) -> Vec<u8> {
        let parts: Vec<u64> = dotted.split('.').map(|p| p.parse().unwrap_or(0)).collect();
        let mut c = vec![(parts[0] * 40 + parts[1]) as u8];
        for &p in &parts[2..] {
            let mut stack = vec![(p & 0x7f) as u8];
            let mut q = p >> 7;
            while q > 0 {
                stack.push(0x80 | (q & 0x7f) as u8);
                q >>= 7;
            }
            stack.reverse();
            c.extend(stack);
        }
        tlv(0x06, &c)
    }
    /// context-specific constructed [n] EXPLICIT
    pub fn explicit(n: u8, inner: &[u8]) -> Vec<u8> {
        tlv(0xA0 | n, inner)
    }
    /// civil-from-days (Howard Hinnant) -> YYYYMMDDHHMMSSZ
    pub fn time_string(unix: i64) -> String {
        let days = unix.div_euclid(86_400);
        let secs = unix.rem_euclid(86_400);
        let z = days + 719_468;
        let era = z.div_euclid(146_097);
        let doe = z.rem_euclid(146_097);
        let yoe = (doe - doe / 1460 + doe / 36_524 - doe / 146_096) / 365;
        let y = yoe + era * 400;
        let doy = doe - (365 * yoe + yoe / 4 - yoe / 100);
        let mp = (5 * doy + 2) / 153;
        let d = doy - (153 * mp + 2) / 5 + 1;
        let m = if mp < 10 { mp + 3 } else { mp - 9 };
        let y = if m <= 2 { y + 1 } else { y };
        format!("{:04}{:02}{:02}{:02}{:02}{:02}Z", y, m, d, secs / 3600, (secs % 3600) / 60, secs % 60)
    }
    pub fn gentime(unix: i64) -> Vec<u8> {
        tlv(0x18, time_string(unix).as_bytes())
    }
    pub fn utctime(unix: i64) -> Vec<u8> {
        tlv(0x17, time_string(unix)[2..].as_bytes())
    }

    /// One parsed TLV: tag, offset of the TLV, offset of content, content length.
    #[derive(Clone, Copy, Debug)]
    pub struct Tlv {
        pub tag: u8,
        pub start: usize,
        pub cstart: usize,
        pub clen: usize,
    }
    impl Tlv {
        pub fn end(&self) -> usize {
            self.cstart + self.clen
        }
        pub fn content<'a>(&self, buf: &'a [u8]) -> &'a [u8] {
            &buf[self.cstart..self.end()]
        }
        pub fn whole<'a>(&self, buf: &'a [u8]) -> &'a [u8] {
            &buf[self.start..self.end()]
        }
    }
    pub fn read(buf: &[u8], at: usize) -> Option<Tlv> {
        let tag = *buf.get(at)?;
        let l0 = *buf.get(at + 1)? as usize;
        let (clen, hdr) = if l0 < 0x80 {
            (l0, 2)
        } else {
            let n = l0 & 0x7f;
            if n == 0 || n > 4 {
                return None;
            }
            let mut v = 0usize;
            for i in 0..n {
                v = (v << 8) | *buf.get(at + 2 + i)? as usize;
            }
            (v, 2 + n)
        };
        if at + hdr + clen > buf.len() {
            return None;
        }
        Some(Tlv { tag, start: at, cstart: at + hdr, clen })
    }
    /// children of a constructed TLV
    pub fn children(buf: &[u8], parent: &Tlv) -> Option<Vec<Tlv>> {
        let mut v = vec![];
        let mut at = parent.cstart;
        while at < parent.end() {
            let t = read(buf, at)?;
            at = t.end();
            v.push(t);
        }
        Some(v)
    }
}

// =====================================================================================================
// keys
// =====================================================================================================
#[derive(Clone, Copy, Debug, PartialEq, Eq, Hash)]
pub enum KeyKind {
    P256,
    P384,
    P521,
    Ed25519,
    Rsa2048,
    /// weak kinds, for profile violations only
    P192,
    Rsa1024,
    /// just below the 2048-bit minimum (boundary values)
    Rsa2047,
    Rsa2040,
}

impl KeyKind {
    pub const STRONG: [KeyKind; 5] = [KeyKind::P256, KeyKind::P384, KeyKind::P521, KeyKind::Ed25519, KeyKind::Rsa2048];
    pub fn name(self) -> &'static str {
        match self {
            KeyKind::P256 => "p256",
            KeyKind::P384 => "p384",
            KeyKind::P521 => "p521",
            KeyKind::Ed25519 => "ed25519",
            KeyKind::Rsa2048 => "rsa2048",
            KeyKind::P192 => "p192",
            KeyKind::Rsa1024 => "rsa1024",
            KeyKind::Rsa2047 => "rsa2047",
            KeyKind::Rsa2040 => "rsa2040",
        }
    }
    pub fn from_name(s: &str) -> KeyKind {
        for k in [KeyKind::P256, KeyKind::P384, KeyKind::P521, KeyKind::Ed25519, KeyKind::Rsa2048, KeyKind::P192, KeyKind::Rsa1024, KeyKind::Rsa2047, KeyKind::Rsa2040] {
            if k.name() == s {
                return k;
            }
        }
        machinery(format!("pki: unknown key kind {s}"))
    }
    /// COSE algorithm a key of this kind signs with
    pub fn alg(self) -> SigningAlg {
        match self {
            KeyKind::P256 | KeyKind::P192 => SigningAlg::Es256,
            KeyKind::P384 => SigningAlg::Es384,
            KeyKind::P521 => SigningAlg::Es512,
            KeyKind::Ed25519 => SigningAlg::Ed25519,
            KeyKind::Rsa2048 | KeyKind::Rsa1024 | KeyKind::Rsa2047 | KeyKind::Rsa2040 => SigningAlg::Ps256,
        }
    }
    /// digest used when a key of this kind signs a certificate / token
    pub fn default_digest(self) -> Digest {
        match self {
            KeyKind::P384 => Digest::Sha384,
            KeyKind::P521 => Digest::Sha512,
            _ => Digest::Sha256,
        }
    }
}

#[derive(Clone)]
pub struct Key {
    pub kind: KeyKind,
    pub pkey: PKey<Private>,
}

impl Key {
    pub fn private_pem(&self) -> Vec<u8> {
        ok(self.pkey.private_key_to_pem_pkcs8(), "key to pem")
    }
    /// content of the subjectPublicKey BIT STRING (without the unused-bits byte)
    pub fn public_bits(&self) -> Vec<u8> {
        let spki = ok(self.pkey.public_key_to_der(), "spki");
        spki_bits(&spki)
    }
}

pub fn spki_bits(spki: &[u8]) -> Vec<u8> {
    let top = der::read(spki, 0).unwrap_or_else(|| machinery("pki: bad spki"));
    let ch = der::children(spki, &top).unwrap_or_else(|| machinery("pki: bad spki children"));
    ch[1].content(spki)[1..].to_vec()
}

/// Fresh key (EC / Ed25519 are generated, RSA comes from the disk cache slot `slot`).
pub fn gen_key(kind: KeyKind, slot: &str) -> Key {
    let pkey = match kind {
        KeyKind::P256 | KeyKind::P384 | KeyKind::P521 | KeyKind::P192 => {
            let nid = match kind {
                KeyKind::P256 => Nid::X9_62_PRIME256V1,
                KeyKind::P384 => Nid::SECP384R1,
                KeyKind::P521 => Nid::SECP521R1,
                _ => Nid::X9_62_PRIME192V1,
            };
            let mut g = ok(EcGroup::from_curve_name(nid), "curve");
            g.set_asn1_flag(openssl::ec::Asn1Flag::NAMED_CURVE);
            ok(PKey::from_ec_key(ok(EcKey::generate(&g), "ec keygen")), "ec pkey")
        }
        KeyKind::Ed25519 => ok(PKey::generate_ed25519(), "ed25519 keygen"),
        KeyKind::Rsa2048 | KeyKind::Rsa1024 | KeyKind::Rsa2047 | KeyKind::Rsa2040 => cached_rsa(kind, slot),
    };
    Key { kind, pkey }
}

fn cached_rsa(kind: KeyKind, slot: &str) -> PKey<Private> {
    let bits = match kind {
        KeyKind::Rsa2048 => 2048,
        KeyKind::Rsa2047 => 2047,
        KeyKind::Rsa2040 => 2040,
        _ => 1024,
    };
    let slot: String = slot.chars().map(|c| if c.is_ascii_alphanumeric() { c } else { '_' }).collect();
    let path = PathBuf::from(CACHE_DIR).join(format!("rsa{bits}-{slot}.pem"));
    if let Ok(b) = std::fs::read(&path) {
        if let Ok(k) = PKey::private_key_from_pem(&b) {
            if k.bits() == bits {
                return k;
            }
        }
    }
    let k = ok(PKey::from_rsa(ok(Rsa::generate(bits), "rsa keygen")), "rsa pkey");
    if k.bits() != bits {
        machinery(format!("pki: generated RSA key has {} bits, wanted {bits}", k.bits()));
    }
    let _ = std::fs::create_dir_all(CACHE_DIR);
    let tmp = path.with_extension(format!("tmp{}", std::process::id()));
    if std::fs::write(&tmp, ok(k.private_key_to_pem_pkcs8(), "rsa pem")).is_ok() {
        let _ = std::fs::rename(&tmp, &path);
    }
    k
}

// =====================================================================================================
// certificates
// =====================================================================================================
#[derive(Clone, Copy, Debug, PartialEq, Eq)]
pub enum Digest {
    Sha256,
    Sha384,
    Sha512,
    Sha1,
    Md5,
}
impl Digest {
    pub fn md(self) -> MessageDigest {
        match self {
            Digest::Sha256 => MessageDigest::sha256(),
            Digest::Sha384 => MessageDigest::sha384(),
            Digest::Sha512 => MessageDigest::sha512(),
            Digest::Sha1 => MessageDigest::sha1(),
            Digest::Md5 => MessageDigest::md5(),
        }
    }
    pub fn oid(self) -> &'static str {
        match self {
            Digest::Sha256 => "2.16.840.1.101.3.4.2.1",
            Digest::Sha384 => "2.16.840.1.101.3.4.2.2",
            Digest::Sha512 => "2.16.840.1.101.3.4.2.3",
            Digest::Sha1 => "1.3.14.3.2.26",
            Digest::Md5 => "1.2.840.113549.2.5",
        }
    }
}

pub const EKU_EMAIL: &str = "1.3.6.1.5.5.7.3.4";
pub const EKU_DOCSIGN: &str = "1.3.6.1.5.5.7.3.36";
pub const EKU_TIMESTAMP: &str = "1.3.6.1.5.5.7.3.8";
pub const EKU_OCSP: &str = "1.3.6.1.5.5.7.3.9";
pub const EKU_SERVER: &str = "1.3.6.1.5.5.7.3.1";
pub const EKU_CLIENT: &str = "1.3.6.1.5.5.7.3.2";
pub const EKU_CODE: &str = "1.3.6.1.5.5.7.3.3";
pub const EKU_ANY: &str = "2.5.29.37.0";
pub const EKU_C2PA: &str = "1.3.6.1.4.1.62558.2.1";
/// an OID no default configuration knows
pub const EKU_CUSTOM: &str = "1.3.6.1.4.1.55555.7.1";

#[derive(Clone, Copy, Debug, PartialEq, Eq)]
pub enum Ku {
    DigitalSignature,
    NonRepudiation,
    KeyEncipherment,
    KeyCertSign,
    CrlSign,
}

#[derive(Clone, Debug)]
pub struct CertSpec {
    pub cn: String,
    pub org: String,
    /// X.509 version field value (0 = v1, 1 = v2, 2 = v3)
    pub version: i32,
    pub serial: u64,
    pub not_before: i64,
    pub not_after: i64,
    /// basicConstraints: None = extension absent; Some((ca, pathlen))
    pub basic: Option<(bool, Option<u32>)>,
    pub basic_critical: bool,
    pub key_usage: Option<Vec<Ku>>,
    pub key_usage_critical: bool,
    /// extendedKeyUsage as dotted OIDs; None = extension absent
    pub eku: Option<Vec<String>>,
    pub eku_critical: bool,
    pub ski: bool,
    pub aki: bool,
    /// (dotted oid, critical, DER content of extnValue)
    pub extra_ext: Vec<(String, bool, Vec<u8>)>,
    /// digest of the certificate signature (ignored when the issuer key is Ed25519)
    pub digest: Option<Digest>,
    pub issuer_uid: Option<Vec<u8>>,
    pub subject_uid: Option<Vec<u8>>,
}

static SERIAL: std::sync::atomic::AtomicU64 = std::sync::atomic::AtomicU64::new(0x1000);
pub fn next_serial() -> u64 {
    SERIAL.fetch_add(1, std::sync::atomic::Ordering::Relaxed)
}

impl CertSpec {
    pub fn ca(cn: &str, pathlen: Option<u32>) -> CertSpec {
        CertSpec {
            cn: cn.into(),
            org: "Verif Kit".into(),
            version: 2,
            serial: next_serial(),
            not_before: Y2020,
            not_after: Y2040,
            basic: Some((true, pathlen)),
            basic_critical: true,
            key_usage: Some(vec![Ku::KeyCertSign, Ku::CrlSign]),
            key_usage_critical: true,
            eku: None,
            eku_critical: false,
            ski: true,
            aki: true,
            extra_ext: vec![],
            digest: None,
            issuer_uid: None,
            subject_uid: None,
        }
    }
    /// C2PA-profile conforming signing certificate
    pub fn ee(cn: &str) -> CertSpec {
        CertSpec {
            cn: cn.into(),
            org: "Verif Kit Signer".into(),
            version: 2,
            serial: next_serial(),
            not_before: Y2020,
            not_after: Y2040,
            basic: Some((false, None)),
            basic_critical: true,
            key_usage: Some(vec![Ku::DigitalSignature]),
            key_usage_critical: true,
            eku: Some(vec![EKU_EMAIL.into()]),
            eku_critical: false,
            ski: true,
            aki: true,
            extra_ext: vec![],
            digest: None,
            issuer_uid: None,
            subject_uid: None,
        }
    }
    pub fn tsa(cn: &str) -> CertSpec {
        let mut s = CertSpec::ee(cn);
        s.org = "Verif Kit TSA".into();
        s.eku = Some(vec![EKU_TIMESTAMP.into()]);
        s.eku_critical = true;
        s
    }
    pub fn ocsp_responder(cn: &str) -> CertSpec {
        let mut s = CertSpec::ee(cn);
        s.org = "Verif Kit OCSP".into();
        s.eku = Some(vec![EKU_OCSP.into()]);
        // id-pkix-ocsp-nocheck (NULL)
        s.extra_ext.push(("1.3.6.1.5.5.7.48.1.5".into(), false, der::null()));
        s
    }
}

#[derive(Clone)]
pub struct Cert {
    pub der: Vec<u8>,
    pub x509: X509,
    pub key: Key,
    pub spec: CertSpec,
}

impl Cert {
    pub fn pem(&self) -> String {
        pem_of(&self.der)
    }
    pub fn subject_der(&self) -> Vec<u8> {
        ok(self.x509.subject_name().to_der(), "subject der")
    }
    pub fn issuer_der(&self) -> Vec<u8> {
        ok(self.x509.issuer_name().to_der(), "issuer der")
    }
    pub fn serial_der(&self) -> Vec<u8> {
        der::int(self.spec.serial)
    }
    /// base64(sha256(DER)) — the allow-list hash form
    pub fn allow_hash(&self) -> String {
        b64(&ok(hash(MessageDigest::sha256(), &self.der), "sha256"))
    }
}

pub fn b64(b: &[u8]) -> String {
    openssl::base64::encode_block(b)
}

pub fn pem_of(der: &[u8]) -> String {
    let b = b64(der);
    let mut s = String::from("-----BEGIN CERTIFICATE-----\n");
    for ch in b.as_bytes().chunks(64) {
        s.push_str(std::str::from_utf8(ch).unwrap_or(""));
        s.push('\n');
    }
    s.push_str("-----END CERTIFICATE-----\n");
    s
}

pub fn pem_chain(certs: &[&Cert]) -> String {
    certs.iter().map(|c| c.pem()).collect()
}

fn null_md() -> MessageDigest {
    // X509_sign with an Ed25519 key requires a NULL digest
    unsafe { MessageDigest::from_ptr(std::ptr::null()) }
}

fn name_of(cn: &str, org: &str) -> openssl::x509::X509Name {
    let mut n = ok(X509NameBuilder::new(), "name");
    ok(n.append_entry_by_nid(Nid::COUNTRYNAME, "US"), "C");
    ok(n.append_entry_by_nid(Nid::ORGANIZATIONNAME, org), "O");
    ok(n.append_entry_by_nid(Nid::COMMONNAME, cn), "CN");
    n.build()
}

/// Issue a certificate for `subject_key`. `issuer` = None means self-signed (issuer name = subject name).
pub fn issue(spec: &CertSpec, subject_key: &Key, issuer: Option<&Cert>) -> Cert {
    let mut b = ok(X509Builder::new(), "x509 builder");
    ok(b.set_version(spec.version), "version");
    let sn = ok(BigNum::from_dec_str(&spec.serial.to_string()), "serial bn");
    let sn: Asn1Integer = ok(sn.to_asn1_integer(), "serial");
    ok(b.set_serial_number(&sn), "set serial");
    let subject = name_of(&spec.cn, &spec.org);
    ok(b.set_subject_name(&subject), "subject");
    match issuer {
        Some(i) => ok(b.set_issuer_name(i.x509.subject_name()), "issuer"),
        None => ok(b.set_issuer_name(&subject), "issuer"),
    }
    let nb: Asn1Time = ok(Asn1Time::from_unix(spec.not_before), "nb");
    let na: Asn1Time = ok(Asn1Time::from_unix(spec.not_after), "na");
    ok(b.set_not_before(&nb), "nb");
    ok(b.set_not_after(&na), "na");
    ok(b.set_pubkey(&subject_key.pkey), "pubkey");

    if let Some((ca, pathlen)) = spec.basic {
        let mut bc = BasicConstraints::new();
        if spec.basic_critical {
            bc.critical();
        }
        if ca {
            bc.ca();
        }
        if let Some(p) = pathlen {
            bc.pathlen(p);
        }
        ok(b.append_extension(ok(bc.build(), "bc")), "bc");
    }
    if let Some(kus) = &spec.key_usage {
        let mut ku = KeyUsage::new();
        if spec.key_usage_critical {
            ku.critical();
        }
        for k in kus {
            match k {
                Ku::DigitalSignature => ku.digital_signature(),
                Ku::NonRepudiation => ku.non_repudiation(),
                Ku::KeyEncipherment => ku.key_encipherment(),
                Ku::KeyCertSign => ku.key_cert_sign(),
                Ku::CrlSign => ku.crl_sign(),
            };
        }
        ok(b.append_extension(ok(ku.build(), "ku")), "ku");
    }
    if let Some(ekus) = &spec.eku {
        let mut e = ExtendedKeyUsage::new();
        if spec.eku_critical {
            e.critical();
        }
        for o in ekus {
            e.other(o);
        }
        ok(b.append_extension(ok(e.build(), "eku")), "eku");
    }
    if spec.ski {
        let ext = {
            let ctx = b.x509v3_context(None, None);
            ok(SubjectKeyIdentifier::new().build(&ctx), "ski")
        };
        ok(b.append_extension(ext), "ski");
    }
    if spec.aki {
        if let Some(i) = issuer {
            let ext = {
                let ctx = b.x509v3_context(Some(i.x509.as_ref()), None);
                ok(AuthorityKeyIdentifier::new().keyid(true).build(&ctx), "aki")
            };
            ok(b.append_extension(ext), "aki");
        } else {
            // self-signed: authority key id = own subject key id (SHA-1 of the public key bits)
            let kid = ok(hash(MessageDigest::sha1(), &subject_key.public_bits()), "kid");
            let v = der::seq(&[der::tlv(0x80, &kid)]);
            ok(b.append_extension(raw_ext("2.5.29.35", false, &v)), "aki self");
        }
    }
    for (oid, crit, content) in &spec.extra_ext {
        ok(b.append_extension(raw_ext(oid, *crit, content)), "extra ext");
    }
    let signer_key = issuer.map(|i| &i.key).unwrap_or(subject_key);
    let md = match signer_key.kind {
        KeyKind::Ed25519 => null_md(),
        k => spec.digest.unwrap_or(k.default_digest()).md(),
    };
    ok(b.sign(&signer_key.pkey, md), "sign cert");
    let x = b.build();
    let mut derb = ok(x.to_der(), "to der");
    // OpenSSL's X509_sign silently raises the version to v3 when extensions are present, and it cannot emit
    // unique IDs: both are edited into the TBSCertificate afterwards and the certificate is re-signed.
    if spec.issuer_uid.is_some() || spec.subject_uid.is_some() || spec.version != 2 {
        derb = splice_unique_ids(&derb, spec, signer_key);
    }
    // by-construction check of what the generator claims
    {
        let top = der::read(&derb, 0).unwrap_or_else(|| machinery("pki: own certificate unparseable"));
        let parts = der::children(&derb, &top).unwrap_or_else(|| machinery("pki: own certificate unparseable"));
        let f = der::children(&derb, &parts[0]).unwrap_or_else(|| machinery("pki: own tbs unparseable"));
        let v = if f[0].tag == 0xA0 { f[0].content(&derb).last().copied().unwrap_or(0) as i32 } else { 0 };
        if v != spec.version {
            machinery(format!("pki: generated certificate has version field {v}, wanted {}", spec.version));
        }
        let has = |t: u8| f.iter().any(|x| x.tag == t);
        if has(0x81) != spec.issuer_uid.is_some() || has(0x82) != spec.subject_uid.is_some() {
            machinery("pki: unique-ID fields of the generated certificate are not as specified");
        }
    }
    let x509 = ok(X509::from_der(&derb), "reparse cert");
    Cert { der: derb, x509, key: subject_key.clone(), spec: spec.clone() }
}

fn raw_ext(oid: &str, critical: bool, content: &[u8]) -> X509Extension {
    let o = ok(Asn1Object::from_str(oid), "ext oid");
    let os = ok(Asn1OctetString::new_from_bytes(content), "ext octets");
    ok(X509Extension::new_from_der(&o, critical, &os), "ext from der")
}

/// Insert issuerUniqueID [1] / subjectUniqueID [2] into the TBSCertificate and re-sign with the same algorithm.
fn splice_unique_ids(cert: &[u8], spec: &CertSpec, signer_key: &Key) -> Vec<u8> {
    let bad = || -> ! { machinery("pki: cannot parse own certificate for splicing") };
    let top = der::read(cert, 0).unwrap_or_else(|| bad());
    let parts = der::children(cert, &top).unwrap_or_else(|| bad());
    let tbs = parts[0];
    let sigalg = parts[1].whole(cert).to_vec();
    let fields = der::children(cert, &tbs).unwrap_or_else(|| bad());
    let mut new_tbs: Vec<u8> = vec![];
    let mut inserted = false;
    let mut ins = vec![];
    if let Some(u) = &spec.issuer_uid {
        let mut c = vec![0u8];
        c.extend_from_slice(u);
        ins.extend(der::tlv(0x81, &c));
    }
    if let Some(u) = &spec.subject_uid {
        let mut c = vec![0u8];
        c.extend_from_slice(u);
        ins.extend(der::tlv(0x82, &c));
    }
    for f in &fields {
        if f.tag == 0xA0 && spec.version != 2 {
            // version: v1 is the DER default (field omitted), v2 = INTEGER 1
            if spec.version == 1 {
                new_tbs.extend(der::explicit(0, &der::int(1)));
            }
            continue;
        }
        if f.tag == 0xA3 && !inserted {
            new_tbs.extend(&ins);
            inserted = true;
        }
        new_tbs.extend_from_slice(f.whole(cert));
    }
    if !inserted {
        new_tbs.extend(&ins);
    }
    let new_tbs = der::tlv(0x30, &new_tbs);
    let digest = spec.digest.unwrap_or(signer_key.kind.default_digest());
    let sig = sign_der_style(signer_key, digest, &new_tbs);
    der::seq(&[new_tbs, sigalg, der::bitstring(&sig)])
}

/// Signature as used inside X.509 / CMS / OCSP: ECDSA in DER, RSA PKCS#1 v1.5, Ed25519 raw.
pub fn sign_der_style(key: &Key, digest: Digest, data: &[u8]) -> Vec<u8> {
    match key.kind {
        KeyKind::Ed25519 => {
            let mut s = ok(OsslSigner::new_without_digest(&key.pkey), "ed signer");
            ok(s.sign_oneshot_to_vec(data), "ed sign")
        }
        _ => {
            let mut s = ok(OsslSigner::new(digest.md(), &key.pkey), "signer");
            ok(s.update(data), "sign update");
            ok(s.sign_to_vec(), "sign")
        }
    }
}

/// AlgorithmIdentifier of `sign_der_style`
pub fn sig_alg_id(key: &Key, digest: Digest) -> Vec<u8> {
    match key.kind {
        KeyKind::Ed25519 => der::seq(&[der::oid("1.3.101.112")]),
        KeyKind::Rsa2048 | KeyKind::Rsa1024 | KeyKind::Rsa2047 | KeyKind::Rsa2040 => {
            let o = match digest {
                Digest::Sha256 => "1.2.840.113549.1.1.11",
                Digest::Sha384 => "1.2.840.113549.1.1.12",
                Digest::Sha512 => "1.2.840.113549.1.1.13",
                Digest::Sha1 => "1.2.840.113549.1.1.5",
                Digest::Md5 => "1.2.840.113549.1.1.4",
            };
            der::seq(&[der::oid(o), der::null()])
        }
        _ => {
            let o = match digest {
                Digest::Sha256 => "1.2.840.10045.4.3.2",
                Digest::Sha384 => "1.2.840.10045.4.3.3",
                Digest::Sha512 => "1.2.840.10045.4.3.4",
                Digest::Sha1 => "1.2.840.10045.4.1",
                Digest::Md5 => "1.2.840.10045.4.1",
            };
            der::seq(&[der::oid(o)])
        }
    }
}

// =====================================================================================================
// hierarchies
// =====================================================================================================
/// root -> inters[0] -> ... -> inters[n-1] -> ee   (depth = 1 + inters.len(); depth 0 = self-signed ee, no root)
#[derive(Clone)]
pub struct Hierarchy {
    pub root: Option<Cert>,
    pub inters: Vec<Cert>,
    pub ee: Cert,
}

impl Hierarchy {
    /// `tag` makes names (and RSA cache slots) unique; `ee_spec` is adjusted by the caller beforehand.
    pub fn build(tag: &str, depth: usize, kind: KeyKind, ee_spec: CertSpec) -> Hierarchy {
        Self::build_with(tag, depth, kind, kind, ee_spec)
    }
    pub fn build_with(tag: &str, depth: usize, ca_kind: KeyKind, ee_kind: KeyKind, ee_spec: CertSpec) -> Hierarchy {
        let ee_key = gen_key(ee_kind, &format!("{tag}-ee"));
        if depth == 0 {
            let ee = issue(&ee_spec, &ee_key, None);
            return Hierarchy { root: None, inters: vec![], ee };
        }
        let root_key = gen_key(ca_kind, &format!("{tag}-root"));
        let root = issue(&CertSpec::ca(&format!("{tag} Root CA"), None), &root_key, None);
        let mut inters: Vec<Cert> = vec![];
        for i in 1..depth {
            let k = gen_key(ca_kind, &format!("{tag}-int{i}"));
            let parent = inters.last().unwrap_or(&root).clone();
            let c = issue(&CertSpec::ca(&format!("{tag} Intermediate CA {i}"), Some((depth - 1 - i) as u32)), &k, Some(&parent));
            inters.push(c);
        }
        let parent = inters.last().unwrap_or(&root).clone();
        let ee = issue(&ee_spec, &ee_key, Some(&parent));
        Hierarchy { root: Some(root), inters, ee }
    }
    /// the certificate that issued the end-entity certificate
    pub fn ee_issuer(&self) -> Option<&Cert> {
        self.inters.last().or(self.root.as_ref())
    }
    /// complete chain as conveyed in x5chain: ee, intermediates bottom-up (root excluded unless asked)
    pub fn chain(&self, include_root: bool) -> Vec<Vec<u8>> {
        let mut v = vec![self.ee.der.clone()];
        for c in self.inters.iter().rev() {
            v.push(c.der.clone());
        }
        if include_root {
            if let Some(r) = &self.root {
                v.push(r.der.clone());
            }
        }
        v
    }
}

/// `openssl verify` as an independent judge of a chain: Ok(true) when OpenSSL (strict, partial chains allowed,
/// time check off) accepts `chain[0]` with `chain[1..]` as untrusted and `anchors` as trusted.
pub fn verify_cli(anchors: &[Vec<u8>], chain: &[Vec<u8>]) -> bool {
    let d = ok(tempfile::tempdir(), "tempdir");
    let p = d.path();
    let w = |n: &str, ders: &[Vec<u8>]| {
        let s: String = ders.iter().map(|x| pem_of(x)).collect();
        ok(std::fs::write(p.join(n), s), "write pem");
    };
    w("anchors.pem", anchors);
    w("ee.pem", &chain[..1]);
    let mut cmd = Command::new("openssl");
    cmd.current_dir(p).args(["verify", "-x509_strict", "-partial_chain", "-no_check_time", "-no-CApath", "-no-CAstore", "-CAfile", "anchors.pem"]);
    if chain.len() > 1 {
        w("untrusted.pem", &chain[1..]);
        cmd.args(["-untrusted", "untrusted.pem"]);
    }
    cmd.arg("ee.pem");
    match cmd.output() {
        Ok(o) => o.status.success(),
        Err(e) => machinery(format!("pki: cannot run openssl verify: {e}")),
    }
}

// =====================================================================================================
// signers
// =====================================================================================================
pub type TsaFn = Arc<dyn Fn(&[u8]) -> Option<c2pa::Result<Vec<u8>>> + Send + Sync>;

/// Raw signature in the form COSE expects (ECDSA as r||s, RSA-PSS, Ed25519).
pub fn cose_raw_sign(key: &Key, alg: SigningAlg, data: &[u8]) -> Result<Vec<u8>, String> {
    let e = |x: openssl::error::ErrorStack| x.to_string();
    match alg {
        SigningAlg::Ed25519 => {
            let mut s = OsslSigner::new_without_digest(&key.pkey).map_err(e)?;
            s.sign_oneshot_to_vec(data).map_err(e)
        }
        SigningAlg::Es256 | SigningAlg::Es384 | SigningAlg::Es512 => {
            let md = match alg {
                SigningAlg::Es256 => MessageDigest::sha256(),
                SigningAlg::Es384 => MessageDigest::sha384(),
                _ => MessageDigest::sha512(),
            };
            let mut s = OsslSigner::new(md, &key.pkey).map_err(e)?;
            s.update(data).map_err(e)?;
            let d = s.sign_to_vec().map_err(e)?;
            let sig = EcdsaSig::from_der(&d).map_err(e)?;
            let ec = key.pkey.ec_key().map_err(e)?;
            let n = (ec.group().degree() as usize).div_ceil(8) as i32;
            let mut out = sig.r().to_vec_padded(n).map_err(e)?;
            out.extend(sig.s().to_vec_padded(n).map_err(e)?);
            Ok(out)
        }
        SigningAlg::Ps256 | SigningAlg::Ps384 | SigningAlg::Ps512 => {
            let md = match alg {
                SigningAlg::Ps256 => MessageDigest::sha256(),
                SigningAlg::Ps384 => MessageDigest::sha384(),
                _ => MessageDigest::sha512(),
            };
            let mut s = OsslSigner::new(md, &key.pkey).map_err(e)?;
            s.set_rsa_padding(Padding::PKCS1_PSS).map_err(e)?;
            s.set_rsa_mgf1_md(md).map_err(e)?;
            s.set_rsa_pss_saltlen(RsaPssSaltlen::DIGEST_LENGTH).map_err(e)?;
            s.update(data).map_err(e)?;
            s.sign_to_vec().map_err(e)
        }
        #[allow(unreachable_patterns)]
        _ => Err("unsupported alg".into()),
    }
}

/// The kit's own signer. With `direct = true` it reports `direct_cose_handling()` and builds the whole COSE_Sign1
/// itself through the hook `cose_sign_unchecked` (no certificate pre-check, no verify-after-sign of the signer).
pub struct KitSigner {
    pub key: Key,
    pub alg: SigningAlg,
    /// DER certificates as put in x5chain (end-entity first)
    pub chain: Vec<Vec<u8>>,
    pub tsa: Option<TsaFn>,
    pub ocsp: Option<Vec<u8>>,
    pub direct: bool,
    /// time-stamp storage version used in direct mode (true = sigTst2, claim v2)
    pub v2: bool,
    /// every message passed to send_timestamp_request
    pub ts_messages: Mutex<Vec<Vec<u8>>>,
}

impl KitSigner {
    pub fn new(key: &Key, chain: Vec<Vec<u8>>) -> KitSigner {
        KitSigner { key: key.clone(), alg: key.kind.alg(), chain, tsa: None, ocsp: None, direct: false, v2: true, ts_messages: Mutex::new(vec![]) }
    }
    pub fn for_hierarchy(h: &Hierarchy) -> KitSigner {
        KitSigner::new(&h.ee.key, h.chain(false))
    }
    pub fn direct(mut self) -> KitSigner {
        self.direct = true;
        self
    }
    pub fn with_tsa(mut self, f: TsaFn) -> KitSigner {
        self.tsa = Some(f);
        self
    }
    pub fn with_ocsp(mut self, der: Vec<u8>) -> KitSigner {
        self.ocsp = Some(der);
        self
    }
    fn size(&self) -> usize {
        let certs: usize = self.chain.iter().map(|c| c.len()).sum();
        certs + 2048 + 600 + if self.tsa.is_some() { 9000 } else { 0 } + self.ocsp.as_ref().map_or(0, |o| o.len() + 64)
    }
}

struct RawView<'a>(&'a KitSigner);
impl Signer for RawView<'_> {
    fn sign(&self, data: &[u8]) -> c2pa::Result<Vec<u8>> {
        cose_raw_sign(&self.0.key, self.0.alg, data).map_err(|e| c2pa::Error::BadParam(format!("kit raw sign: {e}")))
    }
    fn alg(&self) -> SigningAlg {
        self.0.alg
    }
    fn certs(&self) -> c2pa::Result<Vec<Vec<u8>>> {
        Ok(self.0.chain.clone())
    }
    fn reserve_size(&self) -> usize {
        self.0.size()
    }
    fn send_timestamp_request(&self, message: &[u8]) -> Option<c2pa::Result<Vec<u8>>> {
        self.0.ts_messages.lock().unwrap_or_else(|e| e.into_inner()).push(message.to_vec());
        self.0.tsa.as_ref().and_then(|f| f(message))
    }
    fn ocsp_val(&self) -> Option<Vec<u8>> {
        self.0.ocsp.clone()
    }
}

impl Signer for KitSigner {
    fn sign(&self, data: &[u8]) -> c2pa::Result<Vec<u8>> {
        if self.direct {
            c2pa::verif_hooks::cose_sign_unchecked(&RawView(self), data, self.size(), self.v2)
        } else {
            RawView(self).sign(data)
        }
    }
    fn alg(&self) -> SigningAlg {
        self.alg
    }
    fn certs(&self) -> c2pa::Result<Vec<Vec<u8>>> {
        Ok(self.chain.clone())
    }
    fn reserve_size(&self) -> usize {
        self.size()
    }
    fn send_timestamp_request(&self, message: &[u8]) -> Option<c2pa::Result<Vec<u8>>> {
        RawView(self).send_timestamp_request(message)
    }
    fn ocsp_val(&self) -> Option<Vec<u8>> {
        self.ocsp.clone()
    }
    fn direct_cose_handling(&self) -> bool {
        self.direct
    }
}

/// Ordinary SDK signer over kit credentials (c2pa::create_signer::from_keys).
pub fn sdk_signer(key: &Key, chain: &[Vec<u8>]) -> Box<dyn Signer> {
    let pem: String = chain.iter().map(|d| pem_of(d)).collect();
    match c2pa::create_signer::from_keys(pem.as_bytes(), &key.private_pem(), key.kind.alg(), None) {
        Ok(s) => s,
        Err(e) => machinery(format!("pki: from_keys refused kit credentials: {e:?}")),
    }
}

/// Wrapper overriding the time-stamp and OCSP answers of any signer.
pub struct Wrap {
    pub inner: Box<dyn Signer>,
    pub tsa: Option<TsaFn>,
    pub ocsp: Option<Vec<u8>>,
}
unsafe impl Send for Wrap {}
unsafe impl Sync for Wrap {}
impl Signer for Wrap {
    fn sign(&self, data: &[u8]) -> c2pa::Result<Vec<u8>> {
        self.inner.sign(data)
    }
    fn alg(&self) -> SigningAlg {
        self.inner.alg()
    }
    fn certs(&self) -> c2pa::Result<Vec<Vec<u8>>> {
        self.inner.certs()
    }
    fn reserve_size(&self) -> usize {
        self.inner.reserve_size() + if self.tsa.is_some() { 10_000 } else { 0 } + self.ocsp.as_ref().map_or(0, |o| o.len() + 64)
    }
    fn send_timestamp_request(&self, message: &[u8]) -> Option<c2pa::Result<Vec<u8>>> {
        self.tsa.as_ref().and_then(|f| f(message))
    }
    fn ocsp_val(&self) -> Option<Vec<u8>> {
        self.ocsp.clone()
    }
}

// =====================================================================================================
// TSA (RFC 3161)
// =====================================================================================================
pub struct Tsa {
    pub root: Cert,
    pub cert: Cert,
}

#[derive(Clone, Debug)]
pub struct TokenOpts {
    pub gen_time: i64,
    /// signingTime signed attribute (OpenSSL always adds one = wall clock); None = attribute absent
    pub signing_time_attr: Option<i64>,
    pub serial: u64,
    pub include_certs: bool,
}

impl Tsa {
    /// TSA hierarchy root -> tsa certificate; `spec_mod` may adjust the TSA certificate (validity, EKU)
    pub fn new(tag: &str, kind: KeyKind, spec_mod: impl FnOnce(&mut CertSpec)) -> Tsa {
        let rk = gen_key(kind, &format!("{tag}-tsaroot"));
        let root = issue(&CertSpec::ca(&format!("{tag} TSA Root"), None), &rk, None);
        let k = gen_key(kind, &format!("{tag}-tsa"));
        let mut spec = CertSpec::tsa(&format!("{tag} TSA"));
        spec_mod(&mut spec);
        let cert = issue(&spec, &k, Some(&root));
        Tsa { root, cert }
    }

    /// `openssl ts -reply` for a DER TimeStampReq; returns the DER TimeStampResp.
    pub fn cli_reply(&self, query_der: &[u8]) -> Result<Vec<u8>, String> {
        let d = tempfile::tempdir().map_err(|e| e.to_string())?;
        let p = d.path();
        let w = |n: &str, b: &[u8]| std::fs::write(p.join(n), b).map_err(|e| e.to_string());
        w("q.tsq", query_der)?;
        w("tsa.pem", self.cert.pem().as_bytes())?;
        w("tsa.key", &self.cert.key.private_pem())?;
        w("chain.pem", self.root.pem().as_bytes())?;
        w("serial", format!("{:X}\n", next_serial()).as_bytes())?;
        let md = match self.cert.key.kind.default_digest() {
            Digest::Sha384 => "sha384",
            Digest::Sha512 => "sha512",
            _ => "sha256",
        };
        let cfg = format!(
            "[tsa]\ndefault_tsa = tsa1\n[tsa1]\ndir = .\nserial = $dir/serial\ncrypto_device = builtin\nsigner_cert = $dir/tsa.pem\ncerts = $dir/chain.pem\nsigner_key = $dir/tsa.key\nsigner_digest = {md}\ndefault_policy = 1.2.3.4.1\ndigests = sha256, sha384, sha512\naccuracy = secs:1\nordering = no\ntsa_name = no\ness_cert_id_chain = no\ness_cert_id_alg = sha256\n"
        );
        w("tsa.cnf", cfg.as_bytes())?;
        let o = Command::new("openssl")
            .current_dir(p)
            .args(["ts", "-reply", "-config", "tsa.cnf", "-section", "tsa1", "-queryfile", "q.tsq", "-out", "r.tsr"])
            .output()
            .map_err(|e| e.to_string())?;
        if !o.status.success() {
            return Err(format!("openssl ts -reply failed: {}", String::from_utf8_lossy(&o.stderr)));
        }
        std::fs::read(p.join("r.tsr")).map_err(|e| e.to_string())
    }

    /// TimeStampReq (DER) for a SHA-256 imprint, as `openssl ts -query` would produce it (cert requested, no nonce).
    pub fn query(imprint_sha256: &[u8]) -> Vec<u8> {
        der::seq(&[
            der::int(1),
            der::seq(&[der::seq(&[der::oid(Digest::Sha256.oid()), der::null()]), der::octet(imprint_sha256)]),
            der::tlv(0x01, &[0xFF]), // certReq TRUE
        ])
    }

    /// Own encoder: TimeStampResp (status granted) whose token carries `imprint` and the chosen genTime.
    pub fn build_reply(&self, imprint_sha256: &[u8], o: &TokenOpts) -> Vec<u8> {
        der::seq(&[der::seq(&[der::int(0)]), self.build_token(imprint_sha256, o)])
    }

    /// Own encoder: bare TimeStampToken (ContentInfo / SignedData).
    pub fn build_token(&self, imprint_sha256: &[u8], o: &TokenOpts) -> Vec<u8> {
        self.build_token_alg(Digest::Sha256.oid(), imprint_sha256, o)
    }

    /// TimeStampResp whose message imprint names an arbitrary hash algorithm (dotted OID) with the given hash value.
    pub fn build_reply_alg(&self, imprint_alg_oid: &str, imprint: &[u8], o: &TokenOpts) -> Vec<u8> {
        der::seq(&[der::seq(&[der::int(0)]), self.build_token_alg(imprint_alg_oid, imprint, o)])
    }

    pub fn build_token_alg(&self, imprint_alg_oid: &str, imprint_sha256: &[u8], o: &TokenOpts) -> Vec<u8> {
        let key = &self.cert.key;
        let dg = key.kind.default_digest();
        let dg_alg = der::seq(&[der::oid(dg.oid()), der::null()]);
        let tst = der::seq(&[
            der::int(1),
            der::oid("1.2.3.4.1"),
            der::seq(&[der::seq(&[der::oid(imprint_alg_oid), der::null()]), der::octet(imprint_sha256)]),
            der::int(o.serial),
            der::gentime(o.gen_time),
            der::seq(&[der::int(1)]), // accuracy 1 s
        ]);
        let tst_hash = ok(hash(dg.md(), &tst), "tst hash");
        let cert_hash = ok(hash(MessageDigest::sha256(), &self.cert.der), "cert hash");
        let attr = |oid: &str, val: Vec<u8>| der::seq(&[der::oid(oid), der::tlv(0x31, &val)]);
        let mut attrs = vec![
            attr("1.2.840.113549.1.9.3", der::oid("1.2.840.113549.1.9.16.1.4")), // contentType = id-ct-TSTInfo
            attr("1.2.840.113549.1.9.4", der::octet(&tst_hash)),                  // messageDigest
            // signingCertificateV2 { certs { ESSCertIDv2 { certHash (sha256 default) } } }
            attr("1.2.840.113549.1.9.16.2.47", der::seq(&[der::seq(&[der::seq(&[der::octet(&cert_hash)])])])),
        ];
        if let Some(t) = o.signing_time_attr {
            attrs.push(attr("1.2.840.113549.1.9.5", der::utctime(t)));
        }
        let signed_attrs_set = der::set_of(&attrs);
        let sig = sign_der_style(key, dg, &signed_attrs_set);
        let mut signed_attrs_ctx = signed_attrs_set.clone();
        signed_attrs_ctx[0] = 0xA0;
        let sig_alg = match key.kind {
            KeyKind::Rsa2048 | KeyKind::Rsa1024 | KeyKind::Rsa2047 | KeyKind::Rsa2040 => der::seq(&[der::oid("1.2.840.113549.1.1.1"), der::null()]),
            _ => sig_alg_id(key, dg),
        };
        let signer_info = der::seq(&[
            der::int(1),
            der::seq(&[self.cert.issuer_der(), self.cert.serial_der()]),
            dg_alg.clone(),
            signed_attrs_ctx,
            sig_alg,
            der::octet(&sig),
        ]);
        let mut sd = vec![
            der::int(3),
            der::tlv(0x31, &dg_alg),
            der::seq(&[der::oid("1.2.840.113549.1.9.16.1.4"), der::explicit(0, &der::octet(&tst))]),
        ];
        if o.include_certs {
            sd.push(der::tlv(0xA0, &der::cat(&[self.cert.der.clone(), self.root.der.clone()])));
        }
        sd.push(der::tlv(0x31, &signer_info));
        der::seq(&[der::oid("1.2.840.113549.1.7.2"), der::explicit(0, &der::seq(&sd))])
    }
}

/// (name, OID) of message-imprint hash algorithms the kit can compute (through OpenSSL's EVP by name).
pub const IMPRINT_ALGS: &[(&str, &str)] = &[
    ("sha1", "1.3.14.3.2.26"),
    ("sha224", "2.16.840.1.101.3.4.2.4"),
    ("sha256", "2.16.840.1.101.3.4.2.1"),
    ("sha384", "2.16.840.1.101.3.4.2.2"),
    ("sha512", "2.16.840.1.101.3.4.2.3"),
    ("sha512-256", "2.16.840.1.101.3.4.2.6"),
    ("sha3-256", "2.16.840.1.101.3.4.2.8"),
];

/// hash of `data` with a named algorithm; None when this OpenSSL does not offer it
pub fn hash_by_name(name: &str, data: &[u8]) -> Option<Vec<u8>> {
    let md = MessageDigest::from_name(name)?;
    hash(md, data).ok().map(|d| d.to_vec())
}

/// Extract the TimeStampToken (ContentInfo) from a TimeStampResp; None when `resp` is not a response with a token.
pub fn token_of_reply(resp: &[u8]) -> Option<Vec<u8>> {
    let top = der::read(resp, 0)?;
    if top.tag != 0x30 || top.end() != resp.len() {
        return None;
    }
    let ch = der::children(resp, &top)?;
    if ch.len() != 2 || ch[0].tag != 0x30 || ch[1].tag != 0x30 {
        return None;
    }
    // first child must be PKIStatusInfo (starts with INTEGER), not an OID (that would be a bare token)
    let first = der::read(resp, ch[0].cstart)?;
    if first.tag != 0x02 {
        return None;
    }
    Some(ch[1].whole(resp).to_vec())
}

/// Independent judge: `openssl ts -verify` of a bare token against a SHA-256 imprint and a CA file.
/// Ok(true)  = OpenSSL accepts (imprint matches, CMS signature verifies, TSA chain verifies for time-stamping),
/// Ok(false) = OpenSSL rejects. `attime`: verification time for the TSA chain (tokens dated in the past/future).
pub fn ts_verify_cli(token: &[u8], imprint_sha256: &[u8], ca: &[&Cert], attime: Option<i64>) -> bool {
    let d = ok(tempfile::tempdir(), "tempdir");
    let p = d.path();
    ok(std::fs::write(p.join("t.tst"), token), "write token");
    ok(std::fs::write(p.join("ca.pem"), pem_chain(ca)), "write ca");
    let hex: String = imprint_sha256.iter().map(|b| format!("{b:02x}")).collect();
    let mut cmd = Command::new("openssl");
    cmd.current_dir(p).args(["ts", "-verify", "-digest", &hex, "-in", "t.tst", "-token_in", "-CAfile", "ca.pem"]);
    if let Some(t) = attime {
        cmd.args(["-attime", &t.to_string()]);
    }
    match cmd.output() {
        Ok(o) => {
            let good = o.status.success() && String::from_utf8_lossy(&o.stdout).contains("Verification: OK");
            if !good && std::env::var("VERIF_DEBUG").is_ok() {
                eprintln!("ts -verify: {} {}\ntoken(b64): {}", String::from_utf8_lossy(&o.stdout), String::from_utf8_lossy(&o.stderr), b64(token));
            }
            good
        }
        Err(e) => machinery(format!("pki: cannot run openssl ts -verify: {e}")),
    }
}

// =====================================================================================================
// OCSP
// =====================================================================================================
#[derive(Clone, Debug, PartialEq)]
pub enum OcspStatus {
    Good,
    /// revocation time, optional CRL reason
    Revoked(i64, Option<u8>),
    Unknown,
}

pub struct OcspOpts<'a> {
    /// certificate the response is about and its issuer (CertID is computed from these)
    pub subject: &'a Cert,
    pub subject_issuer: &'a Cert,
    pub status: OcspStatus,
    pub this_update: i64,
    pub next_update: Option<i64>,
    pub produced_at: i64,
    /// responder certificate (its key signs); when it is the CA itself pass the CA certificate
    pub responder: &'a Cert,
    /// certificates embedded in the response, in this order (SDK uses the first as the signer)
    pub embed: Vec<&'a Cert>,
    pub by_key: bool,
}

pub fn cert_id(subject: &Cert, issuer: &Cert) -> Vec<u8> {
    let name_hash = ok(hash(MessageDigest::sha1(), &issuer.subject_der()), "name hash");
    let key_hash = ok(hash(MessageDigest::sha1(), &issuer.key.public_bits()), "key hash");
    der::seq(&[
        der::seq(&[der::oid(Digest::Sha1.oid()), der::null()]),
        der::octet(&name_hash),
        der::octet(&key_hash),
        subject.serial_der(),
    ])
}

/// Own encoder: DER OCSPResponse (successful, id-pkix-ocsp-basic).
pub fn build_ocsp(o: &OcspOpts) -> Vec<u8> {
    build_ocsp_multi(o, &[])
}

/// Like `build_ocsp`, with further SingleResponses: (subject, issuer, status, placed before the main entry?).
pub fn build_ocsp_multi(o: &OcspOpts, more: &[(&Cert, &Cert, OcspStatus, bool)]) -> Vec<u8> {
    let one = |subject: &Cert, issuer: &Cert, st: &OcspStatus| -> Vec<u8> {
        let status = match st {
            OcspStatus::Good => der::tlv(0x80, &[]),
            OcspStatus::Unknown => der::tlv(0x82, &[]),
            OcspStatus::Revoked(t, reason) => {
                let mut c = der::gentime(*t);
                if let Some(r) = reason {
                    c.extend(der::explicit(0, &der::enumerated(*r)));
                }
                der::tlv(0xA1, &c)
            }
        };
        let mut single = vec![cert_id(subject, issuer), status, der::gentime(o.this_update)];
        if let Some(n) = o.next_update {
            single.push(der::explicit(0, &der::gentime(n)));
        }
        der::seq(&single)
    };
    let mut entries: Vec<Vec<u8>> = more.iter().filter(|m| m.3).map(|m| one(m.0, m.1, &m.2)).collect();
    entries.push(one(o.subject, o.subject_issuer, &o.status));
    entries.extend(more.iter().filter(|m| !m.3).map(|m| one(m.0, m.1, &m.2)));
    let status = match &o.status {
        OcspStatus::Good => der::tlv(0x80, &[]),
        OcspStatus::Unknown => der::tlv(0x82, &[]),
        OcspStatus::Revoked(t, reason) => {
            let mut c = der::gentime(*t);
            if let Some(r) = reason {
                c.extend(der::explicit(0, &der::enumerated(*r)));
            }
            der::tlv(0xA1, &c)
        }
    };
    let mut single = vec![cert_id(o.subject, o.subject_issuer), status, der::gentime(o.this_update)];
    if let Some(n) = o.next_update {
        single.push(der::explicit(0, &der::gentime(n)));
    }
    let responder_id = if o.by_key {
        der::explicit(2, &der::octet(&ok(hash(MessageDigest::sha1(), &o.responder.key.public_bits()), "rid")))
    } else {
        der::explicit(1, &o.responder.subject_der())
    };
    let _ = single;
    let tbs = der::seq(&[responder_id, der::gentime(o.produced_at), der::seq(&entries)]);
    let key = &o.responder.key;
    let dg = key.kind.default_digest();
    let sig = sign_der_style(key, dg, &tbs);
    let mut basic = vec![tbs, sig_alg_id(key, dg), der::bitstring(&sig)];
    if !o.embed.is_empty() {
        let certs: Vec<Vec<u8>> = o.embed.iter().map(|c| c.der.clone()).collect();
        basic.push(der::explicit(0, &der::seq(&certs)));
    }
    der::seq(&[
        der::enumerated(0),
        der::explicit(0, &der::seq(&[der::oid("1.3.6.1.5.5.7.48.1.1"), der::octet(&der::seq(&basic))])),
    ])
}

/// `openssl ocsp` responder over an index file: mint a response about `subject` (issued by `ca`) signed by
/// `responder`. `status` Unknown = the serial is not in the index. Times are the CLI's (now, now + ndays).
pub fn ocsp_cli(ca: &Cert, subject: &Cert, responder: &Cert, status: &OcspStatus, ndays: u32) -> Result<Vec<u8>, String> {
    let d = tempfile::tempdir().map_err(|e| e.to_string())?;
    let p = d.path();
    let w = |n: &str, b: &[u8]| std::fs::write(p.join(n), b).map_err(|e| e.to_string());
    w("ca.pem", ca.pem().as_bytes())?;
    w("ee.pem", subject.pem().as_bytes())?;
    w("resp.pem", responder.pem().as_bytes())?;
    w("resp.key", &responder.key.private_pem())?;
    let exp = &der::time_string(subject.spec.not_after)[2..];
    let serial = format!("{:X}", subject.spec.serial);
    let serial = if serial.len() % 2 == 1 { format!("0{serial}") } else { serial };
    let subj = format!("/C=US/O={}/CN={}", subject.spec.org, subject.spec.cn);
    let line = match status {
        OcspStatus::Good => format!("V\t{exp}\t\t{serial}\tunknown\t{subj}\n"),
        OcspStatus::Revoked(t, r) => {
            let rt = &der::time_string(*t)[2..];
            let reason = match r {
                Some(1) => ",keyCompromise",
                Some(4) => ",superseded",
                Some(6) => ",certificateHold",
                _ => "",
            };
            format!("R\t{exp}\t{rt}{reason}\t{serial}\tunknown\t{subj}\n")
        }
        OcspStatus::Unknown => String::new(),
    };
    w("index.txt", line.as_bytes())?;
    let o = Command::new("openssl")
        .current_dir(p)
        .args(["ocsp", "-issuer", "ca.pem", "-cert", "ee.pem", "-no_nonce", "-reqout", "req.der"])
        .output()
        .map_err(|e| e.to_string())?;
    if !o.status.success() {
        return Err(format!("openssl ocsp -reqout failed: {}", String::from_utf8_lossy(&o.stderr)));
    }
    let o = Command::new("openssl")
        .current_dir(p)
        .args(["ocsp", "-index", "index.txt", "-CA", "ca.pem", "-rsigner", "resp.pem", "-rkey", "resp.key", "-reqin", "req.der", "-respout", "resp.der", "-ndays", &ndays.to_string()])
        .output()
        .map_err(|e| e.to_string())?;
    if !o.status.success() {
        return Err(format!("openssl ocsp responder failed: {}", String::from_utf8_lossy(&o.stderr)));
    }
    std::fs::read(p.join("resp.der")).map_err(|e| e.to_string())
}

/// Independent judge: does OpenSSL accept the response signature and responder authorisation, with `anchors`
/// trusted and `untrusted` available for path building? (status/time checks of the response itself are skipped with
/// a generous validity period so that only signature + responder chain decide). Returns false for anything
/// OpenSSL cannot parse.
pub fn ocsp_verify_cli(resp: &[u8], anchors: &[&Cert], untrusted: &[&Cert]) -> bool {
    let d = ok(tempfile::tempdir(), "tempdir");
    let p = d.path();
    ok(std::fs::write(p.join("r.der"), resp), "write resp");
    ok(std::fs::write(p.join("ca.pem"), pem_chain(anchors)), "write anchors");
    let mut cmd = Command::new("openssl");
    cmd.current_dir(p).args(["ocsp", "-respin", "r.der", "-CAfile", "ca.pem", "-no-CApath", "-no-CAstore", "-partial_chain", "-no_check_time"]);
    if !untrusted.is_empty() {
        ok(std::fs::write(p.join("un.pem"), pem_chain(untrusted)), "write untrusted");
        cmd.args(["-verify_other", "un.pem"]);
    }
    match cmd.output() {
        Ok(o) => {
            let err = String::from_utf8_lossy(&o.stderr);
            o.status.success() && err.contains("Response verify OK")
        }
        Err(e) => machinery(format!("pki: cannot run openssl ocsp: {e}")),
    }
}

/// true when the `openssl` CLI is present
pub fn cli_available() -> bool {
    Command::new("openssl").arg("version").output().map(|o| o.status.success()).unwrap_or(false)
}

/// Find `needle` in `hay` (first occurrence).
pub fn find(hay: &[u8], needle: &[u8]) -> Option<usize> {
    if needle.is_empty() || needle.len() > hay.len() {
        return None;
    }
    hay.windows(needle.len()).position(|w| w == needle)
}

pub fn sha256(b: &[u8]) -> Vec<u8> {
    ok(hash(MessageDigest::sha256(), b), "sha256").to_vec()
}

// =====================================================================================================
// reader observation helpers shared by C05/C06/C36/C37
// =====================================================================================================
#[derive(Clone, Debug, PartialEq)]
pub struct Obs {
    /// "Valid" | "Trusted" | "Invalid" | "Err(<kind>)"
    pub state: String,
    /// sorted "<path>/<bin>:<code>" strings (kit::canon::codes)
    pub codes: Vec<String>,
    /// signing time reported for the active manifest
    pub time: Option<String>,
}

impl Obs {
    pub fn ok_state(&self) -> bool {
        self.state == "Valid" || self.state == "Trusted"
    }
    /// any status of the active manifest in `bin` ("success" | "informational" | "failure") whose code starts with `prefix`
    pub fn has(&self, bin: &str, prefix: &str) -> bool {
        let pat = format!("/activeManifest/{bin}:");
        self.codes.iter().any(|c| c.starts_with(&pat) && c[pat.len()..].starts_with(prefix))
    }
    pub fn any(&self, prefix: &str) -> bool {
        ["success", "informational", "failure"].iter().any(|b| self.has(b, prefix))
    }
    /// the codes with the given prefix, bins included, for outcome classes
    pub fn pick(&self, prefixes: &[&str]) -> Vec<String> {
        let mut v: Vec<String> = self
            .codes
            .iter()
            .filter_map(|c| c.strip_prefix("/activeManifest/"))
            .filter(|c| prefixes.iter().any(|p| c.split(':').nth(1).is_some_and(|x| x.starts_with(p))))
            .map(|s| s.to_string())
            .collect();
        v.dedup();
        v
    }
    pub fn class(&self) -> String {
        format!("{} {:?}{}", self.state, self.pick(&["signingCredential", "timeStamp"]), if self.time.is_some() { " time" } else { "" })
    }
}

/// Read `bytes` under `ctx`; a panic of the SDK is returned as Err(message).
pub fn observe(ctx: c2pa::Context, mime: &str, bytes: &[u8]) -> Result<Obs, String> {
    crate::par::guard(|| match crate::sdk::read(ctx, mime, bytes) {
        Ok(r) => Obs {
            state: crate::sdk::state_name(r.validation_state()).to_string(),
            codes: crate::canon::codes(&r),
            time: r.active_manifest().and_then(|m| m.signature_info()).and_then(|s| s.time.clone()),
        },
        Err(e) => Obs { state: format!("Err({})", crate::sdk::err_kind(&e)), codes: vec![], time: None },
    })
}

/// Reading context: BASE_SETTINGS + {"trust": trust, "verify": verify}
pub fn read_ctx(trust: serde_json::Value, verify: serde_json::Value) -> c2pa::Context {
    let s = serde_json::json!({"trust": trust, "verify": verify}).to_string();
    crate::sdk::ctx_with(&[&s])
}

/// Sign `asset` with `signer` (no verify-after-sign, no thumbnails); Err(text) if the SDK refuses.
pub fn sign_asset(signer: &dyn Signer, mime: &str, asset: &[u8], definition: &str) -> Result<Vec<u8>, String> {
    let ctx = crate::sdk::ctx_with(&[r#"{"verify":{"verify_after_sign":false}}"#]);
    let mut b = crate::sdk::builder(ctx, definition);
    match crate::par::guard(|| crate::sdk::sign(&mut b, signer, mime, asset)) {
        Ok(Ok((bytes, _))) => Ok(bytes),
        Ok(Err(e)) => Err(format!("{e:?}")),
        Err(p) => Err(format!("PANIC {p}")),
    }
}

pub const DEF_V2: &str = r#"{"title":"t","claim_generator_info":[{"name":"kit","version":"1"}]}"#;
pub const DEF_V1: &str = r#"{"title":"t","claim_version":1,"claim_generator_info":[{"name":"kit","version":"1"}]}"#;

// =====================================================================================================
// token anatomy + in-process OpenSSL CMS judge (C36)
// =====================================================================================================
/// In-process OpenSSL judge of "the CMS signature verifies" (signer certificate taken from the token, no chain
/// validation): returns the encapsulated content when CMS_verify succeeds.
pub fn cms_verify_inproc(token: &[u8]) -> Option<Vec<u8>> {
    use openssl::cms::{CMSOptions, CmsContentInfo};
    let mut cms = CmsContentInfo::from_der(token).ok()?;
    let mut out = vec![];
    cms.verify(None, None, None, Some(&mut out), CMSOptions::NO_SIGNER_CERT_VERIFY | CMSOptions::BINARY).ok()?;
    Some(out)
}

/// messageImprint.hashedMessage of a DER TSTInfo
pub fn tst_imprint(tst: &[u8]) -> Option<Vec<u8>> {
    let top = der::read(tst, 0)?;
    let ch = der::children(tst, &top)?;
    let mi = ch.get(2)?;
    let mich = der::children(tst, mi)?;
    Some(mich.get(1)?.content(tst).to_vec())
}

/// Byte ranges (start, end, name) of a well-formed TimeStampToken whose alteration makes the token invalid by
/// construction: the encapsulated TSTInfo (bound by the messageDigest attribute), the signed attributes, the
/// signature value, the signer identifier, the SignerInfo digest algorithm and the signer certificate's public key.
/// Everything else (wrappers, versions, the digestAlgorithms set, other certificate bytes) is returned as gaps.
pub fn token_regions(token: &[u8], signer_cert_der: &[u8]) -> Option<Vec<(usize, usize, &'static str)>> {
    let ci = der::read(token, 0)?;
    let cich = der::children(token, &ci)?;
    let sd_wrap = cich.get(1)?; // [0]
    let sd = der::read(token, sd_wrap.cstart)?;
    let sdch = der::children(token, &sd)?;
    let mut v: Vec<(usize, usize, &'static str)> = vec![];
    // encapContentInfo
    let eci = sdch.get(2)?;
    let ecich = der::children(token, eci)?;
    let ec_wrap = ecich.get(1)?;
    let os = der::read(token, ec_wrap.cstart)?;
    v.push((os.start, os.end(), "tstinfo"));
    // signer certificate SPKI
    if let Some(pos) = find(token, signer_cert_der) {
        let cert = der::read(token, pos)?;
        let cch = der::children(token, &cert)?;
        let tbs = cch.first()?;
        let f = der::children(token, tbs)?;
        let spki = f.get(6)?;
        let (ks, ke) = key_material(token, spki)?;
        v.push((ks, ke, "signer-key"));
    }
    // signerInfos
    let sis = sdch.last()?;
    let si = der::read(token, sis.cstart)?;
    let sich = der::children(token, &si)?;
    let names = ["si-version", "sid", "digest-alg", "signed-attrs", "sig-alg", "signature"];
    for (t, n) in sich.iter().zip(names.iter()) {
        if matches!(*n, "sid" | "signed-attrs" | "signature") {
            v.push((t.start, t.end(), n));
        }
        if *n == "digest-alg" {
            // only the OID: verifiers ignore the (NULL) parameters
            let oid = der::read(token, t.cstart)?;
            v.push((oid.start, oid.end(), "digest-alg-oid"));
        }
    }
    v.sort();
    Some(v)
}

/// Bytes of a SubjectPublicKeyInfo that are key material proper: the EC point coordinates (after the unused-bits
/// and point-format bytes) or the RSA modulus value; for Ed25519 the 32 key bytes.
pub fn key_material(buf: &[u8], spki: &der::Tlv) -> Option<(usize, usize)> {
    let ch = der::children(buf, spki)?;
    let alg = der::children(buf, ch.first()?)?;
    let alg_oid = alg.first()?.content(buf).to_vec();
    let bits = ch.get(1)?;
    let rsa = der::oid("1.2.840.113549.1.1.1");
    let ec = der::oid("1.2.840.10045.2.1");
    if alg_oid == rsa[2..] {
        let seq = der::read(buf, bits.cstart + 1)?;
        let n = der::children(buf, &seq)?;
        let m = n.first()?;
        Some((m.cstart, m.end()))
    } else if alg_oid == ec[2..] {
        Some((bits.cstart + 2, bits.end()))
    } else {
        Some((bits.cstart + 1, bits.end()))
    }
}

pub fn region_of(regions: &[(usize, usize, &'static str)], off: usize) -> Option<(&'static str, usize)> {
    regions.iter().find(|(s, e, _)| off >= *s && off < *e).map(|(s, _, n)| (*n, off - s))
}

// =====================================================================================================
// OCSP response anatomy + in-process OpenSSL judge (C37)
// =====================================================================================================
/// Byte ranges of a well-formed OCSP response whose alteration breaks the response signature by construction:
/// tbsResponseData, signatureAlgorithm, signature, and the public key of the (first) embedded responder certificate.
pub fn ocsp_regions(resp: &[u8]) -> Option<Vec<(usize, usize, &'static str)>> {
    let top = der::read(resp, 0)?;
    let ch = der::children(resp, &top)?;
    let rb_wrap = ch.get(1)?; // [0]
    let rb = der::read(resp, rb_wrap.cstart)?;
    let rbch = der::children(resp, &rb)?;
    let os = rbch.get(1)?; // OCTET STRING holding BasicOCSPResponse
    let basic = der::read(resp, os.cstart)?;
    let bch = der::children(resp, &basic)?;
    let mut v = vec![
        (bch.first()?.start, bch.first()?.end(), "tbs-response-data"),
        {
            let oid = der::read(resp, bch.get(1)?.cstart)?;
            (oid.start, oid.end(), "sig-alg-oid")
        },
        // signature value proper (after the BIT STRING header and its unused-bits byte)
        (bch.get(2)?.cstart + 1, bch.get(2)?.end(), "signature"),
    ];
    if let Some(certs_wrap) = bch.get(3) {
        let seq = der::read(resp, certs_wrap.cstart)?;
        let certs = der::children(resp, &seq)?;
        let cert = certs.first()?;
        let cch = der::children(resp, cert)?;
        let f = der::children(resp, cch.first()?)?;
        let spki = f.get(6)?;
        let (ks, ke) = key_material(resp, spki)?;
        v.push((ks, ke, "responder-key"));
    }
    v.sort();
    Some(v)
}

/// In-process OpenSSL judge: does OCSP_basic_verify accept the response with `anchors` trusted and `untrusted`
/// available for path building? false for anything OpenSSL cannot parse.
pub fn ocsp_verify_inproc(resp: &[u8], anchors: &[&Cert], untrusted: &[&Cert]) -> bool {
    use openssl::{ocsp::{OcspFlag, OcspResponse}, stack::Stack, x509::store::X509StoreBuilder};
    let Ok(r) = OcspResponse::from_der(resp) else { return false };
    let Ok(basic) = r.basic() else { return false };
    let Ok(mut sb) = X509StoreBuilder::new() else { return false };
    for a in anchors {
        let _ = sb.add_cert(a.x509.clone());
    }
    let _ = sb.set_flags(openssl::x509::verify::X509VerifyFlags::PARTIAL_CHAIN);
    let store = sb.build();
    let Ok(mut st) = Stack::new() else { return false };
    for u in untrusted {
        let _ = st.push(u.x509.clone());
    }
    basic.verify(&st, &store, OcspFlag::empty()).is_ok()
}

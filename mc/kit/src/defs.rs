//! Small-scope generator of manifest definitions (DESIGN.md C03) and a tiny executor for the async API.
//!
//! Owned by group H; used by C03, C15, C22, C39, C40.
//!
//! Generator: every subset of a MENU of 6 user assertions (labels exercising `.`, `__`, a trailing
//! version-like component, `-`/`_`/upper case and a 200-character label; CBOR and JSON kinds; the
//! string payload lengths 23, 24, 255, 256, 65535, 65536 sit on both sides of every CBOR length
//! boundary) x explicit thumbnail on/off x 0..2 ingredients x 0..2 user actions = 1152 definitions.
//! No floats anywhere (JSON<->CBOR round trips of floats are outside the stated alphabet).

use std::{
    future::Future,
    io::Cursor,
    pin::Pin,
    sync::{
        atomic::{AtomicUsize, Ordering},
        OnceLock,
    },
    task::{Context as TaskCx, Poll, Waker},
};

use c2pa::{AsyncSigner, Builder, Signer, SigningAlg};
use serde_json::{json, Value};

// ------------------------------------------------------------------------------------------------
// menu
// ------------------------------------------------------------------------------------------------

#[derive(Clone, Copy, Debug, PartialEq, Eq)]
pub enum Kind {
    Cbor,
    Json,
}

#[derive(Clone, Debug)]
pub struct MenuItem {
    pub label: String,
    pub kind: Kind,
    /// length (in bytes == chars, ASCII) of the string member "s" of the payload
    pub size: usize,
}

pub fn menu() -> Vec<MenuItem> {
    let long = format!("org.verif.long.{}", "x".repeat(16 * 11 + 9)); // 200 characters
    vec![
        MenuItem { label: "org.verif.plain".into(), kind: Kind::Cbor, size: 23 },
        MenuItem { label: "org.verif.dotted.a.b.c".into(), kind: Kind::Json, size: 24 },
        MenuItem { label: "org.verif.under__score".into(), kind: Kind::Cbor, size: 255 },
        MenuItem { label: "org.verif.thing.v2".into(), kind: Kind::Json, size: 256 },
        MenuItem { label: long, kind: Kind::Cbor, size: 65535 },
        MenuItem { label: "org.verif.UPPER-dash_1".into(), kind: Kind::Json, size: 65536 },
    ]
}

/// Payload of a user assertion whose string member has exactly `n` bytes. Integers, booleans, nested
/// containers and non-ASCII text are present; floats are not.
pub fn payload(n: usize, salt: usize) -> Value {
    let s: String = (0..n).map(|i| (b'a' + ((i + salt) % 26) as u8) as char).collect();
    json!({"s": s, "n": 42, "neg": -7, "u": "\u{fc}\u{2713} q\"uote\\", "list": [1, 2, 3], "nested": {"k": true, "z": null}})
}

pub const TITLE: &str = "T \u{fc}\u{2713} \"quoted\" /slash\\ title";
pub const GEN_NAME: &str = "verif kit";
pub const GEN_VERSION: &str = "1.2.3";

// ------------------------------------------------------------------------------------------------
// definitions
// ------------------------------------------------------------------------------------------------

#[derive(Clone, Debug, PartialEq, Eq)]
pub struct Def {
    /// bit i set = MENU item i present
    pub mask: u8,
    pub thumbnail: bool,
    /// 0..=2
    pub ingredients: u8,
    /// 0..=2
    pub actions: u8,
    /// optional extra assertion (kind, string length) used by the size sweeps
    pub extra: Option<(Kind, usize)>,
}

pub const EXTRA_LABEL: &str = "org.verif.sweep";

impl Def {
    pub fn empty() -> Def {
        Def { mask: 0, thumbnail: false, ingredients: 0, actions: 0, extra: None }
    }

    pub fn full() -> Def {
        Def { mask: 0x3f, thumbnail: true, ingredients: 2, actions: 2, extra: None }
    }

    /// Two small user assertions (one CBOR, one JSON; plain labels), thumbnail, 2 ingredients, 2 actions.
    pub fn rich() -> Def {
        Def { mask: 0b000011, thumbnail: true, ingredients: 2, actions: 2, extra: None }
    }

    pub fn sweep(kind: Kind, n: usize) -> Def {
        Def { extra: Some((kind, n)), ..Def::empty() }
    }

    pub fn id(&self) -> String {
        let e = match self.extra {
            None => String::new(),
            Some((Kind::Cbor, n)) => format!(" x=cbor:{n}"),
            Some((Kind::Json, n)) => format!(" x=json:{n}"),
        };
        format!("m={:06b} t={} i={} a={}{}", self.mask, self.thumbnail as u8, self.ingredients, self.actions, e)
    }

    pub fn to_json(&self) -> Value {
        json!({"mask": self.mask, "thumbnail": self.thumbnail, "ingredients": self.ingredients, "actions": self.actions,
               "extra": self.extra.map(|(k, n)| json!({"kind": if k == Kind::Cbor {"cbor"} else {"json"}, "n": n}))})
    }

    pub fn from_json(v: &Value) -> Def {
        Def {
            mask: v["mask"].as_u64().unwrap_or(0) as u8,
            thumbnail: v["thumbnail"].as_bool().unwrap_or(false),
            ingredients: v["ingredients"].as_u64().unwrap_or(0) as u8,
            actions: v["actions"].as_u64().unwrap_or(0) as u8,
            extra: if v["extra"].is_object() {
                Some((if v["extra"]["kind"] == "json" { Kind::Json } else { Kind::Cbor }, v["extra"]["n"].as_u64().unwrap_or(0) as usize))
            } else {
                None
            },
        }
    }

    /// The user assertions this definition supplies: (label, kind, data).
    pub fn user_assertions(&self) -> Vec<(String, Kind, Value)> {
        let mut v = vec![];
        for (i, m) in menu().into_iter().enumerate() {
            if self.mask & (1 << i) != 0 {
                v.push((m.label.clone(), m.kind, payload(m.size, i)));
            }
        }
        if let Some((k, n)) = self.extra {
            v.push((EXTRA_LABEL.to_string(), k, payload(n, 7)));
        }
        v
    }

    /// The user actions this definition supplies (in order).
    pub fn user_actions(&self) -> Vec<Value> {
        let all = [
            json!({"action": "c2pa.color_adjustments", "parameters": {"description": "brightness \u{fc}"}}),
            json!({"action": "c2pa.resized", "parameters": {"description": "half"}}),
        ];
        all[..self.actions.min(2) as usize].to_vec()
    }

    /// (ingredient json, mime, bytes, title, relationship) of the supplied ingredients.
    pub fn ingredient_inputs(&self, claim_version: u8) -> Vec<IngredientInput> {
        let mut v = vec![];
        if self.ingredients >= 1 {
            v.push(IngredientInput {
                title: "ing-1 unsigned.png".into(),
                relationship: "componentOf",
                mime: "image/png",
                data: crate::assets::png(),
                signed: false,
            });
        }
        if self.ingredients >= 2 {
            v.push(IngredientInput {
                title: "ing-2 signed.jpg".into(),
                relationship: "inputTo",
                mime: "image/jpeg",
                // a v1 claim cannot carry an ingredient whose manifest is a v2 claim ("ingredient version too new")
                data: if claim_version < 2 { signed_jpeg_v1().clone() } else { signed_jpeg().clone() },
                signed: true,
            });
        }
        v
    }

    /// The manifest definition JSON.
    pub fn definition(&self, claim_version: u8, hash_alg: Option<&str>) -> Value {
        let mut assertions: Vec<Value> = vec![];
        let acts = self.user_actions();
        if !acts.is_empty() {
            assertions.push(json!({"label": "c2pa.actions.v2", "data": {"actions": acts}}));
        }
        for (label, kind, data) in self.user_assertions() {
            match kind {
                Kind::Cbor => assertions.push(json!({"label": label, "data": data})),
                Kind::Json => assertions.push(json!({"label": label, "data": data, "kind": "Json"})),
            }
        }
        let mut d = json!({
            "title": TITLE,
            "claim_generator_info": [{"name": GEN_NAME, "version": GEN_VERSION}],
            "claim_version": claim_version,
            "assertions": assertions,
        });
        if let Some(a) = hash_alg {
            d["hash_alg"] = json!(a);
        }
        d
    }

    /// Adds the parts that are not expressible in the definition JSON (thumbnail bytes, ingredient streams).
    pub fn apply(&self, b: &mut Builder, claim_version: u8) -> c2pa::Result<()> {
        if self.thumbnail {
            b.set_thumbnail("image/png", &mut Cursor::new(thumbnail_bytes()))?;
        }
        for ing in self.ingredient_inputs(claim_version) {
            b.add_ingredient_from_stream(ing.json(), ing.mime, &mut Cursor::new(ing.data.clone()))?;
        }
        Ok(())
    }

    /// Same as `apply`, through the async twin of add_ingredient_from_stream.
    pub async fn apply_async(&self, b: &mut Builder, claim_version: u8) -> c2pa::Result<()> {
        if self.thumbnail {
            b.set_thumbnail("image/png", &mut Cursor::new(thumbnail_bytes()))?;
        }
        for ing in self.ingredient_inputs(claim_version) {
            b.add_ingredient_from_stream_async(ing.json(), ing.mime, &mut Cursor::new(ing.data.clone()))
                .await?;
        }
        Ok(())
    }
}

#[derive(Clone, Debug)]
pub struct IngredientInput {
    pub title: String,
    pub relationship: &'static str,
    pub mime: &'static str,
    pub data: Vec<u8>,
    pub signed: bool,
}

impl IngredientInput {
    pub fn json(&self) -> String {
        json!({"title": self.title, "relationship": self.relationship}).to_string()
    }
}

/// The explicit thumbnail: the kit PNG with an extra text chunk so it differs from the ingredient PNG.
pub fn thumbnail_bytes() -> Vec<u8> {
    let base = crate::assets::png();
    let iend = base.len() - 12;
    let mut v = base[..iend].to_vec();
    v.extend(crate::assets::png_chunk(b"tEXt", b"Comment\0thumbnail"));
    v.extend_from_slice(&base[iend..]);
    v
}

/// A kit JPEG signed once (Ed25519, simple definition); used as the signed ingredient.
pub fn signed_jpeg() -> &'static Vec<u8> {
    static S: OnceLock<Vec<u8>> = OnceLock::new();
    S.get_or_init(|| {
        let signer = crate::sdk::fixture_signer("ed25519");
        crate::sdk::sign_simple(signer.as_ref(), "image/jpeg", &crate::assets::jpeg(), &[])
    })
}

/// The kit JPEG signed with a version 1 claim.
pub fn signed_jpeg_v1() -> &'static Vec<u8> {
    static S: OnceLock<Vec<u8>> = OnceLock::new();
    S.get_or_init(|| {
        let signer = crate::sdk::fixture_signer("ed25519");
        let mut b = crate::sdk::builder(crate::sdk::ctx(), r#"{"title":"t","claim_version":1,"claim_generator_info":[{"name":"kit","version":"1"}]}"#);
        match crate::sdk::sign(&mut b, signer.as_ref(), "image/jpeg", &crate::assets::jpeg()) {
            Ok((out, _)) => out,
            Err(e) => crate::ev::machinery(format!("v1 seed signing failed: {e:?}")),
        }
    })
}

/// All 64 x 2 x 3 x 3 = 1152 definitions.
pub fn all_defs() -> Vec<Def> {
    let mut v = vec![];
    for mask in 0u8..64 {
        for thumbnail in [false, true] {
            for ingredients in 0u8..3 {
                for actions in 0u8..3 {
                    v.push(Def { mask, thumbnail, ingredients, actions, extra: None });
                }
            }
        }
    }
    v
}

/// Eight definitions: empty, each menu item alone (with thumbnail / ingredient / action counts rotating), and everything.
pub fn core_defs() -> Vec<Def> {
    let mut v = vec![Def::empty()];
    for i in 0..6u8 {
        v.push(Def { mask: 1 << i, thumbnail: i % 2 == 1, ingredients: i % 3, actions: (i / 2) % 3, extra: None });
    }
    v.push(Def::full());
    v
}

/// String lengths around every CBOR length boundary (contiguous windows).
pub fn sweep_lengths(wide: bool) -> Vec<usize> {
    let mut v: Vec<usize> = vec![];
    if wide {
        v.extend(0..=300);
        v.extend(65_400..=65_700);
    } else {
        v.extend(0..=40);
        v.extend(236..=270);
        v.extend(65_500..=65_560);
    }
    v
}

/// Remove the `hash` member of every hashed URI ({url, hash}) in a report: those hashes cover assertion boxes that
/// contain fresh random instance ids, so they differ between two executions of the same case.
pub fn strip_hashes(v: &mut Value) {
    match v {
        Value::Object(m) => {
            if m.contains_key("url") && m.contains_key("hash") {
                m.remove("hash");
            }
            for (_, x) in m.iter_mut() {
                strip_hashes(x);
            }
        }
        Value::Array(a) => a.iter_mut().for_each(strip_hashes),
        _ => {}
    }
}

const ID_PREFIXES: [&str; 5] = ["urn:c2pa:", "urn:uuid:", "xmp:iid:", "xmp.iid:", "xmp:did:"];

/// Split `s` into (literal, id token) pieces: every `urn:c2pa:<uuid..>` / `urn:uuid:` / `xmp:iid:` / `xmp:did:` token.
fn id_tokens(s: &str) -> Vec<(String, Option<String>)> {
    let mut out = vec![];
    let mut rest = s;
    loop {
        let idx = ID_PREFIXES.iter().filter_map(|p| rest.find(p).map(|i| (i, p.len()))).min();
        match idx {
            None => {
                out.push((rest.to_string(), None));
                return out;
            }
            Some((i, plen)) => {
                let tail = &rest[i..];
                let end = tail[plen..].find(|c: char| !(c.is_ascii_hexdigit() || c == '-')).map(|e| e + plen).unwrap_or(tail.len());
                out.push((rest[..i].to_string(), Some(tail[..end].to_string())));
                rest = &tail[end..];
            }
        }
    }
}

fn has_id(s: &str) -> bool {
    ID_PREFIXES.iter().any(|p| s.contains(p))
}

struct Namer(Vec<String>);
impl Namer {
    fn register(&mut self, s: &str) {
        for (_, t) in id_tokens(s) {
            if let Some(t) = t {
                if !self.0.contains(&t) {
                    self.0.push(t);
                }
            }
        }
    }
    fn all_named(&self, s: &str) -> bool {
        id_tokens(s).into_iter().all(|(_, t)| t.map(|t| self.0.contains(&t)).unwrap_or(true))
    }
    fn rename(&self, s: &str, mask: bool) -> String {
        let mut o = String::new();
        for (lit, t) in id_tokens(s) {
            o.push_str(&lit);
            if let Some(t) = t {
                match self.0.iter().position(|x| *x == t) {
                    Some(i) if !mask => o.push_str(&format!("<id{i}>")),
                    _ => o.push_str("<id>"),
                }
            }
        }
        o
    }
    /// Name ids in a traversal whose order does not depend on the ids themselves: plain keys in sorted order; id-keyed
    /// map entries in the order in which their key became known (worklist), leftovers by id-masked content.
    fn walk(&mut self, v: &Value) {
        match v {
            Value::String(s) => self.register(s),
            Value::Array(a) => a.iter().for_each(|x| self.walk(x)),
            Value::Object(m) => {
                let mut plain: Vec<&String> = m.keys().filter(|k| !has_id(k)).collect();
                plain.sort();
                for k in plain {
                    self.walk(&m[k]);
                }
                let mut todo: Vec<&String> = m.keys().filter(|k| has_id(k)).collect();
                while !todo.is_empty() {
                    let named: Option<usize> = todo
                        .iter()
                        .enumerate()
                        .filter(|(_, k)| self.all_named(k))
                        .min_by_key(|(_, k)| self.rename(k, false))
                        .map(|(i, _)| i);
                    let pick = named.unwrap_or_else(|| {
                        let masker = Namer(vec![]);
                        todo.iter()
                            .enumerate()
                            .min_by_key(|(_, k)| masker.rename(&serde_json::to_string(&m[**k]).unwrap_or_default(), true))
                            .map(|(i, _)| i)
                            .unwrap_or(0)
                    });
                    let k = todo.remove(pick);
                    self.register(k);
                    self.walk(&m[k]);
                }
            }
            _ => {}
        }
    }
    fn apply(&self, v: &Value) -> Value {
        match v {
            Value::String(s) => Value::String(self.rename(s, false)),
            Value::Array(a) => {
                let mut out: Vec<Value> = a.iter().map(|x| self.apply(x)).collect();
                if !out.is_empty() && out.iter().all(|x| x.get("code").is_some()) {
                    out.sort_by_key(crate::canon::stable);
                }
                Value::Array(out)
            }
            Value::Object(m) => {
                let mut entries: Vec<(String, Value)> = m
                    .iter()
                    .filter(|(k, _)| *k != "validation_time" && *k != "validationTime")
                    .map(|(k, x)| (self.rename(k, false), self.apply(x)))
                    .collect();
                entries.sort_by(|a, b| a.0.cmp(&b.0));
                Value::Object(entries.into_iter().collect())
            }
            x => x.clone(),
        }
    }
}

/// Rename manifest labels / instance ids to indices in an order that does not depend on the (random) ids:
/// `v["json"]["active_manifest"]` is <id0>, the rest in traversal order (see Namer::walk). Object keys sorted, status
/// arrays sorted, validation time dropped.
pub fn rename_ids(v: &Value) -> Value {
    let mut n = Namer(vec![]);
    if let Some(a) = v["json"]["active_manifest"].as_str() {
        n.register(a);
    }
    n.walk(v);
    n.apply(v)
}

/// Canonical report: Reader::json + detailed_json + state, hashed-URI hashes removed, ids renamed deterministically.
pub fn view(rd: &c2pa::Reader) -> Value {
    let j: Value = serde_json::from_str(&rd.json()).unwrap_or(Value::Null);
    let d: Value = serde_json::from_str(&rd.detailed_json()).unwrap_or(Value::Null);
    let mut v = json!({"json": j, "detailed": d, "state": crate::sdk::state_name(rd.validation_state())});
    strip_hashes(&mut v);
    rename_ids(&v)
}

/// Debug aid: histogram of violation keys (printed with VERIF_DEBUG set). Not part of the evidence.
#[derive(Default)]
pub struct KeyStats(std::sync::Mutex<std::collections::BTreeMap<String, (u64, String)>>);
impl KeyStats {
    pub fn add(&self, key: &str, what: &str) {
        let mut g = self.0.lock().unwrap_or_else(|e| e.into_inner());
        let e = g.entry(key.to_string()).or_insert((0, what.chars().take(400).collect()));
        e.0 += 1;
    }
    /// Record a violation, but hand at most `max` cases per key to the Run (the evidence writer keeps 2000 violations in
    /// total; without this a single frequent finding would crowd out rarer ones). All cases are counted, see `finish`.
    pub fn violation(&self, run: &crate::Run, max: u64, key: String, what: String, case: Value) {
        let n = {
            let mut g = self.0.lock().unwrap_or_else(|e| e.into_inner());
            let e = g.entry(key.clone()).or_insert((0, what.chars().take(400).collect()));
            e.0 += 1;
            e.0
        };
        if n <= max {
            run.violation(key, what, case);
        }
    }

    /// Write the per-key case counts into the evidence (`violation_cases_per_key`) and print them with VERIF_DEBUG.
    pub fn finish(&self, run: &crate::Run, title: &str) {
        let m: serde_json::Map<String, Value> = {
            let g = self.0.lock().unwrap_or_else(|e| e.into_inner());
            g.iter().map(|(k, v)| (k.clone(), json!(v.0))).collect()
        };
        run.extra("violation_cases_per_key", Value::Object(m));
        self.dump(title);
    }

    pub fn dump(&self, title: &str) {
        if std::env::var("VERIF_DEBUG").is_err() {
            return;
        }
        let g = self.0.lock().unwrap_or_else(|e| e.into_inner());
        eprintln!("---- {title}: {} distinct keys", g.len());
        for (k, (n, w)) in g.iter() {
            eprintln!("{n:6}  {k}\n          e.g. {w}");
        }
    }
}

// ------------------------------------------------------------------------------------------------
// executor
// ------------------------------------------------------------------------------------------------

/// Drive a future to completion on the calling thread (no reactor: every Pending must have woken itself).
/// Returns the output and the number of times the future returned Pending.
pub fn block_on_counting<F: Future>(f: F) -> (F::Output, usize) {
    let mut f = std::pin::pin!(f);
    let mut cx = TaskCx::from_waker(Waker::noop());
    let mut pendings = 0usize;
    loop {
        match f.as_mut().poll(&mut cx) {
            Poll::Ready(v) => return (v, pendings),
            Poll::Pending => {
                pendings += 1;
                if pendings > 1_000_000 {
                    crate::ev::machinery("block_on: future stays Pending (a real reactor would be needed)");
                }
            }
        }
    }
}

pub fn block_on<F: Future>(f: F) -> F::Output {
    block_on_counting(f).0
}

/// Future that returns Pending exactly once (after waking itself).
pub struct YieldOnce(bool);
impl YieldOnce {
    pub fn new() -> Self {
        YieldOnce(false)
    }
}
impl Default for YieldOnce {
    fn default() -> Self {
        Self::new()
    }
}
impl Future for YieldOnce {
    type Output = ();
    fn poll(mut self: Pin<&mut Self>, cx: &mut TaskCx<'_>) -> Poll<()> {
        if self.0 {
            Poll::Ready(())
        } else {
            self.0 = true;
            cx.waker().wake_by_ref();
            Poll::Pending
        }
    }
}

/// AsyncSigner over a sync signer. Every asynchronous trait method (sign, ocsp_val, send_timestamp_request) is an
/// "await point"; points are numbered in call order. When `pend_at == Some(k)` the k-th await point returns
/// Pending once before completing (deviation bound 1).
pub struct AsyncWrap {
    pub inner: Box<dyn Signer + Send + Sync>,
    pub pend_at: Option<usize>,
    pub points: AtomicUsize,
    pub pended: AtomicUsize,
    pub reserve_extra: usize,
    /// same meaning as FaultySigner::fault
    pub fault: u8,
}

/// Sync signer with an optional fault: 0 = none, 1 = one bit of every signature flipped, 2 = sign returns an error.
pub struct FaultySigner {
    pub inner: Box<dyn Signer + Send + Sync>,
    pub fault: u8,
}

fn faulty_sign(inner: &dyn Signer, fault: u8, data: &[u8]) -> c2pa::Result<Vec<u8>> {
    match fault {
        0 => inner.sign(data),
        1 => {
            let mut s = inner.sign(data)?;
            let n = s.len();
            if n > 0 {
                s[n / 2] ^= 0x40;
            }
            Ok(s)
        }
        _ => Err(c2pa::Error::BadParam("verif: signer refuses".to_string())),
    }
}

impl Signer for FaultySigner {
    fn sign(&self, data: &[u8]) -> c2pa::Result<Vec<u8>> {
        faulty_sign(self.inner.as_ref(), self.fault, data)
    }
    fn alg(&self) -> SigningAlg {
        self.inner.alg()
    }
    fn certs(&self) -> c2pa::Result<Vec<Vec<u8>>> {
        self.inner.certs()
    }
    fn reserve_size(&self) -> usize {
        self.inner.reserve_size()
    }
}

impl AsyncWrap {
    pub fn new(inner: Box<dyn Signer + Send + Sync>, pend_at: Option<usize>) -> Self {
        AsyncWrap { inner, pend_at, points: AtomicUsize::new(0), pended: AtomicUsize::new(0), reserve_extra: 0, fault: 0 }
    }

    pub fn points_seen(&self) -> usize {
        self.points.load(Ordering::SeqCst)
    }

    pub fn pended(&self) -> usize {
        self.pended.load(Ordering::SeqCst)
    }

    async fn point(&self) {
        let k = self.points.fetch_add(1, Ordering::SeqCst);
        if self.pend_at == Some(k) {
            self.pended.fetch_add(1, Ordering::SeqCst);
            YieldOnce::new().await;
        }
    }
}

#[async_trait::async_trait]
impl AsyncSigner for AsyncWrap {
    async fn sign(&self, data: Vec<u8>) -> c2pa::Result<Vec<u8>> {
        self.point().await;
        faulty_sign(self.inner.as_ref(), self.fault, &data)
    }

    fn alg(&self) -> SigningAlg {
        self.inner.alg()
    }

    fn certs(&self) -> c2pa::Result<Vec<Vec<u8>>> {
        self.inner.certs()
    }

    fn reserve_size(&self) -> usize {
        self.inner.reserve_size() + self.reserve_extra
    }

    fn time_authority_url(&self) -> Option<String> {
        self.inner.time_authority_url()
    }

    async fn send_timestamp_request(&self, message: &[u8]) -> Option<c2pa::Result<Vec<u8>>> {
        self.point().await;
        self.inner.send_timestamp_request(message)
    }

    async fn ocsp_val(&self) -> Option<Vec<u8>> {
        self.point().await;
        self.inner.ocsp_val()
    }
}

// ------------------------------------------------------------------------------------------------
// independent JUMBF walker (used to compare manifest superboxes byte-wise)
// ------------------------------------------------------------------------------------------------

/// Children (label, whole box bytes) of the top-level `c2pa` superbox of a manifest store.
/// Independent of the SDK: ISO BMFF box framing + JUMBF description box label.
pub fn manifest_boxes(store: &[u8]) -> Result<Vec<(String, Vec<u8>)>, String> {
    let (t, body, _) = read_box(store, 0)?;
    if &t != b"jumb" {
        return Err(format!("top box is {:?}", String::from_utf8_lossy(&t)));
    }
    let mut out = vec![];
    let mut pos = 0usize;
    let mut first = true;
    while pos < body.len() {
        let (ct, cbody, clen) = read_box(body, pos)?;
        if first {
            if &ct != b"jumd" {
                return Err("superbox does not start with jumd".into());
            }
            first = false;
        } else if &ct == b"jumb" {
            // label from the child's description box
            let (dt, dbody, _) = read_box(cbody, 0)?;
            if &dt != b"jumd" {
                return Err("child superbox without jumd".into());
            }
            out.push((jumd_label(dbody), body[pos..pos + clen].to_vec()));
        }
        pos += clen;
    }
    Ok(out)
}

fn jumd_label(jumd: &[u8]) -> String {
    // 16 byte type uuid, 1 byte toggles, optional zero-terminated label
    if jumd.len() < 17 || jumd[16] & 0x02 == 0 {
        return String::new();
    }
    let rest = &jumd[17..];
    let end = rest.iter().position(|b| *b == 0).unwrap_or(rest.len());
    String::from_utf8_lossy(&rest[..end]).to_string()
}

/// (type, body, total length) of the box at `pos`.
fn read_box(data: &[u8], pos: usize) -> Result<([u8; 4], &[u8], usize), String> {
    if data.len() < pos + 8 {
        return Err("truncated box header".into());
    }
    let size = u32::from_be_bytes([data[pos], data[pos + 1], data[pos + 2], data[pos + 3]]) as usize;
    let t = [data[pos + 4], data[pos + 5], data[pos + 6], data[pos + 7]];
    let (hdr, total) = match size {
        0 => (8usize, data.len() - pos),
        1 => {
            if data.len() < pos + 16 {
                return Err("truncated large box header".into());
            }
            let mut b = [0u8; 8];
            b.copy_from_slice(&data[pos + 8..pos + 16]);
            (16usize, u64::from_be_bytes(b) as usize)
        }
        n => (8usize, n),
    };
    if total < hdr || data.len() < pos + total {
        return Err(format!("box at {pos} has size {total} beyond its container"));
    }
    Ok((t, &data[pos + hdr..pos + total], total))
}

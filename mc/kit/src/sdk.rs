//! Thin convenience layer over the public SDK API used by many properties.

use std::io::Cursor;

use c2pa::{Builder, BuilderIntent, Context, Reader, Signer, SigningAlg, ValidationState};

pub const FIXTURES: &str = "/repo/sdk/tests/fixtures";

pub const ALGS: [(&str, SigningAlg); 7] = [
    ("ed25519", SigningAlg::Ed25519),
    ("es256", SigningAlg::Es256),
    ("es384", SigningAlg::Es384),
    ("es512", SigningAlg::Es512),
    ("ps256", SigningAlg::Ps256),
    ("ps384", SigningAlg::Ps384),
    ("ps512", SigningAlg::Ps512),
];

pub fn fixture(path: &str) -> Vec<u8> {
    let p = format!("{FIXTURES}/{path}");
    std::fs::read(&p).unwrap_or_else(|e| crate::ev::machinery(format!("cannot read {p}: {e}")))
}

/// (cert chain PEM, private key PEM) of the repository's test credentials.
pub fn fixture_keys(alg: &str) -> (Vec<u8>, Vec<u8>) {
    (
        fixture(&format!("certs/{alg}.pub")),
        fixture(&format!("certs/{alg}.pem")),
    )
}

/// Signer over the repository's test credentials (no TSA).
pub fn fixture_signer(alg: &str) -> Box<dyn Signer + Send + Sync> {
    let a = ALGS
        .iter()
        .find(|(n, _)| *n == alg)
        .unwrap_or_else(|| crate::ev::machinery(format!("unknown alg {alg}")))
        .1;
    let (c, k) = fixture_keys(alg);
    let s = c2pa::create_signer::from_keys(&c, &k, a, None)
        .unwrap_or_else(|e| crate::ev::machinery(format!("fixture signer {alg}: {e:?}")));
    // from_keys returns Box<dyn Signer>; the concrete raw signers are Send+Sync
    Box::new(SendSigner(s))
}

pub struct SendSigner(pub Box<dyn Signer>);
// The SDK's own signers are plain data + OpenSSL keys; the SDK requires Send+Sync of context signers.
unsafe impl Send for SendSigner {}
unsafe impl Sync for SendSigner {}
impl Signer for SendSigner {
    fn sign(&self, data: &[u8]) -> c2pa::Result<Vec<u8>> {
        self.0.sign(data)
    }
    fn alg(&self) -> SigningAlg {
        self.0.alg()
    }
    fn certs(&self) -> c2pa::Result<Vec<Vec<u8>>> {
        self.0.certs()
    }
    fn reserve_size(&self) -> usize {
        self.0.reserve_size()
    }
    fn time_authority_url(&self) -> Option<String> {
        self.0.time_authority_url()
    }
    fn ocsp_val(&self) -> Option<Vec<u8>> {
        self.0.ocsp_val()
    }
}

/// A signer wrapper that overrides the reported reserve size.
pub struct ReserveSigner<'a> {
    pub inner: &'a dyn Signer,
    pub reserve: usize,
}
impl Signer for ReserveSigner<'_> {
    fn sign(&self, data: &[u8]) -> c2pa::Result<Vec<u8>> {
        self.inner.sign(data)
    }
    fn alg(&self) -> SigningAlg {
        self.inner.alg()
    }
    fn certs(&self) -> c2pa::Result<Vec<Vec<u8>>> {
        self.inner.certs()
    }
    fn reserve_size(&self) -> usize {
        self.reserve
    }
}

/// Base settings: no thumbnails, no network, trust verification off unless asked.
pub const BASE_SETTINGS: &str = r#"{"builder":{"thumbnail":{"enabled":false}},"verify":{"ocsp_fetch":false,"remote_manifest_fetch":false}}"#;

pub fn ctx() -> Context {
    ctx_with(&[])
}

/// Context with BASE_SETTINGS overlaid by each JSON document in `extra`.
/// `Context::with_settings` REPLACES the settings, so the documents are deep-merged first
/// (objects merged recursively, everything else replaced) and applied in one call.
pub fn ctx_with(extra: &[&str]) -> Context {
    let merged = merged_settings(extra);
    Context::new()
        .with_settings(merged.as_str())
        .unwrap_or_else(|e| crate::ev::machinery(format!("settings {merged} rejected: {e:?}")))
}

/// BASE_SETTINGS deep-merged with each JSON document of `extra`, as a JSON string.
pub fn merged_settings(extra: &[&str]) -> String {
    fn merge(a: &mut serde_json::Value, b: serde_json::Value) {
        match (a, b) {
            (serde_json::Value::Object(a), serde_json::Value::Object(b)) => {
                for (k, v) in b {
                    merge(a.entry(k).or_insert(serde_json::Value::Null), v);
                }
            }
            (a, b) => *a = b,
        }
    }
    let mut v: serde_json::Value = serde_json::from_str(BASE_SETTINGS).unwrap();
    for e in extra {
        let x: serde_json::Value = serde_json::from_str(e)
            .unwrap_or_else(|er| crate::ev::machinery(format!("settings {e} is not JSON: {er}")));
        merge(&mut v, x);
    }
    v.to_string()
}

pub fn builder(ctx: Context, definition: &str) -> Builder {
    let mut b = Builder::from_context(ctx)
        .with_definition(definition)
        .unwrap_or_else(|e| crate::ev::machinery(format!("definition rejected: {e:?}")));
    b.set_intent(BuilderIntent::Edit);
    b
}

/// Sign `data` and return the signed asset bytes.
pub fn sign(
    b: &mut Builder,
    signer: &dyn Signer,
    mime: &str,
    data: &[u8],
) -> c2pa::Result<(Vec<u8>, Vec<u8>)> {
    let mut dst = Cursor::new(Vec::new());
    let manifest = b.sign(signer, mime, &mut Cursor::new(data), &mut dst)?;
    Ok((dst.into_inner(), manifest))
}

/// Sign a kit asset with default definition/context; machinery failure if that does not work.
pub fn sign_simple(signer: &dyn Signer, mime: &str, data: &[u8], settings: &[&str]) -> Vec<u8> {
    let mut b = builder(ctx_with(settings), r#"{"title":"t","claim_generator_info":[{"name":"kit","version":"1"}]}"#);
    match sign(&mut b, signer, mime, data) {
        Ok((out, _)) => out,
        Err(e) => crate::ev::machinery(format!("seed signing failed for {mime}: {e:?}")),
    }
}

pub fn read(ctx: Context, mime: &str, data: &[u8]) -> c2pa::Result<Reader> {
    Reader::from_context(ctx).with_stream(mime, Cursor::new(data))
}

pub fn state_name(s: ValidationState) -> &'static str {
    match s {
        ValidationState::Invalid => "Invalid",
        ValidationState::Valid => "Valid",
        ValidationState::Trusted => "Trusted",
    }
}

/// Short error class: the variant name of a c2pa::Error.
pub fn err_kind(e: &c2pa::Error) -> String {
    let d = format!("{e:?}");
    d.split(|c: char| !(c.is_alphanumeric() || c == '_'))
        .next()
        .unwrap_or("")
        .to_string()
}

//! Group B helpers for the tamper-evidence checks (C01, C02, C11, C21).
//!
//! * `Edit` — one contiguous byte edit of a signed file (replace `[start,end)` by `rep`).
//! * small, bounds-checked, SDK-independent container walkers (JPEG, PNG, GIF, ISO-BMFF/JPEG XL, RIFF)
//!   and a JUMBF box walker; they return `None` on anything they do not understand (never panic).
//! * `Binding` — what the *signed* hard binding declares excluded, and its literal resolution on
//!   an arbitrary byte string (DataHash ranges, the C2PA box of a BoxHash, BMFF exclusion xpaths).
//! * `observe` — one guarded read of (possibly hostile) bytes.
//!
//! Nothing in here calls the SDK function it helps to judge: the walkers are written from the
//! container specifications, the only SDK calls are `Reader` (the subject) and `Builder` (seeds).

use std::{cell::RefCell, collections::HashMap, io::Cursor, sync::Arc};

use c2pa::{Context, Reader};
use serde_json::{json, Value};

use crate::{par, sdk};

// ------------------------------------------------------------------------------------------------
// edits

/// One contiguous edit, realised on a concrete signed file. `sym` is a symbolic description that does not
/// depend on the random parts of the file (labels, hashes, signature), so that a recorded case can be re-applied
/// to a freshly signed seed: a replay re-enumerates the edits of the seed and picks the one with the same `sym`.
#[derive(Clone, Debug, PartialEq)]
pub struct Edit {
    /// class of the edit (used in violation keys)
    pub kind: &'static str,
    pub start: usize,
    pub end: usize,
    pub rep: Vec<u8>,
    pub sym: String,
}

impl Edit {
    pub fn flip(f: &[u8], p: usize, mask: u8) -> Edit {
        Edit { kind: "flip", start: p, end: p + 1, rep: vec![f[p] ^ mask], sym: format!("xor p={p} mask={mask:02x}") }
    }
    pub fn delete(p: usize) -> Edit {
        Edit { kind: "delete", start: p, end: p + 1, rep: vec![], sym: format!("delete p={p}") }
    }
    pub fn insert(p: usize, b: u8) -> Edit {
        Edit { kind: "insert", start: p, end: p, rep: vec![b], sym: format!("insert p={p} byte={b:02x}") }
    }
    /// insert a copy of the byte that follows
    pub fn insert_copy(f: &[u8], p: usize) -> Edit {
        Edit { kind: "insert", start: p, end: p, rep: vec![f[p]], sym: format!("insert p={p} byte=copy-of-next") }
    }
    pub fn truncate(f: &[u8], len: usize) -> Edit {
        Edit { kind: "truncate", start: len, end: f.len(), rep: vec![], sym: format!("truncate len={len}") }
    }
    pub fn append(f: &[u8], bytes: Vec<u8>, kind: &'static str, sym: String) -> Edit {
        Edit { kind, start: f.len(), end: f.len(), rep: bytes, sym }
    }
    pub fn splice(kind: &'static str, start: usize, end: usize, rep: Vec<u8>, sym: String) -> Edit {
        Edit { kind, start, end, rep, sym }
    }
    pub fn apply(&self, f: &[u8]) -> Vec<u8> {
        let mut v = Vec::with_capacity(f.len() + self.rep.len());
        v.extend_from_slice(&f[..self.start]);
        v.extend_from_slice(&self.rep);
        v.extend_from_slice(&f[self.end..]);
        v
    }
    pub fn to_json(&self) -> Value {
        json!(self.sym)
    }
}

/// First differing offset between a file and its mutant (= len of the shorter when one is a prefix of the other).
pub fn first_diff(a: &[u8], b: &[u8]) -> usize {
    a.iter().zip(b.iter()).position(|(x, y)| x != y).unwrap_or(a.len().min(b.len()))
}

// ------------------------------------------------------------------------------------------------
// walkers

#[derive(Clone, Debug, PartialEq)]
pub struct Unit {
    pub start: usize,
    pub end: usize,
    pub name: String,
}

fn be16(d: &[u8], p: usize) -> Option<usize> {
    Some(u16::from_be_bytes(d.get(p..p + 2)?.try_into().ok()?) as usize)
}
fn be32(d: &[u8], p: usize) -> Option<usize> {
    Some(u32::from_be_bytes(d.get(p..p.checked_add(4)?)?.try_into().ok()?) as usize)
}
fn be64(d: &[u8], p: usize) -> Option<u64> {
    Some(u64::from_be_bytes(d.get(p..p.checked_add(8)?)?.try_into().ok()?))
}
fn le32(d: &[u8], p: usize) -> Option<usize> {
    Some(u32::from_le_bytes(d.get(p..p.checked_add(4)?)?.try_into().ok()?) as usize)
}
fn ascii(b: &[u8]) -> String {
    b.iter().map(|c| if c.is_ascii_graphic() { *c as char } else if *c == b' ' { '_' } else { '?' }).collect()
}

/// Container family of a kit asset / MIME type (which walker applies).
pub fn family(mime: &str) -> &'static str {
    match mime {
        "image/jpeg" => "jpeg",
        "image/png" => "png",
        "image/gif" => "gif",
        "audio/wav" | "image/webp" | "video/avi" => "riff",
        "video/mp4" | "image/heic" | "video/quicktime" | "image/avif" | "image/heif" => "bmff",
        "image/jxl" => "jxl",
        "image/tiff" => "tiff",
        "image/svg+xml" => "svg",
        "audio/mpeg" => "mp3",
        "audio/flac" => "flac",
        "application/c2pa" => "c2pa",
        _ => "other",
    }
}

/// Top-level structural units of a container; `None` if the bytes are not understood.
pub fn walk(family: &str, d: &[u8]) -> Option<Vec<Unit>> {
    match family {
        "jpeg" => walk_jpeg(d),
        "png" => walk_png(d),
        "gif" => walk_gif(d),
        "bmff" | "jxl" => walk_boxes(d, 0, d.len()),
        "riff" => walk_riff(d),
        _ => None,
    }
}

pub fn walk_jpeg(d: &[u8]) -> Option<Vec<Unit>> {
    if d.len() < 4 || d[0] != 0xFF || d[1] != 0xD8 {
        return None;
    }
    let mut u = vec![Unit { start: 0, end: 2, name: "SOI".into() }];
    let mut p = 2;
    loop {
        if p + 2 > d.len() || d[p] != 0xFF {
            return None;
        }
        let m = d[p + 1];
        match m {
            0xD9 => {
                u.push(Unit { start: p, end: p + 2, name: "EOI".into() });
                if p + 2 < d.len() {
                    u.push(Unit { start: p + 2, end: d.len(), name: "trailing".into() });
                }
                return Some(u);
            }
            0xD0..=0xD7 | 0x01 => {
                u.push(Unit { start: p, end: p + 2, name: format!("M{m:02X}") });
                p += 2;
            }
            0xFF | 0x00 | 0xD8 => return None,
            _ => {
                let l = be16(d, p + 2)?;
                if l < 2 || p + 2 + l > d.len() {
                    return None;
                }
                let name = match m {
                    0xE0..=0xEF => format!("APP{}", m - 0xE0),
                    0xDB => "DQT".into(),
                    0xC4 => "DHT".into(),
                    0xDA => "SOS".into(),
                    0xFE => "COM".into(),
                    0xDD => "DRI".into(),
                    0xC0..=0xCF => format!("SOF{}", m - 0xC0),
                    _ => format!("M{m:02X}"),
                };
                let mut end = p + 2 + l;
                if m == 0xDA {
                    // entropy coded data up to the next marker that is neither a stuffed FF00 nor RSTn
                    while end < d.len() {
                        if d[end] == 0xFF && end + 1 < d.len() {
                            let n = d[end + 1];
                            if n != 0x00 && !(0xD0..=0xD7).contains(&n) && n != 0xFF {
                                break;
                            }
                        }
                        end += 1;
                    }
                }
                u.push(Unit { start: p, end, name });
                p = end;
            }
        }
    }
}

pub fn walk_png(d: &[u8]) -> Option<Vec<Unit>> {
    if d.len() < 8 || d[..8] != [0x89, b'P', b'N', b'G', 0x0D, 0x0A, 0x1A, 0x0A] {
        return None;
    }
    let mut u = vec![Unit { start: 0, end: 8, name: "PNGh".into() }];
    let mut p = 8;
    while p < d.len() {
        let l = be32(d, p)?;
        let end = p.checked_add(12)?.checked_add(l)?;
        if end > d.len() {
            return None;
        }
        let name = ascii(&d[p + 4..p + 8]);
        let is_end = &d[p + 4..p + 8] == b"IEND";
        u.push(Unit { start: p, end, name });
        p = end;
        if is_end {
            if p < d.len() {
                u.push(Unit { start: p, end: d.len(), name: "trailing".into() });
            }
            return Some(u);
        }
    }
    None // no IEND
}

fn gif_sub_blocks(d: &[u8], mut p: usize) -> Option<usize> {
    loop {
        let n = *d.get(p)? as usize;
        p += 1;
        if n == 0 {
            return Some(p);
        }
        p = p.checked_add(n)?;
        if p > d.len() {
            return None;
        }
    }
}

pub fn walk_gif(d: &[u8]) -> Option<Vec<Unit>> {
    if d.len() < 13 || &d[..3] != b"GIF" {
        return None;
    }
    let mut u = vec![Unit { start: 0, end: 6, name: "header".into() }];
    let flags = d[10];
    let mut p = 13;
    if flags & 0x80 != 0 {
        p += 3 * (1usize << ((flags & 7) + 1));
    }
    if p > d.len() {
        return None;
    }
    u.push(Unit { start: 6, end: p, name: "LSD".into() });
    loop {
        let b = *d.get(p)?;
        match b {
            0x3B => {
                u.push(Unit { start: p, end: p + 1, name: "trailer".into() });
                if p + 1 < d.len() {
                    u.push(Unit { start: p + 1, end: d.len(), name: "trailing".into() });
                }
                return Some(u);
            }
            0x21 => {
                let label = *d.get(p + 1)?;
                let end = gif_sub_blocks(d, p + 2)?;
                let name = match label {
                    0xFF => {
                        if d.get(p + 2) == Some(&0x0B) && d.get(p + 3..p + 11) == Some(&b"C2PA_GIF"[..]) {
                            "app:C2PA".to_string()
                        } else {
                            "app".to_string()
                        }
                    }
                    0xFE => "comment".into(),
                    0xF9 => "gce".into(),
                    0x01 => "plaintext".into(),
                    x => format!("ext{x:02X}"),
                };
                u.push(Unit { start: p, end, name });
                p = end;
            }
            0x2C => {
                let f = *d.get(p + 9)?;
                let mut q = p + 10;
                if f & 0x80 != 0 {
                    q += 3 * (1usize << ((f & 7) + 1));
                }
                q += 1; // LZW minimum code size
                let end = gif_sub_blocks(d, q)?;
                u.push(Unit { start: p, end, name: "image".into() });
                p = end;
            }
            _ => return None,
        }
    }
}

/// ISO-BMFF style boxes in `d[from..to)`.
pub fn walk_boxes(d: &[u8], from: usize, to: usize) -> Option<Vec<Unit>> {
    let mut u = vec![];
    let mut p = from;
    if to > d.len() {
        return None;
    }
    while p < to {
        let s = be32(d, p)?;
        if p + 8 > to {
            return None;
        }
        let name = ascii(&d[p + 4..p + 8]);
        let size: usize = match s {
            0 => to - p,
            1 => {
                let l = be64(d, p + 8)?;
                if l < 16 {
                    return None;
                }
                usize::try_from(l).ok()?
            }
            2..=7 => return None,
            n => n,
        };
        let end = p.checked_add(size)?;
        if end > to {
            return None;
        }
        u.push(Unit { start: p, end, name });
        p = end;
    }
    Some(u)
}

pub fn walk_riff(d: &[u8]) -> Option<Vec<Unit>> {
    if d.len() < 12 || &d[..4] != b"RIFF" {
        return None;
    }
    let sz = le32(d, 4)?;
    let end_riff = 8usize.checked_add(sz)?;
    if end_riff > d.len() || sz < 4 {
        return None;
    }
    let mut u = vec![Unit { start: 0, end: 12, name: "RIFFh".into() }];
    let mut p = 12;
    while p < end_riff {
        let l = le32(d, p + 4)?;
        let mut end = p.checked_add(8)?.checked_add(l)?;
        if l % 2 == 1 {
            end += 1;
        }
        if end > end_riff {
            return None;
        }
        u.push(Unit { start: p, end, name: ascii(&d[p..p + 4]) });
        p = end;
    }
    if end_riff < d.len() {
        u.push(Unit { start: end_riff, end: d.len(), name: "trailing".into() });
    }
    Some(u)
}

pub const C2PA_UUID: [u8; 16] = [0xd8, 0xfe, 0xc3, 0xd6, 0x1b, 0x0e, 0x48, 0x3c, 0x92, 0x97, 0x58, 0x28, 0x87, 0x7e, 0xc4, 0x81];

/// Byte range of the C2PA manifest container inside an asset, found by the independent walkers.
pub fn c2pa_container(family: &str, d: &[u8]) -> Option<(usize, usize)> {
    let units = walk(family, d)?;
    let is_c2pa = |u: &Unit| -> bool {
        match family {
            "jpeg" => u.name == "APP11" && d.get(u.start + 4..u.start + 6) == Some(&b"JP"[..]),
            "png" => u.name == "caBX",
            "gif" => u.name == "app:C2PA",
            "riff" => u.name == "C2PA",
            "bmff" => u.name == "uuid" && d.get(u.start + 8..u.start + 24) == Some(&C2PA_UUID[..]),
            "jxl" => u.name == "jumb" && d.get(u.start + 33..u.start + 37) == Some(&b"c2pa"[..]),
            _ => false,
        }
    };
    let first = units.iter().position(is_c2pa)?;
    let mut last = first;
    while last + 1 < units.len() && is_c2pa(&units[last + 1]) {
        last += 1;
    }
    // a second, non adjacent container is not something this helper interprets
    if units[last + 1..].iter().any(is_c2pa) {
        return None;
    }
    Some((units[first].start, units[last].end))
}

/// Offset (inside the asset) and length of the raw JUMBF store when it is stored contiguously.
/// JPEG: only when the store sits in one APP11 segment.
pub fn jumbf_payload(family: &str, d: &[u8]) -> Option<(usize, usize)> {
    let (s, e) = c2pa_container(family, d)?;
    match family {
        "jpeg" => {
            let l = be16(d, s + 2)?;
            if s + 2 + l != e {
                return None; // several segments
            }
            Some((s + 12, e))
        }
        "png" => Some((s + 8, e - 4)),
        "riff" => {
            let l = le32(d, s + 4)?;
            Some((s + 8, s + 8 + l))
        }
        "jxl" => Some((s, e)),
        "c2pa" => Some((0, d.len())),
        _ => None,
    }
}

/// All C2PA `uuid` boxes of a BMFF file: (box start, box end, start of the JUMBF payload inside the box).
/// Box layout: size, 'uuid', usertype(16), version/flags(4), purpose (NUL terminated), 8-byte merkle offset, JUMBF.
pub fn bmff_c2pa_boxes(d: &[u8]) -> Option<Vec<(usize, usize, usize)>> {
    let mut out = vec![];
    for u in walk_boxes(d, 0, d.len())? {
        if u.name == "uuid" && d.get(u.start + 8..u.start + 24) == Some(&C2PA_UUID[..]) {
            let mut p = u.start + 28;
            while p < u.end && d[p] != 0 {
                p += 1;
            }
            let j = p + 1 + 8;
            if j > u.end {
                return None;
            }
            out.push((u.start, u.end, j));
        }
    }
    Some(out)
}

/// Name of the unit of `units` that contains byte offset `p` ("eof" when p is the file length).
pub fn unit_at(units: &[Unit], p: usize) -> String {
    for u in units {
        if p >= u.start && p < u.end {
            return u.name.clone();
        }
    }
    "eof".into()
}

// ------------------------------------------------------------------------------------------------
// JUMBF walker (for C02 structure edits)

#[derive(Clone, Debug)]
pub struct JBox {
    pub start: usize,
    pub end: usize,
    pub typ: String,
    /// label of a superbox (from its jumd), if any
    pub label: Option<String>,
    /// byte range of the label inside the store (without the terminating NUL)
    pub label_range: Option<(usize, usize)>,
    pub depth: usize,
    pub parent: Option<usize>,
}

/// Flat pre-order list of all boxes of a JUMBF store. `None` when the bytes are not a well-formed box tree.
pub fn walk_jumbf(d: &[u8]) -> Option<Vec<JBox>> {
    let mut out = vec![];
    walk_jumbf_rec(d, 0, d.len(), 0, None, &mut out)?;
    Some(out)
}

fn walk_jumbf_rec(d: &[u8], from: usize, to: usize, depth: usize, parent: Option<usize>, out: &mut Vec<JBox>) -> Option<()> {
    if depth > 16 {
        return None;
    }
    let units = walk_boxes(d, from, to)?;
    for u in units {
        let idx = out.len();
        out.push(JBox { start: u.start, end: u.end, typ: u.name.clone(), label: None, label_range: None, depth, parent });
        if u.name == "jumb" {
            // children; first is the description box
            let hdr = if be32(d, u.start)? == 1 { 16 } else { 8 };
            let before = out.len();
            walk_jumbf_rec(d, u.start + hdr, u.end, depth + 1, Some(idx), out)?;
            if let Some((fstart, fend, ftyp)) = out.get(before).map(|f| (f.start, f.end, f.typ.clone())) {
                if ftyp == "jumd" {
                    let p = fstart + 8 + 16; // uuid
                    let toggles = *d.get(p)?;
                    if toggles & 0x02 != 0 {
                        let ls = p + 1;
                        let mut le = ls;
                        while le < fend && d[le] != 0 {
                            le += 1;
                        }
                        if le < fend {
                            out[idx].label = Some(String::from_utf8_lossy(&d[ls..le]).into_owned());
                            out[idx].label_range = Some((ls, le));
                        }
                    }
                }
            }
        }
    }
    Some(())
}

/// Rebuild a store after a length-changing edit inside nested boxes: fix the 32-bit LBox of every ancestor.
/// `delta` = new length - old length of the edited region, which lies inside all `ancestors` (indices into `boxes`).
pub fn fix_ancestor_sizes(store: &mut [u8], boxes: &[JBox], mut anc: Option<usize>, delta: i64) -> Option<()> {
    while let Some(a) = anc {
        let b = &boxes[a];
        let old = be32(store, b.start)? as i64;
        if old < 8 {
            return None; // large-size / to-EOF boxes are not produced by the SDK for stores this small
        }
        let new = u32::try_from(old + delta).ok()?;
        store[b.start..b.start + 4].copy_from_slice(&new.to_be_bytes());
        anc = b.parent;
    }
    Some(())
}

// ------------------------------------------------------------------------------------------------
// what the signed hard binding declares excluded

#[derive(Clone, Debug)]
pub struct BmffExcl {
    pub xpath: String,
    pub data: Vec<(usize, Vec<u8>)>,
    pub subset: Option<Vec<(u64, u64)>>,
    pub length: Option<u64>,
}

#[derive(Clone, Debug)]
pub enum Binding {
    /// c2pa.hash.data: absolute (start,length) ranges. `rebase` (update manifests): the first listed range that starts
    /// where the manifest container starts is replaced by the container as found in the bytes under test.
    Data { ranges: Vec<(u64, u64)>, rebase: Option<&'static str> },
    /// c2pa.hash.boxes: the box named C2PA is the only thing excluded.
    Boxes { family: &'static str },
    /// c2pa.hash.bmff: exclusion xpaths (resolved by `resolve_bmff`). `merkle`: mdat payload is bound by Merkle rows,
    /// so a "/mdat" exclusion of the flat hash does not make those bytes unprotected.
    Bmff { excl: Vec<BmffExcl>, merkle: bool },
}

/// Containers the xpath resolver descends into.
const BMFF_CONTAINERS: [&str; 14] = ["moov", "trak", "mdia", "minf", "stbl", "dinf", "edts", "udta", "mvex", "moof", "traf", "mfra", "meta", "sinf"];

fn find_xpath(d: &[u8], from: usize, to: usize, parts: &[&str], out: &mut Vec<(usize, usize)>) -> Option<()> {
    let units = walk_boxes(d, from, to)?;
    for u in units {
        if d.get(u.start + 4..u.start + 8) == Some(parts[0].as_bytes()) {
            if parts.len() == 1 {
                out.push((u.start, u.end));
            } else {
                if !BMFF_CONTAINERS.contains(&parts[0]) {
                    return None;
                }
                let hdr = if be32(d, u.start)? == 1 { 16 } else { 8 } + if parts[0] == "meta" { 4 } else { 0 };
                find_xpath(d, u.start + hdr, u.end, &parts[1..], out)?;
            }
        }
    }
    Some(())
}

pub fn resolve_bmff(excl: &[BmffExcl], merkle: bool, d: &[u8]) -> Option<Vec<(usize, usize)>> {
    let mut out = vec![];
    for e in excl {
        if merkle && e.xpath == "/mdat" {
            continue;
        }
        let parts: Vec<&str> = e.xpath.strip_prefix('/')?.split('/').collect();
        if parts.iter().any(|p| p.len() != 4) {
            return None;
        }
        let mut found = vec![];
        find_xpath(d, 0, d.len(), &parts, &mut found)?;
        'b: for (s, t) in found {
            if let Some(l) = e.length {
                if l != (t - s) as u64 {
                    continue;
                }
            }
            for (off, val) in &e.data {
                if d.get(s + off..s + off + val.len()) != Some(&val[..]) {
                    continue 'b;
                }
            }
            match &e.subset {
                None => out.push((s, t)),
                Some(subs) => {
                    for (off, len) in subs {
                        let blen = (t - s) as u64;
                        if *off > blen {
                            continue;
                        }
                        let l = if *len == 0 { blen - off } else { (*len).min(blen - off) };
                        out.push((s + *off as usize, s + (*off + l) as usize));
                    }
                }
            }
        }
    }
    Some(out)
}

impl Binding {
    /// Literal resolution of the declared exclusions on `d`. `None`: cannot be resolved on these bytes.
    pub fn excluded(&self, d: &[u8]) -> Option<Vec<(usize, usize)>> {
        let mut r: Vec<(usize, usize)> = match self {
            Binding::Data { ranges, rebase } => {
                let mut v: Vec<(u64, u64)> = ranges.clone();
                if let Some(fam) = rebase {
                    // update manifests: the declared exclusion that starts exactly where the manifest container starts is
                    // re-based onto the (grown) container. If the container found in `d` starts anywhere else, nothing is
                    // re-based: the declared ranges apply literally (bytes put in front of the container are NOT excluded).
                    let (cs, ce) = c2pa_container(fam, d)?;
                    if let Some(pos) = v.iter().position(|(s, _)| *s as usize == cs) {
                        let delta = (ce - cs) as u64 - v[pos].1.min((ce - cs) as u64);
                        v[pos] = (cs as u64, (ce - cs) as u64);
                        for (i, x) in v.iter_mut().enumerate() {
                            if i != pos && x.0 > cs as u64 {
                                x.0 += delta;
                            }
                        }
                    }
                }
                v.iter()
                    .map(|(s, l)| ((*s).min(d.len() as u64) as usize, s.saturating_add(*l).min(d.len() as u64) as usize))
                    .collect()
            }
            Binding::Boxes { family } => {
                if *family == "c2pa" {
                    vec![(0, d.len())]
                } else {
                    let (s, e) = c2pa_container(family, d)?;
                    vec![(s, e)]
                }
            }
            Binding::Bmff { excl, merkle } => resolve_bmff(excl, *merkle, d)?,
        };
        r.retain(|(s, e)| e > s);
        r.sort();
        // merge overlapping / abutting ranges
        let mut m: Vec<(usize, usize)> = vec![];
        for (s, e) in r {
            match m.last_mut() {
                Some(l) if s <= l.1 => l.1 = l.1.max(e),
                _ => m.push((s, e)),
            }
        }
        Some(m)
    }

    /// `d` without the declared-excluded ranges.
    pub fn protected(&self, d: &[u8]) -> Option<Vec<u8>> {
        let ex = self.excluded(d)?;
        let mut out = Vec::with_capacity(d.len());
        let mut p = 0;
        for (s, e) in ex {
            out.extend_from_slice(&d[p..s]);
            p = e;
        }
        out.extend_from_slice(&d[p..]);
        Some(out)
    }

    pub fn name(&self) -> &'static str {
        match self {
            Binding::Data { rebase: None, .. } => "datahash",
            Binding::Data { rebase: Some(_), .. } => "datahash+update",
            Binding::Boxes { .. } => "boxhash",
            Binding::Bmff { merkle: false, .. } => "bmffhash",
            Binding::Bmff { merkle: true, .. } => "bmffhash+merkle",
        }
    }
}

/// Is the mutant `m` of signed file `f` byte-identical to `f` outside what the binding declares excluded?
/// Primary rule: literal resolution on both. When the mutant cannot be resolved by the independent walkers, the
/// fallback is: m equals f except for a replacement of (part of) ONE merged excluded range of f.
pub fn confined(b: &Binding, f: &[u8], f_excl: &[(usize, usize)], f_prot: &[u8], m: &[u8]) -> bool {
    if let Some(p) = b.protected(m) {
        return p == f_prot;
    }
    for (s, t) in f_excl {
        let tail = f.len() - t;
        if m.len() >= s + tail && m[..*s] == f[..*s] && m[m.len() - tail..] == f[*t..] {
            // a length-changing edit AT a boundary of the range (bytes put directly in front of or behind it) is not
            // inside it: when bytes were added, the first and last excluded byte must have stayed in place
            if m.len() > f.len() && t - s >= 2 && (m.get(*s) != f.get(*s) || m[m.len() - tail - 1] != f[*t - 1]) {
                continue;
            }
            return true;
        }
    }
    false
}

/// Read the hard binding of the active manifest (or of `manifest_label`) out of a Reader's detailed JSON.
pub fn binding_from_report(detailed: &Value, label: &str, family: &'static str) -> Result<Binding, String> {
    let store = &detailed["manifests"][label]["assertion_store"];
    let Some(obj) = store.as_object() else {
        return Err(format!("no assertion_store for {label}"));
    };
    let mut found: Vec<Binding> = vec![];
    for (k, v) in obj {
        if k.starts_with("c2pa.hash.data") {
            let mut ranges = vec![];
            for e in v["exclusions"].as_array().cloned().unwrap_or_default() {
                let (Some(s), Some(l)) = (e["start"].as_u64(), e["length"].as_u64()) else {
                    return Err(format!("exclusion form not understood: {e}"));
                };
                ranges.push((s, l));
            }
            if v.get("url").map(|u| !u.is_null()).unwrap_or(false) {
                return Err("remote data hash".into());
            }
            found.push(Binding::Data { ranges, rebase: None });
        } else if k.starts_with("c2pa.hash.boxes") {
            let boxes = v["boxes"].as_array().cloned().unwrap_or_default();
            if boxes.is_empty() {
                return Err("box hash without boxes".into());
            }
            for b in &boxes {
                let is_c2pa = b["names"].as_array().map(|n| n.len() == 1 && n[0].as_str() == Some("C2PA")).unwrap_or(false);
                if b.get("excluded").and_then(|x| x.as_bool()) == Some(true) && !is_c2pa {
                    return Err(format!("box hash with an `excluded` entry other than C2PA is not interpreted: {}", b["names"]));
                }
            }
            found.push(Binding::Boxes { family });
        } else if k.starts_with("c2pa.hash.bmff") {
            let mut excl = vec![];
            for e in v["exclusions"].as_array().cloned().unwrap_or_default() {
                let o = e.as_object().ok_or("exclusion not an object")?;
                let mut x = BmffExcl { xpath: String::new(), data: vec![], subset: None, length: None };
                for (ek, ev) in o {
                    if ev.is_null() {
                        continue;
                    }
                    match ek.as_str() {
                        "xpath" => x.xpath = ev.as_str().unwrap_or("").to_string(),
                        "length" => x.length = Some(ev.as_u64().ok_or("length")?),
                        "data" => {
                            for dm in ev.as_array().ok_or("data")? {
                                let off = dm["offset"].as_u64().ok_or("data.offset")? as usize;
                                let val = bytes_of(&dm["value"]).ok_or(format!("data.value form: {}", dm["value"]))?;
                                x.data.push((off, val));
                            }
                        }
                        "subset" => {
                            let mut s = vec![];
                            for sm in ev.as_array().ok_or("subset")? {
                                s.push((sm["offset"].as_u64().ok_or("subset.offset")?, sm["length"].as_u64().ok_or("subset.length")?));
                            }
                            x.subset = Some(s);
                        }
                        other => return Err(format!("BMFF exclusion field `{other}` is not interpreted by the harness resolver")),
                    }
                }
                if x.xpath.is_empty() {
                    return Err("exclusion without xpath".into());
                }
                excl.push(x);
            }
            let merkle = v.get("merkle").map(|m| m.as_array().map(|a| !a.is_empty()).unwrap_or(false)).unwrap_or(false);
            found.push(Binding::Bmff { excl, merkle });
        }
    }
    if found.len() != 1 {
        return Err(format!("{} hard bindings in {label}", found.len()));
    }
    Ok(found.pop().unwrap())
}

/// serde renders byte strings as arrays of numbers or base64 strings depending on the type.
fn bytes_of(v: &Value) -> Option<Vec<u8>> {
    match v {
        Value::Array(a) => a.iter().map(|x| x.as_u64().and_then(|n| u8::try_from(n).ok())).collect(),
        Value::String(s) => b64(s),
        _ => None,
    }
}

fn b64(s: &str) -> Option<Vec<u8>> {
    let mut out = vec![];
    let mut acc = 0u32;
    let mut bits = 0;
    for c in s.bytes() {
        let v = match c {
            b'A'..=b'Z' => c - b'A',
            b'a'..=b'z' => c - b'a' + 26,
            b'0'..=b'9' => c - b'0' + 52,
            b'+' | b'-' => 62,
            b'/' | b'_' => 63,
            b'=' => continue,
            _ => return None,
        };
        acc = (acc << 6) | v as u32;
        bits += 6;
        if bits >= 8 {
            bits -= 8;
            out.push((acc >> bits) as u8);
            acc &= (1 << bits) - 1;
        }
    }
    Some(out)
}

// ------------------------------------------------------------------------------------------------
// guarded reads

thread_local! {
    static CTXS: RefCell<HashMap<String, Arc<Context>>> = RefCell::new(HashMap::new());
}

/// A context per (worker thread, settings): never shared between workers.
pub fn ctx_for(settings: &[String]) -> Arc<Context> {
    let key = settings.join("\u{1}");
    CTXS.with(|c| {
        c.borrow_mut()
            .entry(key)
            .or_insert_with(|| {
                let refs: Vec<&str> = settings.iter().map(|s| s.as_str()).collect();
                sdk::ctx_with(&refs).into_shared()
            })
            .clone()
    })
}

#[derive(Clone, Debug, PartialEq)]
pub enum Obs {
    Panic(String),
    Err(String),
    Invalid,
    /// Valid or Trusted, with the canonical report
    Accepted { state: &'static str, canon: String },
}

impl Obs {
    pub fn class(&self) -> String {
        match self {
            Obs::Panic(_) => "panic".into(),
            Obs::Err(k) => format!("err:{k}"),
            Obs::Invalid => "Invalid".into(),
            Obs::Accepted { state, .. } => (*state).into(),
        }
    }
}

/// How a seed is read: embedded manifest, or detached manifest bytes + asset stream.
#[derive(Clone, Debug)]
pub struct ReadSpec {
    pub mime: String,
    pub settings: Vec<String>,
}

pub fn observe_reader(r: Result<c2pa::Result<Reader>, String>) -> Obs {
    match r {
        Err(p) => Obs::Panic(p),
        Ok(Err(e)) => Obs::Err(sdk::err_kind(&e)),
        Ok(Ok(rd)) => {
            let st = sdk::state_name(rd.validation_state());
            if st == "Invalid" {
                Obs::Invalid
            } else {
                match par::guard(|| canon_report(&rd)) {
                    Ok(c) => Obs::Accepted { state: st, canon: c },
                    Err(p) => Obs::Panic(format!("while rendering the report: {p}")),
                }
            }
        }
    }
}

/// One guarded read of an asset with an embedded manifest.
pub fn observe(spec: &ReadSpec, bytes: &[u8]) -> Obs {
    let ctx = ctx_for(&spec.settings);
    observe_reader(par::guard(|| Reader::from_shared_context(&ctx).with_stream(&spec.mime, Cursor::new(bytes))))
}

/// One guarded read of detached manifest bytes validated against an asset stream.
pub fn observe_detached(spec: &ReadSpec, manifest: &[u8], asset: &[u8]) -> Obs {
    let ctx = ctx_for(&spec.settings);
    observe_reader(par::guard(|| {
        Reader::from_shared_context(&ctx).with_manifest_data_and_stream(manifest, &spec.mime, Cursor::new(asset))
    }))
}

// ------------------------------------------------------------------------------------------------
// order-independent canonical report
//
// `Reader` keeps its manifests in a HashMap, so the order of the "manifests" object (and with it a
// first-occurrence renaming of the random labels) differs between two reads of the same bytes as soon as
// there is more than one manifest. This canonicaliser first orders every object by keys/values with the
// random tokens masked, then renames tokens by first occurrence in that order.

const TOKEN_PREFIXES: [&str; 5] = ["urn:c2pa:", "urn:uuid:", "xmp:iid:", "xmp.iid:", "xmp:did:"];

/// Split `s` into literal pieces and random tokens (urn:c2pa:<uuid...> etc.).
fn tokens(s: &str) -> Vec<(bool, &str)> {
    let mut out = vec![];
    let mut rest = s;
    loop {
        let idx = TOKEN_PREFIXES.iter().filter_map(|p| rest.find(p).map(|i| (i, p.len()))).min();
        match idx {
            None => {
                if !rest.is_empty() {
                    out.push((false, rest));
                }
                return out;
            }
            Some((i, plen)) => {
                if i > 0 {
                    out.push((false, &rest[..i]));
                }
                let tail = &rest[i..];
                let end = tail[plen..].find(|c: char| !(c.is_ascii_hexdigit() || c == '-')).map(|e| e + plen).unwrap_or(tail.len());
                out.push((true, &tail[..end]));
                rest = &tail[end..];
            }
        }
    }
}

fn mask(s: &str) -> String {
    tokens(s).iter().map(|(t, p)| if *t { "*" } else { *p }).collect()
}

/// Rendering with tokens masked and object keys sorted: the "shape" used to order siblings.
fn shape(v: &Value, out: &mut String) {
    match v {
        Value::Object(m) => {
            let mut items: Vec<(String, String)> = m
                .iter()
                .filter(|(k, _)| *k != "validation_time" && *k != "validationTime")
                .map(|(k, x)| {
                    let mut s = String::new();
                    shape(x, &mut s);
                    (mask(k), s)
                })
                .collect();
            items.sort();
            out.push('{');
            for (k, s) in items {
                out.push_str(&k);
                out.push(':');
                out.push_str(&s);
                out.push(',');
            }
            out.push('}');
        }
        Value::Array(a) => {
            out.push('[');
            for x in a {
                shape(x, out);
                out.push(',');
            }
            out.push(']');
        }
        Value::String(s) => {
            out.push('"');
            out.push_str(&mask(s));
            out.push('"');
        }
        other => out.push_str(&other.to_string()),
    }
}

fn rename_str(s: &str, names: &mut HashMap<String, String>) -> String {
    let mut out = String::new();
    for (is_tok, piece) in tokens(s) {
        if is_tok {
            let n = names.len();
            out.push_str(names.entry(piece.to_string()).or_insert_with(|| format!("<id{n}>")));
        } else {
            out.push_str(piece);
        }
    }
    out
}

fn canon_rec(v: &Value, names: &mut HashMap<String, String>) -> Value {
    match v {
        Value::Object(m) => {
            let mut items: Vec<(String, String, &String, &Value)> = m
                .iter()
                .filter(|(k, _)| *k != "validation_time" && *k != "validationTime")
                .map(|(k, x)| {
                    let mut s = String::new();
                    shape(x, &mut s);
                    (mask(k), s, k, x)
                })
                .collect();
            items.sort_by(|a, b| (&a.0, &a.1).cmp(&(&b.0, &b.1)));
            let mut o = serde_json::Map::new();
            for (_, _, k, x) in items {
                let nk = rename_str(k, names);
                let nv = canon_rec(x, names);
                o.insert(nk, nv);
            }
            Value::Object(o)
        }
        Value::Array(a) => {
            let mut items: Vec<Value> = a.iter().map(|x| canon_rec(x, names)).collect();
            // lists of validation statuses and of per-ingredient deltas are collections: their order follows the
            // (unprotected) order of boxes in the assertion store and is not report content
            if !items.is_empty() && items.iter().all(|x| x.get("code").is_some() || x.get("ingredientAssertionURI").is_some()) {
                items.sort_by_key(|x| x.to_string());
            }
            Value::Array(items)
        }
        Value::String(s) => Value::String(rename_str(s, names)),
        other => other.clone(),
    }
}

/// Order-independent canonical report of a reader (json + detailed_json + state), as a string.
pub fn canon_report(r: &Reader) -> String {
    let j: Value = serde_json::from_str(&r.json()).unwrap_or(Value::Null);
    let d: Value = serde_json::from_str(&r.detailed_json()).unwrap_or(Value::Null);
    let v = json!({"json": j, "detailed": d, "state": sdk::state_name(r.validation_state())});
    let mut names = HashMap::new();
    canon_rec(&v, &mut names).to_string()
}

/// Short stable digest of a panic message for violation keys (location stripped of line numbers is kept).
pub fn panic_key(msg: &str) -> String {
    // drop digits and everything quoted (data dependent), keep the wording
    let mut out = String::new();
    let mut quote: Option<char> = None;
    for c in msg.chars() {
        match quote {
            Some(q) => {
                if c == q {
                    quote = None;
                }
            }
            None => {
                if c == '\'' || c == '`' || c == '"' {
                    quote = Some(c);
                    out.push('_');
                } else if !c.is_ascii_digit() {
                    out.push(if c == '\n' { ' ' } else { c });
                }
            }
        }
    }
    out.chars().take(70).collect()
}

//! Fault streams (DESIGN.md 3.3): `Read + Seek + Write` over an in-memory buffer whose every call is a
//! numbered choice point. The environment's default answer is "transfer everything asked for"; a `Plan`
//! lists the deviations (short transfer of n bytes, one-shot I/O error, sticky I/O error) by call number and
//! an optional uniform maximum transfer size. The stream records every call and which byte positions were
//! actually delivered to (read) / accepted from (write) the subject.
//!
//! Call numbering: every invocation of `read`, `write`, `seek` and `flush` on one stream takes the next number
//! k = 0,1,2,… (provided trait methods such as `read_exact`, `rewind`, `stream_position` reach these four).
//! The log lives behind an `Arc<Mutex<..>>` so it survives the stream being moved into the SDK.

use std::{
    io::{self, Read, Seek, SeekFrom, Write},
    sync::{Arc, Mutex},
};

/// A deviation from the default answer at one choice point.
#[derive(Clone, Copy, Debug, PartialEq, Eq)]
pub enum Dev {
    /// transfer at most n bytes at this call (n ≥ 1); a no-op when fewer are requested/available
    Short(usize),
    /// this call fails with an I/O error, later calls behave normally
    FailOnce,
    /// this call and every later call fail with an I/O error
    FailSticky,
}

impl Dev {
    pub fn name(&self) -> String {
        match self {
            Dev::Short(n) => format!("short{n}"),
            Dev::FailOnce => "fail-once".into(),
            Dev::FailSticky => "fail-sticky".into(),
        }
    }

    pub fn parse(s: &str) -> Option<Dev> {
        match s {
            "fail-once" => Some(Dev::FailOnce),
            "fail-sticky" => Some(Dev::FailSticky),
            _ => s.strip_prefix("short").and_then(|n| n.parse().ok()).map(Dev::Short),
        }
    }
}

/// The environment's script for one stream.
#[derive(Clone, Debug, Default, PartialEq, Eq)]
pub struct Plan {
    /// uniform maximum number of bytes moved by any read or write (None = unlimited)
    pub max_xfer: Option<usize>,
    /// deviations by call number
    pub devs: Vec<(u64, Dev)>,
}

impl Plan {
    pub fn clean() -> Plan {
        Plan::default()
    }

    pub fn chunked(n: usize) -> Plan {
        Plan { max_xfer: Some(n.max(1)), devs: vec![] }
    }

    pub fn one(k: u64, d: Dev) -> Plan {
        Plan { max_xfer: None, devs: vec![(k, d)] }
    }

    pub fn with(mut self, k: u64, d: Dev) -> Plan {
        self.devs.push((k, d));
        self
    }

    fn at(&self, k: u64) -> Option<Dev> {
        self.devs.iter().find(|(i, _)| *i == k).map(|(_, d)| *d)
    }

    pub fn describe(&self) -> String {
        let mut s = match self.max_xfer {
            Some(n) => format!("max{n}"),
            None => "full".to_string(),
        };
        for (k, d) in &self.devs {
            s.push_str(&format!(" {}@{k}", d.name()));
        }
        s
    }
}

#[derive(Clone, Copy, Debug, PartialEq, Eq)]
pub enum Kind {
    Read,
    Write,
    Seek,
    Flush,
}

impl Kind {
    pub fn letter(&self) -> char {
        match self {
            Kind::Read => 'r',
            Kind::Write => 'w',
            Kind::Seek => 's',
            Kind::Flush => 'f',
        }
    }
}

/// One call as seen by the stream.
#[derive(Clone, Copy, Debug, PartialEq, Eq)]
pub struct Call {
    pub kind: Kind,
    /// stream position before the call
    pub pos: u64,
    /// bytes requested (read/write) or 0
    pub requested: u64,
    /// bytes the default environment would have moved (min(requested, available) for reads)
    pub possible: u64,
    /// bytes moved; None = the call returned an injected I/O error
    pub moved: Option<u64>,
}

pub const MAX_CALLS_KEPT: usize = 200_000;

/// What happened on the stream.
#[derive(Clone, Debug, Default)]
pub struct Log {
    /// total number of calls (= next call number)
    pub calls: u64,
    /// first MAX_CALLS_KEPT calls
    pub trace: Vec<Call>,
    /// per buffer position: was the byte handed to the subject by some successful read
    pub delivered: Vec<bool>,
    /// per buffer position: was the byte written by the subject
    pub written: Vec<bool>,
    /// call number of the first injected error
    pub first_failure: Option<u64>,
    /// number of calls answered with an injected error
    pub failures: u64,
    /// number of calls where a deviation or the uniform maximum actually reduced the transfer
    pub shortened: u64,
}

impl Log {
    /// Maximal runs of positions in `0..len` NOT delivered, as (start, length).
    pub fn undelivered(&self, len: usize) -> Vec<(u64, u64)> {
        holes(&self.delivered, len)
    }

    pub fn unwritten(&self, len: usize) -> Vec<(u64, u64)> {
        holes(&self.written, len)
    }

    pub fn all_delivered(&self, positions: impl IntoIterator<Item = usize>) -> bool {
        positions.into_iter().all(|p| self.delivered.get(p).copied().unwrap_or(false))
    }

    /// Compact rendering of the call kinds, e.g. "s r r s r".
    pub fn kinds(&self, limit: usize) -> String {
        self.trace.iter().take(limit).map(|c| c.kind.letter()).collect()
    }
}

fn holes(v: &[bool], len: usize) -> Vec<(u64, u64)> {
    let mut out = vec![];
    let mut i = 0;
    while i < len {
        if !v.get(i).copied().unwrap_or(false) {
            let s = i;
            while i < len && !v.get(i).copied().unwrap_or(false) {
                i += 1;
            }
            out.push((s as u64, (i - s) as u64));
        } else {
            i += 1;
        }
    }
    out
}

pub type SharedLog = Arc<Mutex<Log>>;

/// In-memory stream with scripted faults.
pub struct FaultStream {
    buf: Vec<u8>,
    pos: u64,
    plan: Plan,
    stuck: bool,
    log: SharedLog,
}

fn injected() -> io::Error {
    io::Error::other("verif: injected I/O error")
}

/// True when `e` is (or wraps) the error this module injects.
pub fn is_injected_text(s: &str) -> bool {
    s.contains("verif: injected I/O error")
}

impl FaultStream {
    pub fn new(data: Vec<u8>, plan: Plan) -> FaultStream {
        let n = data.len();
        FaultStream {
            buf: data,
            pos: 0,
            plan,
            stuck: false,
            log: Arc::new(Mutex::new(Log {
                delivered: vec![false; n],
                written: vec![false; n],
                ..Default::default()
            })),
        }
    }

    pub fn log(&self) -> SharedLog {
        self.log.clone()
    }

    pub fn snapshot(&self) -> Log {
        self.log.lock().unwrap_or_else(|e| e.into_inner()).clone()
    }

    pub fn data(&self) -> &[u8] {
        &self.buf
    }

    pub fn into_inner(self) -> Vec<u8> {
        self.buf
    }

    /// Take the next call number and decide the environment's answer.
    /// Returns Err for an injected failure, else the cap on bytes moved.
    fn choice(&mut self, kind: Kind, requested: u64, possible: u64) -> Result<u64, io::Error> {
        let mut g = self.log.lock().unwrap_or_else(|e| e.into_inner());
        let k = g.calls;
        g.calls += 1;
        let dev = self.plan.at(k);
        let fail = self.stuck || matches!(dev, Some(Dev::FailOnce | Dev::FailSticky));
        if matches!(dev, Some(Dev::FailSticky)) {
            self.stuck = true;
        }
        let mut cap = possible;
        if let Some(m) = self.plan.max_xfer {
            cap = cap.min(m as u64);
        }
        if let Some(Dev::Short(n)) = dev {
            cap = cap.min(n.max(1) as u64);
        }
        let moved = if fail { None } else { Some(cap) };
        if g.trace.len() < MAX_CALLS_KEPT {
            g.trace.push(Call { kind, pos: self.pos, requested, possible, moved });
        }
        if fail {
            g.failures += 1;
            if g.first_failure.is_none() {
                g.first_failure = Some(k);
            }
            return Err(injected());
        }
        if cap < possible {
            g.shortened += 1;
        }
        Ok(cap)
    }
}

impl Read for FaultStream {
    fn read(&mut self, out: &mut [u8]) -> io::Result<usize> {
        let avail = (self.buf.len() as u64).saturating_sub(self.pos);
        let possible = (out.len() as u64).min(avail);
        let n = self.choice(Kind::Read, out.len() as u64, possible)? as usize;
        let s = self.pos as usize;
        out[..n].copy_from_slice(&self.buf[s..s + n]);
        if n > 0 {
            let mut g = self.log.lock().unwrap_or_else(|e| e.into_inner());
            if g.delivered.len() < s + n {
                g.delivered.resize(s + n, false);
            }
            for d in &mut g.delivered[s..s + n] {
                *d = true;
            }
        }
        self.pos += n as u64;
        Ok(n)
    }
}

impl Write for FaultStream {
    fn write(&mut self, inp: &[u8]) -> io::Result<usize> {
        let n = self.choice(Kind::Write, inp.len() as u64, inp.len() as u64)? as usize;
        if n == 0 {
            return Ok(0);
        }
        let s = usize::try_from(self.pos).map_err(|_| io::Error::new(io::ErrorKind::InvalidInput, "position too large"))?;
        if s > (1 << 31) {
            return Err(io::Error::new(io::ErrorKind::InvalidInput, "write position beyond harness limit"));
        }
        if self.buf.len() < s + n {
            self.buf.resize(s + n, 0);
        }
        self.buf[s..s + n].copy_from_slice(&inp[..n]);
        {
            let mut g = self.log.lock().unwrap_or_else(|e| e.into_inner());
            if g.written.len() < s + n {
                g.written.resize(s + n, false);
            }
            for d in &mut g.written[s..s + n] {
                *d = true;
            }
        }
        self.pos += n as u64;
        Ok(n)
    }

    fn flush(&mut self) -> io::Result<()> {
        self.choice(Kind::Flush, 0, 0).map(|_| ())
    }
}

impl Seek for FaultStream {
    fn seek(&mut self, to: SeekFrom) -> io::Result<u64> {
        self.choice(Kind::Seek, 0, 0)?;
        let (base, off) = match to {
            SeekFrom::Start(n) => {
                self.pos = n;
                return Ok(n);
            }
            SeekFrom::End(o) => (self.buf.len() as u64, o),
            SeekFrom::Current(o) => (self.pos, o),
        };
        match base.checked_add_signed(off) {
            Some(n) => {
                self.pos = n;
                Ok(n)
            }
            None => Err(io::Error::new(io::ErrorKind::InvalidInput, "invalid seek to a negative or overflowing position")),
        }
    }
}

#[cfg(test)]
mod tests {
    use super::*;

    #[test]
    fn numbering_and_delivery() {
        let mut s = FaultStream::new((0u8..10).collect(), Plan::chunked(3).with(2, Dev::FailOnce));
        let mut b = [0u8; 8];
        assert_eq!(s.read(&mut b).unwrap(), 3); // k0
        assert_eq!(s.seek(SeekFrom::Start(8)).unwrap(), 8); // k1
        assert!(s.read(&mut b).is_err()); // k2
        assert_eq!(s.read(&mut b).unwrap(), 2); // k3
        let l = s.snapshot();
        assert_eq!(l.calls, 4);
        assert_eq!(l.undelivered(10), vec![(3, 5)]);
        assert_eq!(l.first_failure, Some(2));
    }
}

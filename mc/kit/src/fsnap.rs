//! File-system snapshots (group F: C29, C32). A snapshot is the complete, symlink-preserving content of a
//! directory tree: relative path -> node. Symlinks are recorded by target string and never followed.

use std::{
    collections::BTreeMap,
    fs,
    path::{Path, PathBuf},
};

#[derive(Clone, Debug, PartialEq, Eq)]
pub enum Node {
    File(Vec<u8>),
    Dir,
    Symlink(PathBuf),
    /// something else (fifo, socket, unreadable): described by text
    Other(String),
}

impl Node {
    pub fn kind(&self) -> &'static str {
        match self {
            Node::File(_) => "file",
            Node::Dir => "dir",
            Node::Symlink(_) => "symlink",
            Node::Other(_) => "other",
        }
    }
}

pub type Snap = BTreeMap<PathBuf, Node>;

/// Snapshot of everything below `root` (root itself excluded), skipping the sub-trees listed in `skip`
/// (paths relative to root).
pub fn snapshot_skip(root: &Path, skip: &[&Path]) -> Snap {
    let mut out = Snap::new();
    walk(root, Path::new(""), skip, &mut out);
    out
}

pub fn snapshot(root: &Path) -> Snap {
    snapshot_skip(root, &[])
}

fn walk(root: &Path, rel: &Path, skip: &[&Path], out: &mut Snap) {
    let dir = root.join(rel);
    let rd = match fs::read_dir(&dir) {
        Ok(r) => r,
        Err(e) => {
            out.insert(rel.to_path_buf(), Node::Other(format!("unreadable dir: {e}")));
            return;
        }
    };
    for ent in rd.flatten() {
        let r = rel.join(ent.file_name());
        if skip.iter().any(|s| *s == r.as_path()) {
            continue;
        }
        let p = root.join(&r);
        match fs::symlink_metadata(&p) {
            Ok(md) => {
                let ft = md.file_type();
                if ft.is_symlink() {
                    out.insert(r, Node::Symlink(fs::read_link(&p).unwrap_or_default()));
                } else if ft.is_dir() {
                    out.insert(r.clone(), Node::Dir);
                    walk(root, &r, skip, out);
                } else if ft.is_file() {
                    match fs::read(&p) {
                        Ok(b) => {
                            out.insert(r, Node::File(b));
                        }
                        Err(e) => {
                            out.insert(r, Node::Other(format!("unreadable file: {e}")));
                        }
                    }
                } else {
                    out.insert(r, Node::Other("special".into()));
                }
            }
            Err(e) => {
                out.insert(r, Node::Other(format!("stat failed: {e}")));
            }
        }
    }
}

/// Differences between two snapshots, as short human-readable strings ("removed x", "changed x", "added x", "retyped x a->b").
pub fn diff(before: &Snap, after: &Snap) -> Vec<String> {
    let mut d = vec![];
    for (p, n) in before {
        match after.get(p) {
            None => d.push(format!("removed {}", p.display())),
            Some(m) if m == n => {}
            Some(m) if m.kind() != n.kind() => d.push(format!("retyped {} {}->{}", p.display(), n.kind(), m.kind())),
            Some(_) => d.push(format!("changed {}", p.display())),
        }
    }
    for p in after.keys() {
        if !before.contains_key(p) {
            d.push(format!("added {}", p.display()));
        }
    }
    d
}

/// Paths of `before` that are not preserved in `after` (removed, changed or retyped). Additions are not listed.
pub fn not_preserved(before: &Snap, after: &Snap) -> Vec<(PathBuf, String)> {
    let mut d = vec![];
    for (p, n) in before {
        match after.get(p) {
            None => d.push((p.clone(), "removed".to_string())),
            Some(m) if m == n => {}
            Some(m) if m.kind() != n.kind() => d.push((p.clone(), format!("retyped {}->{}", n.kind(), m.kind()))),
            Some(_) => d.push((p.clone(), "changed".to_string())),
        }
    }
    d
}

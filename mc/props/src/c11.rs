//! C11 — the reader's verdict does not depend on a wrong format hint (S-inp, exhaustive product).
//!
//! Every kit asset (signed with the default binding, signed with a box hash where available, unsigned) x every
//! format string the SDK supports (MIME types from `Reader::supported_mime_types()` + the handlers' extensions) plus
//! "", unknown strings and upper-case variants.
//! Oracle: when the harness's own magic-number table (written from the container specifications) says the leading
//! bytes identify a container, every hint must give the same observation as the correct hint: same error kind, or the same
//! canonical report (manifest content, validation state and validation codes). For streams without a magic number
//! (SVG, .c2pa, garbage) only "no panic" is demanded.
//!
//! After a missed independently seeded change (big-endian TIFF magic no longer recognised): one unsigned + one signed subject per
//! magic-number VARIANT of the sniffer (magic_variants()). /tmp/seed-C11/OUT/patch.diff -> keys `hint-changes-result container=tiff ...`.
//!
//! Mutants caught (quick tier, unchanged tree: 0 violations):
//!   /verif/mutants/C11-prefer-hint.diff (format_from_stream returns the hint whenever the hint names a known format):
//!       2000+ violations, keys `hint-changes-result container=<c> kind=<k> hint-family=<f>`

use std::io::Cursor;

use c2pa::Reader;
use kit::{assets, par, sdk, tamper, Run};
use serde_json::{json, Value};

const EXTS: [&str; 27] = [
    "avi", "avif", "arw", "c2pa", "dng", "flac", "gif", "heic", "heif", "jpeg", "jpg", "jxl", "m4a", "m4v", "mov", "mp3", "mp4", "nef", "pdf", "png",
    "svg", "tif", "tiff", "wav", "webp", "ai", "psd",
];

/// Magic-number table written from the format specifications (independent of jumbf_io::container_from_stream).
fn identifies_container(d: &[u8]) -> Option<&'static str> {
    let s = |p: usize, pat: &[u8]| d.get(p..p + pat.len()) == Some(pat);
    if s(0, &[0xFF, 0xD8, 0xFF]) {
        Some("jpeg")
    } else if s(0, &[0x89, b'P', b'N', b'G', 0x0D, 0x0A, 0x1A, 0x0A]) {
        Some("png")
    } else if s(0, b"GIF87a") || s(0, b"GIF89a") {
        Some("gif")
    } else if s(0, b"II*\0") || s(0, b"MM\0*") || s(0, b"II+\0") || s(0, b"MM\0+") {
        Some("tiff")
    } else if s(0, &[0, 0, 0, 0x0C, b'J', b'X', b'L', b' ', 0x0D, 0x0A, 0x87, 0x0A]) {
        Some("jxl")
    } else if s(0, b"RIFF") {
        Some("riff")
    } else if s(4, b"ftyp") {
        Some("bmff")
    } else if s(0, b"fLaC") {
        Some("flac")
    } else if s(0, b"ID3") && d.len() >= 10 {
        Some("id3-audio")
    } else if d.len() >= 2 && d[0] == 0xFF && d[1] & 0xE0 == 0xE0 {
        Some("mpeg-audio")
    } else if s(0, b"%PDF") {
        Some("pdf")
    } else {
        None
    }
}

#[derive(Clone, PartialEq, Debug)]
enum Obs {
    Panic(String),
    Err(String),
    Report(String),
}

fn observe(hint: &str, data: &[u8]) -> Obs {
    let ctx = tamper::ctx_for(&[]);
    match par::guard(|| Reader::from_shared_context(&ctx).with_stream(hint, Cursor::new(data))) {
        Err(p) => Obs::Panic(p),
        Ok(Err(e)) => Obs::Err(sdk::err_kind(&e)),
        Ok(Ok(r)) => match par::guard(|| tamper::canon_report(&r)) {
            Ok(c) => Obs::Report(c),
            Err(p) => Obs::Panic(p),
        },
    }
}

fn short(o: &Obs) -> String {
    match o {
        Obs::Panic(p) => format!("panic: {p}"),
        Obs::Err(k) => format!("Err({k})"),
        Obs::Report(c) => {
            let v: Value = serde_json::from_str(c).unwrap_or(Value::Null);
            format!("report state={} ({} bytes)", v["state"].as_str().unwrap_or("?"), c.len())
        }
    }
}

struct Subject {
    id: String,
    mime: &'static str,
    data: Vec<u8>,
}

static SKIPPED: std::sync::Mutex<Vec<String>> = std::sync::Mutex::new(Vec::new());

/// One asset per alternative of the content sniffer (jumbf_io::container_from_stream) that the per-format kit assets
/// do not already cover: TIFF byte order x classic/BigTIFF, GIF87a, BMFF brands, ID3-prefixed FLAC, PDF.
/// (Covered by assets::all(): JPEG, PNG, GIF89a, TIFF II, JXL container, RIFF WAVE/WEBP/AVI, ftyp isom/heic, fLaC,
/// ID3+MPEG, bare MPEG frame sync. A bare JPEG XL codestream FF 0A has no branch in the sniffer.)
fn magic_variants() -> Vec<(String, &'static str, Vec<u8>)> {
    let mut v: Vec<(String, &'static str, Vec<u8>)> = vec![];
    for (name, data) in kit::embed::tiff_variants() {
        if name.ends_with("-1page") {
            v.push((format!("magic-{name}"), "image/tiff", data));
        }
    }
    let mut g = assets::gif();
    g[3..6].copy_from_slice(b"87a");
    v.push(("magic-gif87a".into(), "image/gif", g));
    let brand = |base: Vec<u8>, major: &[u8; 4], compat: &[u8; 4]| {
        let mut d = base;
        d[8..12].copy_from_slice(major);
        d[16..20].copy_from_slice(compat);
        d
    };
    v.push(("magic-bmff-mp42".into(), "video/mp4", brand(assets::mp4(false), b"mp42", b"mp42")));
    v.push(("magic-bmff-qt".into(), "video/quicktime", brand(assets::mp4(false), b"qt  ", b"qt  ")));
    v.push(("magic-bmff-m4a".into(), "audio/mp4", brand(assets::mp4(false), b"M4A ", b"M4A ")));
    v.push(("magic-bmff-avif".into(), "image/avif", brand(assets::heic(), b"avif", b"mif1")));
    v.push(("magic-bmff-mif1".into(), "image/heif", brand(assets::heic(), b"mif1", b"mif1")));
    // FLAC behind an (empty) ID3v2 tag: the sniffer looks past the tag for fLaC
    let mut f = b"ID3\x03\x00\x00\x00\x00\x00\x00".to_vec();
    f.extend(assets::flac());
    v.push(("magic-id3-flac".into(), "audio/flac", f));
    v.push(("magic-pdf".into(), "application/pdf", b"%PDF-1.4\n1 0 obj\n<< /Type /Catalog >>\nendobj\ntrailer\n<< /Root 1 0 R >>\n%%EOF\n".to_vec()));
    v
}

fn subjects(thorough: bool) -> Vec<Subject> {
    let s = sdk::fixture_signer("ed25519");
    let mut v = vec![];
    if thorough {
        // every C01 seed as well (BMFF Merkle, update manifests, all variants with box hashes)
        for seed in super::c01::build_seeds(true) {
            if seed.detached.is_none() {
                v.push(Subject { id: format!("c01:{}/signed", seed.id.replace('/', "-")), mime: kit::assets::by_name(seed.fmt).mime, data: seed.signed });
            }
        }
    }
    for a in assets::all() {
        v.push(Subject { id: format!("{}/unsigned", a.name), mime: a.mime, data: a.data.clone() });
        v.push(Subject { id: format!("{}/signed", a.name), mime: a.mime, data: sdk::sign_simple(s.as_ref(), a.mime, &a.data, &[]) });
        if matches!(tamper::family(a.mime), "jpeg" | "png" | "gif" | "jxl") {
            v.push(Subject { id: format!("{}/signed-box", a.name), mime: a.mime, data: sdk::sign_simple(s.as_ref(), a.mime, &a.data, &[super::c01::COMPRESS]) });
        }
    }
    // one signed subject per MAGIC-NUMBER VARIANT the sniffer can distinguish (not just one per format)
    for (id, mime, data) in magic_variants() {
        v.push(Subject { id: format!("{id}/unsigned"), mime, data: data.clone() });
        let mut b = sdk::builder(sdk::ctx(), super::c01::DEF);
        let signed = par::guard(|| sdk::sign(&mut b, s.as_ref(), mime, &data));
        let ok = match &signed {
            Ok(Ok((out, _))) => match sdk::read(sdk::ctx(), mime, out) {
                Ok(r) if sdk::state_name(r.validation_state()) != "Invalid" => Ok(out.clone()),
                Ok(_) => Err("signed but reads Invalid".to_string()),
                Err(e) => Err(format!("signed but read fails: {}", sdk::err_kind(&e))),
            },
            Ok(Err(e)) => Err(format!("cannot be signed: {}", sdk::err_kind(e))),
            Err(p) => Err(format!("signing panicked: {p}")),
        };
        match ok {
            Ok(out) => v.push(Subject { id: format!("{id}/signed"), mime, data: out }),
            Err(why) => SKIPPED.lock().unwrap().push(format!("{id}: {why}")),
        }
    }
    // a sidecar store read as a stream of its own, and streams that identify nothing
    let mut b = sdk::builder(sdk::ctx(), super::c01::DEF);
    b.set_no_embed(true);
    let png = assets::png();
    match sdk::sign(&mut b, s.as_ref(), "image/png", &png) {
        Ok((_, man)) => v.push(Subject { id: "c2pa-store".into(), mime: "application/c2pa", data: man }),
        Err(e) => kit::ev::machinery(format!("C11 sidecar seed: {e:?}")),
    }
    v.push(Subject { id: "garbage/empty".into(), mime: "image/jpeg", data: vec![] });
    v.push(Subject { id: "garbage/one-byte".into(), mime: "image/jpeg", data: vec![0] });
    v.push(Subject { id: "garbage/text".into(), mime: "image/jpeg", data: b"hello, world: no container here".to_vec() });
    v.push(Subject { id: "garbage/zeros".into(), mime: "image/jpeg", data: vec![0u8; 64] });
    v
}

fn hints() -> Vec<String> {
    let mut h: Vec<String> = Reader::supported_mime_types();
    h.extend(EXTS.iter().map(|s| s.to_string()));
    let upper: Vec<String> = h.iter().map(|s| s.to_uppercase()).collect();
    h.extend(upper);
    h.extend(["", "application/octet-stream", "foo/bar", "txt", ".jpg", "image/jpeg; charset=binary", "\u{0}"].iter().map(|s| s.to_string()));
    h.sort();
    h.dedup();
    h
}

/// Container family a hint names (MIME types and extensions), "other" when unknown.
fn hint_family(hint: &str) -> &'static str {
    let h = hint.to_lowercase();
    match h.as_str() {
        "jpg" | "jpeg" => "jpeg",
        "png" => "png",
        "gif" => "gif",
        "avi" | "wav" | "webp" | "audio/wave" | "audio/x-wav" | "audio/vnd.wave" | "video/msvideo" | "video/x-msvideo" | "application/x-troff-msvideo" => "riff",
        "mp4" | "m4a" | "m4v" | "mov" | "heic" | "heif" | "avif" | "application/mp4" | "audio/mp4" | "video/x-m4v" => "bmff",
        "jxl" => "jxl",
        "tif" | "tiff" | "dng" | "arw" | "nef" | "image/dng" | "image/x-adobe-dng" | "image/x-nikon-nef" | "image/x-sony-arw" => "tiff",
        "svg" | "application/svg+xml" => "svg",
        "mp3" | "audio/mp3" | "audio/mpeg3" | "audio/x-mp3" => "mp3",
        "flac" => "flac",
        "c2pa" | "application/x-c2pa-manifest-store" => "c2pa",
        other => tamper::family(other),
    }
}

fn judge(run: &Run, s: &Subject, base: &Obs, hint: &str, verbose: bool) {
    run.eval();
    let o = observe(hint, &s.data);
    let magic = identifies_container(&s.data);
    if verbose {
        println!("  subject={} hint={hint:?} magic={magic:?}: {} (correct hint {:?}: {})", s.id, short(&o), s.mime, short(base));
    }
    let case = json!({"subject": s.id, "hint": hint});
    let fmt = s.id.split('/').next().unwrap_or("");
    if let Obs::Panic(p) = &o {
        run.violation(format!("panic {fmt} {}", tamper::panic_key(p)), format!("{} with hint {hint:?}: {p}", s.id), case);
        return;
    }
    run.outcome(match &o {
        Obs::Err(k) => format!("err:{k}"),
        Obs::Report(_) => "report".into(),
        Obs::Panic(_) => unreachable!(),
    });
    if magic.is_some() {
        if o != *base {
            run.nontrivial(format!("{}|{hint}", s.id));
            run.violation(
                format!("hint-changes-result container={} kind={} hint-family={}", magic.unwrap_or(""), s.id.split('/').nth(1).unwrap_or(""), hint_family(hint)),
                format!("{}: leading bytes identify {:?}; correct hint {:?} gives {}, hint {hint:?} gives {}", s.id, magic, s.mime, short(base), short(&o)),
                case,
            );
        } else if hint_family(hint) != tamper::family(s.mime) || hint.is_empty() {
            // a genuinely wrong (or missing) hint that was overridden by the bytes
            run.nontrivial(format!("{}|{hint}", s.id));
        }
    }
}

pub fn run(run: &Run, replay: Option<&Value>) {
    run.rule("subject x hint; non-trivial = cases where the stream has a magic number and the hint names a different container family (or none), i.e. the hint really is wrong");
    run.assume("`leading bytes identify a supported container` is decided by the harness's own magic-number table (JPEG, PNG, GIF, TIFF/BigTIFF, JPEG XL container, RIFF, ISO-BMFF ftyp, fLaC, ID3, MPEG audio sync, %PDF)");
    run.assume("extension list is transcribed from the handlers' SUPPORTED_TYPES; MIME types come from Reader::supported_mime_types() at run time");
    let subs = subjects(run.tier.is_thorough() || replay.is_some());
    let hs = hints();
    if let Some(c) = replay {
        let id = c["subject"].as_str().unwrap_or("");
        let s = subs.iter().find(|s| s.id == id).unwrap_or_else(|| kit::ev::machinery(format!("replay: unknown subject {id}")));
        let base = observe(s.mime, &s.data);
        judge(run, s, &base, c["hint"].as_str().unwrap_or(""), true);
        return;
    }
    // baseline + determinism
    let mut bases = vec![];
    for s in &subs {
        let a = observe(s.mime, &s.data);
        let b = observe(s.mime, &s.data);
        if a != b {
            kit::ev::machinery(format!("{}: two reads with the correct hint differ", s.id));
        }
        if s.id.ends_with("/signed") || s.id.ends_with("/signed-box") {
            match &a {
                Obs::Report(c) if !c.contains("\"state\":\"Invalid\"") => {}
                other => kit::ev::machinery(format!("{}: signed seed does not read back Valid: {}", s.id, short(other))),
            }
        }
        bases.push(a);
    }
    let cases: Vec<(usize, usize)> = (0..subs.len()).flat_map(|i| (0..hs.len()).map(move |j| (i, j))).collect();
    run.space(&format!("{} subjects x {} hints", subs.len(), hs.len()), cases.len() as u64, true);
    par::for_each(&cases, |(i, j)| judge(run, &subs[*i], &bases[*i], &hs[*j], false));
    run.sample(json!({"subject": subs[1].id, "hints": hs.iter().take(12).collect::<Vec<_>>(), "baseline": short(&bases[1])}));
    run.sample(json!({"subject": subs[0].id, "baseline": short(&bases[0])}));
    run.extra("hints", json!(hs.len()));
    run.extra("magic_variants_not_signed", json!(*SKIPPED.lock().unwrap()));
    run.extra("subjects", json!(subs.iter().map(|s| s.id.clone()).collect::<Vec<_>>()));
}

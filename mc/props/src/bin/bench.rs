use std::time::Instant;
fn main() {
    let alg = std::env::args().nth(1).unwrap_or("ed25519".into());
    for jobs in [1usize, 4, 16] {
        std::env::set_var("VERIF_JOBS", jobs.to_string());
        let t = Instant::now();
        kit::par::for_each_index(3000, |i| {
            let signer = kit::sdk::fixture_signer(&alg);
            let _ = c2pa::verif_hooks::cose_sign_unchecked(signer.as_ref(), b"abc", 5000 + i as usize, true);
        });
        println!("jobs={jobs} {:?}", t.elapsed());
        let signer = kit::sdk::fixture_signer(&alg);
        let t = Instant::now();
        kit::par::for_each_index(3000, |i| {
            let _ = c2pa::verif_hooks::cose_sign_unchecked(signer.as_ref(), b"abc", 5000 + i as usize, true);
        });
        println!("  shared signer jobs={jobs} {:?}", t.elapsed());
    }
}

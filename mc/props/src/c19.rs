//! C19 — ingredient graph validation terminates and rejects malformed graphs.
//!
//! S-inp: crafted manifest stores (hooks `verif_hooks::graph`, claims signed with the repository's Ed25519 test
//! credential). Every directed graph on 1..=3 manifests including self loops plus one absent ("dangling") target
//! per node (4 + 64 + 4096 graphs) in the quick tier, additionally all 65 536 graphs on 4 manifests in the
//! thorough tier; linear chains, a 300-leaf star and "ladders" (two manifests per level, every manifest of a
//! level references both manifests of the next level: 2^k paths on 2k+1 manifests). Node 0 is the active manifest.
//! Manifests are built bottom-up (DFS post-order), so every edge whose target is already built carries the
//! correct manifest-box hash; only DFS back edges (which exist iff the source lies on a cycle) carry a dummy hash.
//!
//! Every case runs in a WORKER SUBPROCESS (re-exec with VERIF_C19_WORKER) on a thread with Rust's default 2 MiB
//! stack, so a stack overflow or abort kills only the worker and is attributed to the exact case.
//!
//! Mutants caught (tools/mutant_run.sh I <diff> C19 quick):
//!   /verif/mutants/C19-depth-limit-raised.diff   (MAX_INGREDIENT_DEPTH 200 -> 100000: the 300-chain reads Valid)
//!   /verif/mutants/C19-no-visited-memo.diff      (ingredient_checks recurses into already visited ingredients:
//!                                                  ladder blows the per-case budgets)
//!   /verif/mutants/C19-missing-ingredient-informational.diff (absent ingredient manifest only informational: dangling graphs read Valid)

use c2pa::{
    assertions::{Action, Actions, DataHash},
    verif_hooks::{graph, label as vlabel, store_to_jumbf, Claim, Store},
    ClaimGeneratorInfo, Context, DigitalSourceType, HashedUri, Reader, Relationship,
};
use kit::{par, sdk, workers, Run};
use serde_json::{json, Value};
use sha2::{Digest, Sha256};
use std::io::Cursor;

const ENV: &str = "VERIF_C19_WORKER";
/// `MAX_INGREDIENT_DEPTH` named by the property's anchors.
const LIMIT: usize = 200;
const BUDGET_MS: u64 = 2000;

#[derive(Clone, Debug, PartialEq)]
enum Case {
    /// n manifests; bit i*n+j = edge i->j; if `dangling`, bit n*n+i = edge i->absent manifest
    Small { n: usize, bits: u32, dangling: bool },
    Chain(usize),
    Star(usize),
    Ladder(usize),
}

impl Case {
    fn to_json(&self) -> Value {
        match self {
            Case::Small { n, bits, dangling } => json!({"kind":"small","n":n,"bits":bits,"dangling":dangling}),
            Case::Chain(n) => json!({"kind":"chain","n":n}),
            Case::Star(n) => json!({"kind":"star","n":n}),
            Case::Ladder(k) => json!({"kind":"ladder","k":k}),
        }
    }
    fn from_json(v: &Value) -> Option<Case> {
        let u = |k: &str| v[k].as_u64().map(|x| x as usize);
        Some(match v["kind"].as_str()? {
            "small" => Case::Small { n: u("n")?, bits: v["bits"].as_u64()? as u32, dangling: v["dangling"].as_bool()? },
            "chain" => Case::Chain(u("n")?),
            "star" => Case::Star(u("n")?),
            "ladder" => Case::Ladder(u("k")?),
            _ => return None,
        })
    }
    /// (number of manifests, adjacency; target == n means the absent manifest)
    fn graph(&self) -> (usize, Vec<Vec<usize>>) {
        match *self {
            Case::Small { n, bits, dangling } => {
                let mut adj = vec![vec![]; n];
                for i in 0..n {
                    for j in 0..n {
                        if bits >> (i * n + j) & 1 == 1 {
                            adj[i].push(j);
                        }
                    }
                    if dangling && bits >> (n * n + i) & 1 == 1 {
                        adj[i].push(n);
                    }
                }
                (n, adj)
            }
            Case::Chain(n) => (n, (0..n).map(|i| if i + 1 < n { vec![i + 1] } else { vec![] }).collect()),
            Case::Star(l) => {
                let mut adj = vec![vec![]; l + 1];
                adj[0] = (1..=l).collect();
                (l + 1, adj)
            }
            Case::Ladder(k) => {
                // node 0 -> level 1 {1,2} -> level 2 {3,4} ... level k {2k-1, 2k}
                let n = 2 * k + 1;
                let mut adj = vec![vec![]; n];
                if k > 0 {
                    adj[0] = vec![1, 2];
                }
                for lv in 1..k {
                    let (a, b) = (2 * lv - 1, 2 * lv);
                    let (c, d) = (2 * lv + 1, 2 * lv + 2);
                    adj[a] = vec![c, d];
                    adj[b] = vec![c, d];
                }
                (n, adj)
            }
        }
    }
}

fn cases(thorough: bool) -> Vec<Case> {
    let mut v = vec![];
    for n in 1..=3usize {
        for bits in 0..(1u32 << (n * n + n)) {
            v.push(Case::Small { n, bits, dangling: true });
        }
    }
    if thorough {
        for bits in 0..(1u32 << 16) {
            v.push(Case::Small { n: 4, bits, dangling: false });
        }
    }
    for n in [2usize, 50, 150, 199, 200, 201, 300] {
        v.push(Case::Chain(n));
    }
    v.push(Case::Star(300));
    for k in if thorough { vec![2usize, 8, 16, 24, 60, 99] } else { vec![2usize, 8, 16, 24] } {
        v.push(Case::Ladder(k));
    }
    v
}

/// Ground truth from the graph alone.
#[derive(Debug, Clone, Copy)]
struct Truth {
    reachable_cycle: bool,
    reachable_dangling: bool,
    /// number of manifests on the longest simple path from node 0 (only meaningful when acyclic)
    depth_manifests: usize,
    all_reachable: bool,
    edges: usize,
}

fn truth(n: usize, adj: &[Vec<usize>]) -> Truth {
    // reachability (iterative)
    let mut reach = vec![false; n];
    let mut st = vec![0usize];
    reach[0] = true;
    let mut dangling = false;
    while let Some(u) = st.pop() {
        for &t in &adj[u] {
            if t == n {
                dangling = true;
            } else if !reach[t] {
                reach[t] = true;
                st.push(t);
            }
        }
    }
    // cycle among reachable nodes: iterative colouring DFS
    let mut colour = vec![0u8; n];
    let mut cyc = false;
    let mut order: Vec<usize> = vec![];
    let mut stack: Vec<(usize, usize)> = vec![(0, 0)];
    colour[0] = 1;
    while let Some(top) = stack.last_mut() {
        let (u, k) = (top.0, top.1);
        if k < adj[u].len() {
            top.1 += 1;
            let t = adj[u][k];
            if t == n {
                continue;
            }
            match colour[t] {
                0 => {
                    colour[t] = 1;
                    stack.push((t, 0));
                }
                1 => cyc = true,
                _ => {}
            }
        } else {
            colour[u] = 2;
            order.push(u);
            stack.pop();
        }
    }
    // longest path (post-order gives reverse topological order when acyclic)
    let mut depth = vec![1usize; n];
    if !cyc {
        for &u in &order {
            for &t in &adj[u] {
                if t != n {
                    depth[u] = depth[u].max(depth[t] + 1);
                }
            }
        }
    }
    Truth {
        reachable_cycle: cyc,
        reachable_dangling: dangling,
        depth_manifests: depth[0],
        all_reachable: reach.iter().all(|x| *x),
        edges: adj.iter().map(|a| a.len()).sum(),
    }
}

fn label(i: usize) -> String {
    format!("urn:c2pa:{:08x}-0000-4000-8000-{:012x}", i + 1, i + 1)
}

fn build_ctx() -> Context {
    // Context::with_settings replaces the settings: state the kit's base settings again
    sdk::ctx_with(&[r#"{"builder":{"thumbnail":{"enabled":false}},"verify":{"verify_after_sign":false,"verify_after_reading":false,"ocsp_fetch":false,"remote_manifest_fetch":false}}"#])
}

/// Build the crafted store for a graph. Returns the JUMBF bytes.
fn build_store(n: usize, adj: &[Vec<usize>], asset: &[u8]) -> Result<Vec<u8>, String> {
    let signer = sdk::fixture_signer("ed25519");
    let ctx = build_ctx();
    let asset_hash = Sha256::digest(asset).to_vec();
    // DFS post-order over all nodes, node 0 first (iterative)
    let mut order: Vec<usize> = vec![];
    let mut seen = vec![false; n];
    for root in 0..n {
        if seen[root] {
            continue;
        }
        seen[root] = true;
        let mut stack: Vec<(usize, usize)> = vec![(root, 0)];
        while let Some(top) = stack.last_mut() {
            let (u, k) = (top.0, top.1);
            if k < adj[u].len() {
                top.1 += 1;
                let t = adj[u][k];
                if t != n && !seen[t] {
                    seen[t] = true;
                    stack.push((t, 0));
                }
            } else {
                order.push(u);
                stack.pop();
            }
        }
    }
    let mut hashes: Vec<Option<Vec<u8>>> = vec![None; n];
    let mut claims: Vec<Option<Claim>> = (0..n).map(|_| None).collect();
    for &i in &order {
        let e = |what: &str, e: c2pa::Error| format!("{what} (manifest {i}): {e:?}");
        let mut claim = Claim::new_with_user_guid("verif", label(i).as_str(), 2).map_err(|x| e("Claim::new_with_user_guid", x))?;
        claim.add_claim_generator_info(ClaimGeneratorInfo::new("verif"));
        let actions = Actions::new().add_action(Action::new("c2pa.created").set_source_type(DigitalSourceType::Empty));
        claim.add_assertion(&actions).map_err(|x| e("add actions", x))?;
        let mut dh = DataHash::new("jumbf manifest", "sha256");
        dh.set_hash(asset_hash.clone());
        claim.add_assertion(&dh).map_err(|x| e("add data hash", x))?;
        for &t in &adj[i] {
            let h = if t < n { hashes[t].clone() } else { None };
            let uri = HashedUri::new(vlabel::to_manifest_uri(&label(t)), Some("sha256".into()), &h.unwrap_or_else(|| vec![0u8; 32]));
            graph::add_ingredient_ref(&mut claim, &format!("m{t}"), Relationship::ComponentOf, uri, None).map_err(|x| e("add ingredient", x))?;
        }
        graph::sign_claim_in_place(&mut claim, signer.as_ref(), &ctx).map_err(|x| e("sign claim", x))?;
        hashes[i] = Some(graph::manifest_hashes(&claim).map_err(|x| e("manifest hash", x))?.0);
        claims[i] = Some(claim);
    }
    let mut store = Store::from_context(&ctx);
    for &i in order.iter().filter(|i| **i != 0) {
        graph::insert_claim(&mut store, claims[i].take().ok_or("claim built twice")?);
    }
    graph::insert_claim(&mut store, claims[0].take().ok_or("active claim missing")?);
    store_to_jumbf(&store).map_err(|e| format!("store_to_jumbf: {e:?}"))
}

#[derive(Debug, Clone)]
struct Obs {
    /// "Valid" | "Trusted" | "Invalid" | "Err(kind)" | "PANIC ..."
    state: String,
    log_len: usize,
    failure_codes: Vec<String>,
    wall_ms: u64,
    cpu_ms: u64,
}

fn count_codes(v: &Value, failures: &mut Vec<String>, in_failure: bool) -> usize {
    match v {
        Value::Object(m) => {
            let mut n = 0;
            if let Some(c) = m.get("code").and_then(|c| c.as_str()) {
                n += 1;
                if in_failure && !failures.iter().any(|f| f == c) {
                    failures.push(c.to_string());
                }
            }
            for (k, x) in m {
                n += count_codes(x, failures, in_failure || k == "failure");
            }
            n
        }
        Value::Array(a) => a.iter().map(|x| count_codes(x, failures, in_failure)).sum(),
        _ => 0,
    }
}

fn observe(f: impl FnOnce() -> c2pa::Result<Reader>) -> Obs {
    let t0 = std::time::Instant::now();
    let c0 = workers::thread_cpu_us();
    let r = par::guard(f);
    let cpu_ms = (workers::thread_cpu_us() - c0) / 1000;
    let wall_ms = t0.elapsed().as_millis() as u64;
    match r {
        Err(p) => Obs { state: format!("PANIC {p}"), log_len: 0, failure_codes: vec![], wall_ms, cpu_ms },
        Ok(Err(e)) => Obs { state: format!("Err({})", sdk::err_kind(&e)), log_len: 0, failure_codes: vec![], wall_ms, cpu_ms },
        Ok(Ok(rd)) => {
            let mut failures = vec![];
            let vr = rd.validation_results().map(|v| serde_json::to_value(v).unwrap_or(Value::Null)).unwrap_or(Value::Null);
            let n = count_codes(&vr, &mut failures, false);
            failures.sort();
            Obs { state: sdk::state_name(rd.validation_state()).to_string(), log_len: n, failure_codes: failures, wall_ms, cpu_ms }
        }
    }
}

/// Execute one case completely (build + both entry points). Returns (truth, observations) or a build error.
fn execute(case: &Case) -> Result<(Truth, usize, Vec<(&'static str, Obs)>), String> {
    let (n, adj) = case.graph();
    let asset = kit::assets::jpeg();
    let tr = truth(n, &adj);
    let jumbf = par::guard(|| build_store(n, &adj, &asset)).map_err(|p| format!("panic while building: {p}"))??;
    // run on a thread with the default (2 MiB) stack: the environment an application thread offers
    let (j2, a2) = (jumbf.clone(), asset.clone());
    let h = std::thread::Builder::new()
        .name("c19-case".into())
        .spawn(move || {
            // a validation that exceeds the CPU budget is repeated (up to 3 executions, the fastest counts): the box is shared
            let confirm = |f: &dyn Fn() -> Obs| {
                let mut o = f();
                for _ in 0..2 {
                    if o.cpu_ms <= BUDGET_MS {
                        break;
                    }
                    let o2 = f();
                    if o2.cpu_ms < o.cpu_ms {
                        o = o2;
                    }
                }
                o
            };
            let a = confirm(&|| observe(|| Reader::from_context(sdk::ctx()).with_manifest_data_and_stream(&j2, "image/jpeg", Cursor::new(&a2))));
            let b = confirm(&|| observe(|| Reader::from_context(sdk::ctx()).with_stream("application/c2pa", Cursor::new(&j2))));
            vec![("manifest_data_and_stream", a), ("c2pa_stream", b)]
        })
        .map_err(|e| format!("spawn: {e}"))?;
    let obs = h.join().map_err(|_| "case thread panicked outside guard".to_string())?;
    Ok((tr, n, obs))
}

/// Apply the oracle. Returns (class, violations[(key, what)], machinery problem)
fn judge(case: &Case, tr: &Truth, n: usize, obs: &[(&'static str, Obs)]) -> (String, Vec<(String, String)>, Option<String>) {
    let over_deep = !tr.reachable_cycle && tr.depth_manifests > LIMIT + 1;
    // 200 and 201 manifests sit on the two readings of "deeper than the limit" (edges vs manifests): no expectation
    let boundary = !tr.reachable_cycle && (tr.depth_manifests == LIMIT || tr.depth_manifests == LIMIT + 1);
    let malformed = tr.reachable_cycle || tr.reachable_dangling || over_deep;
    let class = if tr.reachable_cycle && tr.reachable_dangling {
        "cyclic+dangling"
    } else if tr.reachable_cycle {
        "cyclic"
    } else if tr.reachable_dangling {
        "dangling"
    } else if over_deep {
        "over-deep"
    } else if boundary {
        "depth-boundary"
    } else if tr.all_reachable {
        "control"
    } else {
        "well-formed-with-unreferenced-manifests"
    };
    let shape = match case {
        Case::Small { n, .. } => format!("graph{n}"),
        Case::Chain(_) => "chain".into(),
        Case::Star(_) => "star".into(),
        Case::Ladder(_) => "ladder".into(),
    };
    let mut viol = vec![];
    let mut mach = None;
    let log_bound = 64 * (n + tr.edges + 1) * (n + tr.edges + 1);
    for (ep, o) in obs {
        if o.state.starts_with("PANIC") {
            viol.push((format!("panic class={class} shape={shape} entry={ep}"), format!("{}: {}", ep, o.state)));
            continue;
        }
        if o.cpu_ms > BUDGET_MS {
            viol.push((
                format!("slow class={class} shape={shape} entry={ep}"),
                format!("{ep}: validation used {} ms CPU ({} ms wall) for {n} manifests / {} edges (budget {BUDGET_MS} ms)", o.cpu_ms, o.wall_ms, tr.edges),
            ));
        }
        if o.log_len > log_bound {
            viol.push((
                format!("log-blowup class={class} shape={shape} entry={ep}"),
                format!("{ep}: {} validation status entries for {n} manifests / {} edges (bound 64*(n+e+1)^2 = {log_bound})", o.log_len, tr.edges),
            ));
        }
        let accepted = o.state == "Valid" || o.state == "Trusted";
        if malformed && accepted {
            viol.push((
                format!("malformed-accepted class={class} shape={shape} entry={ep}"),
                format!("{ep}: {class} ingredient graph reported {}", o.state),
            ));
        }
        if class == "control" && *ep == "manifest_data_and_stream" && !accepted {
            mach = Some(format!("acyclic well-hashed control {:?} is not Valid via {ep}: {} {:?}", case, o.state, o.failure_codes));
        }
    }
    (class.to_string(), viol, mach)
}

fn counters_zero() -> Value {
    json!({"evals":0,"outcomes":{},"nontrivial":0})
}

pub fn run(run: &Run, replay: Option<&Value>) {
    // ---------------------------------------------------------------- worker mode
    if let Some(spec) = workers::worker_spec(ENV) {
        let all = case_list(run);
        let mut delta = counters_zero();
        let delta_cell = std::cell::RefCell::new(&mut delta);
        workers::worker_loop(
            &spec,
            64,
            |idx, emit| {
                let case = &all[idx as usize];
                let mut dg = delta_cell.borrow_mut();
                match execute(case) {
                    Err(m) => emit.line(json!({"machinery": format!("case {:?}: {m}", case)})),
                    Ok((tr, n, obs)) => {
                        let (class, viol, mach) = judge(case, &tr, n, &obs);
                        for (ep, o) in &obs {
                            dg["evals"] = json!(dg["evals"].as_u64().unwrap_or(0) + 1);
                            let oc = format!("{class}/{ep}:{}", o.state.split(' ').next().unwrap_or(""));
                            let cur = dg["outcomes"][&oc].as_u64().unwrap_or(0);
                            dg["outcomes"][&oc] = json!(cur + 1);
                        }
                        if class != "control" {
                            dg["nontrivial"] = json!(dg["nontrivial"].as_u64().unwrap_or(0) + 1);
                        }
                        for (key, what) in viol {
                            emit.line(json!({"violation": {"key": key, "what": what, "case": case.to_json()}}));
                        }
                        if let Some(m) = mach {
                            emit.line(json!({"machinery": m}));
                        }
                        if !matches!(case, Case::Small { .. }) || idx % 997 == 0 {
                            emit.line(json!({"sample": {"case": case.to_json(), "class": class,
                                "observations": obs.iter().map(|(ep, o)| json!({"entry": ep, "state": o.state, "failure_codes": o.failure_codes,
                                    "status_entries": o.log_len, "cpu_ms": o.cpu_ms})).collect::<Vec<_>>()}}));
                        }
                    }
                }
            },
            || {
                let mut dg = delta_cell.borrow_mut();
                std::mem::replace(&mut **dg, counters_zero())
            },
        );
    }

    run.rule(
        "ingredient graphs encoded as crafted stores, node 0 active: every directed graph (self loops allowed) on 1..3 manifests with an optional edge from each \
         manifest to one absent manifest (4+64+4096), thorough: plus all 65536 graphs on 4 manifests; chains of 2/50/150/199/200/201/300 manifests, a 300-leaf star, \
         ladders (2^k paths) k=2/8/16/24 (thorough also 60/99). Each case is validated through Reader::with_manifest_data_and_stream(store, tiny JPEG) and \
         Reader::with_stream(\"application/c2pa\", store). non-trivial = cases that are not plain acyclic fully-referenced controls (cyclic, dangling, over-deep, \
         depth-boundary, or carrying unreferenced manifests).",
    );
    run.assume("'malformed' is judged on the part of the graph reachable from the active manifest (node 0): a cycle or absent target only among manifests that the active manifest does not reference, directly or indirectly, carries no expectation (outcome recorded)");
    run.assume("the depth limit is MAX_INGREDIENT_DEPTH = 200 as named in the property; chains of 200 and 201 manifests lie between the two readings of 'deeper than the limit' and carry no expectation, 300 must not be Valid, <= 199 is a control");
    run.assume("a cyclic graph cannot carry correct hashes on all edges; DFS back edges carry a 32-byte zero hash, every other edge the correct manifest-box hash");
    run.assume("validation runs on a thread with Rust's default 2 MiB stack inside a worker subprocess; time budget is 2 s of thread CPU time per validation, the fastest of up to 3 executions when exceeded (wall clock is recorded but the box is shared)");

    if let Some(c) = replay {
        let case = Case::from_json(c).unwrap_or_else(|| kit::ev::machinery("C19 replay: unreadable case"));
        let (n, adj) = case.graph();
        println!("replay {:?}: truth {:?}", case, truth(n, &adj));
        std::env::set_var(CASES_ENV, json!([case.to_json()]).to_string());
        drive(run, vec![case], true);
        return;
    }

    // ---------------------------------------------------------------- parent
    // determinism of one cyclic and one control case (fresh salts and signatures each time)
    for probe in [Case::Small { n: 3, bits: 0b000_100_010, dangling: true }, Case::Small { n: 3, bits: 0b001_100_010, dangling: true }] {
        let a = execute(&probe).unwrap_or_else(|m| kit::ev::machinery(format!("C19 probe {:?}: {m}", probe)));
        let b = execute(&probe).unwrap_or_else(|m| kit::ev::machinery(format!("C19 probe {:?}: {m}", probe)));
        let sig = |x: &(Truth, usize, Vec<(&'static str, Obs)>)| x.2.iter().map(|(e, o)| format!("{e}:{}:{:?}:{}", o.state, o.failure_codes, o.log_len)).collect::<Vec<_>>();
        if sig(&a) != sig(&b) {
            kit::ev::machinery(format!("C19: probe {:?} is not deterministic: {:?} vs {:?}", probe, sig(&a), sig(&b)));
        }
        run.evals(4);
    }

    let all = cases(run.tier.is_thorough());
    let small3 = all.iter().filter(|c| matches!(c, Case::Small { n, .. } if *n <= 3)).count() as u64;
    run.space("directed graphs with self loops on 1..=3 manifests x optional edge to one absent manifest per node", small3, true);
    if run.tier.is_thorough() {
        run.space("directed graphs with self loops on 4 manifests", 65_536, true);
    }
    run.space("chains (2,50,150,199,200,201,300), star(300), ladders", all.len() as u64 - small3 - if run.tier.is_thorough() { 65_536 } else { 0 }, true);
    drive(run, all, false);
}

/// Case list: the tier's list, or the explicit list of a replay (passed to workers through the environment).
const CASES_ENV: &str = "VERIF_C19_CASES";
fn case_list(run: &Run) -> Vec<Case> {
    match std::env::var(CASES_ENV) {
        Ok(s) => serde_json::from_str::<Value>(&s)
            .ok()
            .and_then(|v| v.as_array().map(|a| a.iter().filter_map(Case::from_json).collect::<Vec<_>>()))
            .unwrap_or_else(|| kit::ev::machinery("C19: unreadable case list in environment")),
        Err(_) => cases(run.tier.is_thorough()),
    }
}

/// Run `all` in worker subprocesses and record results in `run`.
fn drive(run: &Run, all: Vec<Case>, verbose: bool) {
    let dir = tempfile::tempdir().unwrap_or_else(|e| kit::ev::machinery(format!("tempdir: {e}")));
    let cfg = workers::PoolCfg {
        env: ENV,
        args: vec!["C19".into(), "--tier".into(), run.tier.name().into()],
        dir: dir.path(),
        total: all.len() as u64,
        workers: par::workers() as u64,
        hang_secs: 120,
        extra_env: vec![],
    };
    let mut machinery: Option<String> = None;
    let mut deaths: Vec<workers::Death> = vec![];
    workers::run_pool(
        &cfg,
        |line| {
            if verbose {
                println!("  {line}");
            }
            if let Some(m) = line.get("machinery").and_then(|m| m.as_str()) {
                if machinery.is_none() {
                    machinery = Some(m.to_string());
                }
            } else if let Some(v) = line.get("violation") {
                run.violation(v["key"].as_str().unwrap_or("?"), v["what"].as_str().unwrap_or(""), v["case"].clone());
            } else if let Some(s) = line.get("sample") {
                run.sample(s.clone());
            }
        },
        |delta| {
            run.evals(delta["evals"].as_u64().unwrap_or(0));
            run.nontrivial_n(delta["nontrivial"].as_u64().unwrap_or(0));
            if let Some(m) = delta["outcomes"].as_object() {
                for (k, v) in m {
                    run.outcome_n(k.clone(), v.as_u64().unwrap_or(0));
                }
            }
        },
        |d| deaths.push(d),
    );
    if let Some(m) = machinery {
        kit::ev::machinery(format!("C19: {m}"));
    }
    for d in deaths {
        let case = &all[d.idx as usize];
        let (n, adj) = case.graph();
        let tr = truth(n, &adj);
        let shape = match case {
            Case::Small { n, .. } => format!("graph{n}"),
            Case::Chain(_) => "chain".into(),
            Case::Star(_) => "star".into(),
            Case::Ladder(_) => "ladder".into(),
        };
        let kind = if d.how.starts_with("hang") { "hang" } else { "worker-death" };
        run.eval();
        run.outcome(format!("{kind}:{}", d.how.split(' ').take(2).collect::<Vec<_>>().join(" ")));
        run.violation(
            format!("{kind} shape={shape} cyclic={} dangling={} how={}", tr.reachable_cycle, tr.reachable_dangling, d.how.split(" (").next().unwrap_or("")),
            format!("validating {:?} ended the worker: {}", case, d.how),
            case.to_json(),
        );
    }
}

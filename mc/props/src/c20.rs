//! C20 — redaction removes exactly the requested assertions and stays verifiable.
//!
//! S-inp, three parts, each exhaustive over its stated space:
//!  (1) builder chains through the public Builder (`definition.redactions` + `c2pa.redacted` actions):
//!      A <- B (every subset of A's K redactable assertions), A <- B <- C (B redacts S1 of A; C redacts every subset of
//!      what is left of A and every subset of B's), and the diamond A <- {B1 redacting S1, B2 redacting S2} <- C
//!      redacting S3 (conflict resolution between two differently redacted copies of A);
//!  (2) disallowed targets through the Builder (actions, hard binding, own assertion, each combined with every subset of
//!      allowed ones) and, because the Builder refuses them, the same redactions CRAFTED at byte level: the active claim's
//!      CBOR gets a `redacted_assertions` entry, the target assertion box is deleted from the store, the claim is re-signed;
//!  (3) post-hoc deletion: every assertion box of every manifest of A<-B stores deleted without a redaction entry
//!      (with and without a legitimate redaction of another assertion in the same manifest); the store must still parse.
//!  (4) repeated labels: an ingredient with 3 instances of one user label (label, label__1, label__2), one distinct label and, if accepted,
//!      2 instances of a c2pa-namespaced label; every subset of the instances redacted by B (embedded and detached); for every redaction set
//!      every non-redacted assertion box of the ingredient and of B deleted without a redaction entry, and the payload of every non-redacted
//!      instance altered in place.
//! Oracle (property text): after a successful redacting sign the output bytes contain none of the redacted assertions'
//! marker payloads, read back Valid/Trusted, the active manifest lists exactly the requested redactions, unrequested
//! marker payloads are still there; every disallowed / undeclared case is a sign error or reads not Valid.
//!
//! Mutants caught (tools/mutant_run.sh I <diff> C20 quick):
//!   /tmp/seed-C20/OUT/patch.diff (independently seeded: the redaction skip in verify_internal ignores the assertion instance) -> part (4),
//!                                 keys undeclared-removal-valid ... sibling-instance-redacted=true / undeclared-modification-valid ...
//!   /verif/mutants/C20-hash-redaction-allowed.diff   (verify_internal no longer rejects redacted c2pa.hash.* assertions)
//!   /verif/mutants/C20-missing-assertion-ignored.diff (an assertion listed by the claim but absent from the store is ignored)
//!   /verif/mutants/C20-redaction-not-applied.diff    (Claim::redact_assertion reports success without removing the assertion)

use c2pa::{Builder, BuilderIntent, Reader};
use kit::{cbor, par, sdk, Run};
use serde_json::{json, Value};
use std::{collections::BTreeSet, io::Cursor, sync::Mutex};

const MIME: &str = "image/jpeg";

fn marker(who: &str, i: usize) -> String {
    format!("VERIF-MARK-{who}-{i}-7c1f93ab")
}
fn alabel(who: &str, i: usize) -> String {
    // mixed kinds: plain custom CBOR assertions and one schema.org JSON-LD assertion
    if i == 2 {
        "stds.schema-org.CreativeWork".to_string()
    } else {
        format!("org.verif.{}{}", who.to_lowercase(), i)
    }
}

fn definition(who: &str, k: usize, label: Option<&str>) -> String {
    let mut assertions = vec![];
    for i in 0..k {
        if i == 2 {
            assertions.push(json!({"label": alabel(who, i), "data": {"@context":"https://schema.org","@type":"CreativeWork","author":[{"@type":"Person","name": marker(who, i)}]}}));
        } else {
            assertions.push(json!({"label": alabel(who, i), "data": {"marker": marker(who, i), "n": i}}));
        }
    }
    let mut d = json!({"title": who, "claim_generator_info":[{"name":"verif","version":"1"}], "assertions": assertions});
    if let Some(l) = label {
        d["label"] = json!(l);
    }
    d.to_string()
}

fn uri(manifest: &str, assertion: &str) -> String {
    c2pa::verif_hooks::label::to_assertion_uri(manifest, assertion)
}

fn contains(hay: &[u8], needle: &[u8]) -> bool {
    hay.windows(needle.len()).any(|w| w == needle)
}

/// Sign `src` (Edit intent: the source becomes the parent ingredient when it carries a manifest) with definition `def`,
/// redacting `redactions`, with extra ingredients. Returns signed bytes.
fn sign_step(def: &str, redactions: &[String], extra_ingredients: &[&[u8]], src: &[u8], first: bool) -> Result<c2pa::Result<Vec<u8>>, String> {
    par::guard(|| {
        let mut b = Builder::from_context(sdk::ctx()).with_definition(def)?;
        if first {
            b.set_intent(BuilderIntent::Create(c2pa::DigitalSourceType::Empty));
        } else {
            b.set_intent(BuilderIntent::Edit);
        }
        for (i, ing) in extra_ingredients.iter().enumerate() {
            b.add_ingredient_from_stream(json!({"title": format!("extra{i}"), "relationship": "componentOf"}).to_string(), MIME, &mut Cursor::new(*ing))?;
        }
        if !redactions.is_empty() {
            b.definition.redactions = Some(redactions.to_vec());
            for r in redactions {
                b.add_action(json!({"action":"c2pa.redacted","reason":"c2pa.PII.present","parameters":{"redacted": r}}))?;
            }
        }
        let signer = sdk::fixture_signer("ed25519");
        let mut dst = Cursor::new(Vec::new());
        b.sign(signer.as_ref(), MIME, &mut Cursor::new(src), &mut dst)?;
        Ok(dst.into_inner())
    })
}

struct ReadBack {
    state: String,
    failures: Vec<String>,
    active_label: String,
    active_redactions: BTreeSet<String>,
}

fn read_back(bytes: &[u8]) -> Result<ReadBack, String> {
    match par::guard(|| Reader::from_context(sdk::ctx()).with_stream(MIME, Cursor::new(bytes))) {
        Err(p) => Err(format!("PANIC {p}")),
        Ok(Err(e)) => Err(format!("Err({})", sdk::err_kind(&e))),
        Ok(Ok(r)) => {
            let mut failures: Vec<String> = r
                .validation_results()
                .and_then(|v| serde_json::to_value(v).ok())
                .map(|v| {
                    let mut f = vec![];
                    collect_failures(&v, false, &mut f);
                    f
                })
                .unwrap_or_default();
            failures.sort();
            failures.dedup();
            Ok(ReadBack {
                state: sdk::state_name(r.validation_state()).to_string(),
                failures,
                active_label: r.active_label().unwrap_or("").to_string(),
                active_redactions: r.active_manifest().and_then(|m| m.redactions()).map(|r| r.iter().cloned().collect()).unwrap_or_default(),
            })
        }
    }
}

fn collect_failures(v: &Value, in_failure: bool, out: &mut Vec<String>) {
    match v {
        Value::Object(m) => {
            if in_failure {
                if let Some(c) = m.get("code").and_then(|c| c.as_str()) {
                    out.push(c.to_string());
                }
            }
            for (k, x) in m {
                collect_failures(x, in_failure || k == "failure", out);
            }
        }
        Value::Array(a) => a.iter().for_each(|x| collect_failures(x, in_failure, out)),
        _ => {}
    }
}

fn subset(mask: u32, k: usize) -> Vec<usize> {
    (0..k).filter(|i| mask >> i & 1 == 1).collect()
}

/// Judge one successful redacting step. `requested`: (owner, index, uri) redacted by this step; `gone_before`: markers redacted earlier
/// on the same linear chain; `present`: markers that must still be present.
#[allow(clippy::too_many_arguments)]
fn judge_step(
    run: &Run,
    shape: &str,
    out: &[u8],
    requested: &[(String, usize, String)],
    gone_before: &[(String, usize)],
    present: &[(String, usize)],
    case: &Value,
    demand_valid: bool,
    may_also_list: &BTreeSet<String>,
) {
    let rb = match read_back(out) {
        Ok(rb) => rb,
        Err(e) => {
            run.outcome(format!("{shape}:read-{}", e.split(' ').next().unwrap_or("")));
            if demand_valid {
                run.violation(format!("unreadable-after-redaction shape={shape} result={}", e.split(' ').next().unwrap_or("")), format!("output of a redacting sign cannot be read: {e}"), case.clone());
            }
            return;
        }
    };
    run.outcome(format!("{shape}:{}", rb.state));
    for (who, i, _) in requested {
        if contains(out, marker(who, *i).as_bytes()) {
            run.violation(
                format!("redacted-data-present shape={shape} owner={who}"),
                format!("output still contains the payload of redacted assertion {} of manifest {who}", alabel(who, *i)),
                case.clone(),
            );
        }
    }
    for (who, i) in gone_before {
        if contains(out, marker(who, *i).as_bytes()) {
            run.violation(
                format!("earlier-redacted-data-reappears shape={shape} owner={who}"),
                format!("payload of {} of {who}, redacted by an earlier manifest of the same chain, is present again", alabel(who, *i)),
                case.clone(),
            );
        }
    }
    for (who, i) in present {
        if !contains(out, marker(who, *i).as_bytes()) {
            run.violation(
                format!("unrequested-removed shape={shape} owner={who}"),
                format!("payload of {} of {who} disappeared although its redaction was not requested", alabel(who, *i)),
                case.clone(),
            );
        }
    }
    if demand_valid && rb.state != "Valid" && rb.state != "Trusted" {
        run.violation(
            format!("invalid-after-redaction shape={shape} codes={}", rb.failures.join(",")),
            format!("output of a successful redacting sign reads {} with {:?}", rb.state, rb.failures),
            case.clone(),
        );
    }
    let want: BTreeSet<String> = requested.iter().map(|r| r.2.clone()).collect();
    let extra_ok = rb.active_redactions.difference(&want).all(|u| may_also_list.contains(u));
    if !(want.is_subset(&rb.active_redactions) && extra_ok) {
        run.violation(
            format!("redactions-list-mismatch shape={shape} requested={} reported={}", want.len(), rb.active_redactions.len()),
            format!("requested {:?}, active manifest reports {:?}", want, rb.active_redactions),
            case.clone(),
        );
    }
}

// ------------------------------------------------------------------------------------------------------
// JUMBF tree (independent of the SDK): parse, edit, serialise with recomputed sizes
// ------------------------------------------------------------------------------------------------------
#[derive(Clone, Debug, PartialEq)]
enum JB {
    Super { children: Vec<JB> },
    Leaf { typ: [u8; 4], data: Vec<u8> },
}

fn jb_parse(d: &[u8], depth: usize) -> Result<Vec<JB>, String> {
    if depth > 16 {
        return Err("too deep".into());
    }
    let mut v = vec![];
    let mut p = 0;
    while p < d.len() {
        if p + 8 > d.len() {
            return Err("stray bytes".into());
        }
        let size = u32::from_be_bytes(d[p..p + 4].try_into().unwrap()) as usize;
        let typ: [u8; 4] = d[p + 4..p + 8].try_into().unwrap();
        if size < 8 || p + size > d.len() {
            return Err(format!("box size {size} at {p}"));
        }
        let body = &d[p + 8..p + size];
        v.push(if &typ == b"jumb" { JB::Super { children: jb_parse(body, depth + 1)? } } else { JB::Leaf { typ, data: body.to_vec() } });
        p += size;
    }
    Ok(v)
}

fn jb_write(b: &JB, out: &mut Vec<u8>) {
    match b {
        JB::Leaf { typ, data } => {
            out.extend_from_slice(&((data.len() + 8) as u32).to_be_bytes());
            out.extend_from_slice(typ);
            out.extend_from_slice(data);
        }
        JB::Super { children } => {
            let mut body = vec![];
            for c in children {
                jb_write(c, &mut body);
            }
            out.extend_from_slice(&((body.len() + 8) as u32).to_be_bytes());
            out.extend_from_slice(b"jumb");
            out.extend_from_slice(&body);
        }
    }
}

fn jb_label(b: &JB) -> Option<String> {
    if let JB::Super { children } = b {
        if let Some(JB::Leaf { typ, data }) = children.first() {
            if typ == b"jumd" && data.len() > 17 && data[16] & 0x02 != 0 {
                let l = &data[17..];
                let n = l.iter().position(|&c| c == 0).unwrap_or(l.len());
                return Some(String::from_utf8_lossy(&l[..n]).into_owned());
            }
        }
    }
    None
}

fn jb_child_mut<'a>(b: &'a mut JB, label: &str) -> Option<&'a mut JB> {
    if let JB::Super { children } = b {
        children.iter_mut().find(|c| jb_label(c).as_deref() == Some(label))
    } else {
        None
    }
}

fn jb_child_labels(b: &JB) -> Vec<String> {
    if let JB::Super { children } = b {
        children.iter().filter_map(jb_label).collect()
    } else {
        vec![]
    }
}

struct StoreTree {
    root: JB,
}
impl StoreTree {
    fn parse(d: &[u8]) -> Result<Self, String> {
        let mut v = jb_parse(d, 0)?;
        if v.len() != 1 {
            return Err("store is not a single superbox".into());
        }
        let t = StoreTree { root: v.remove(0) };
        if t.bytes() != d {
            return Err("JUMBF tree does not round-trip".into());
        }
        Ok(t)
    }
    fn bytes(&self) -> Vec<u8> {
        let mut o = vec![];
        jb_write(&self.root, &mut o);
        o
    }
    fn manifests(&self) -> Vec<String> {
        jb_child_labels(&self.root)
    }
    fn assertions(&self, manifest: &str) -> Vec<String> {
        if let JB::Super { children } = &self.root {
            for m in children {
                if jb_label(m).as_deref() == Some(manifest) {
                    if let JB::Super { children: mc } = m {
                        for b in mc {
                            if jb_label(b).as_deref() == Some("c2pa.assertions") {
                                return jb_child_labels(b);
                            }
                        }
                    }
                }
            }
        }
        vec![]
    }
    fn delete_assertion(&mut self, manifest: &str, assertion: &str) -> Result<(), String> {
        let m = jb_child_mut(&mut self.root, manifest).ok_or("manifest not found")?;
        let a = jb_child_mut(m, "c2pa.assertions").ok_or("assertion store not found")?;
        if let JB::Super { children } = a {
            let i = children.iter().position(|c| jb_label(c).as_deref() == Some(assertion)).ok_or("assertion not found")?;
            children.remove(i);
            Ok(())
        } else {
            Err("assertion store is not a superbox".into())
        }
    }
    /// Serialised bytes of one assertion superbox (None if absent).
    fn assertion_bytes(&self, manifest: &str, assertion: &str) -> Option<Vec<u8>> {
        if let JB::Super { children } = &self.root {
            for m in children {
                if jb_label(m).as_deref() != Some(manifest) {
                    continue;
                }
                if let JB::Super { children: mc } = m {
                    for b in mc {
                        if jb_label(b).as_deref() == Some("c2pa.assertions") {
                            if let JB::Super { children: ac } = b {
                                for a in ac {
                                    if jb_label(a).as_deref() == Some(assertion) {
                                        let mut o = vec![];
                                        jb_write(a, &mut o);
                                        return Some(o);
                                    }
                                }
                            }
                        }
                    }
                }
            }
        }
        None
    }
    /// XOR 0x01 into the last byte of the first occurrence of `needle` inside the content of one assertion (same length).
    fn flip_in_assertion(&mut self, manifest: &str, assertion: &str, needle: &[u8]) -> Result<(), String> {
        let m = jb_child_mut(&mut self.root, manifest).ok_or("manifest not found")?;
        let st = jb_child_mut(m, "c2pa.assertions").ok_or("assertion store not found")?;
        let a = jb_child_mut(st, assertion).ok_or("assertion not found")?;
        if let JB::Super { children } = a {
            for leaf in children.iter_mut().skip(1) {
                if let JB::Leaf { data, .. } = leaf {
                    if let Some(p) = data.windows(needle.len()).position(|w| w == needle) {
                        data[p + needle.len() - 1] ^= 0x01;
                        return Ok(());
                    }
                }
            }
        }
        Err("payload marker not found in the assertion content".into())
    }
    /// content of the single content box of manifest/<boxlabel> (claim or signature)
    fn content_mut(&mut self, manifest: &str, prefix: &str) -> Result<&mut Vec<u8>, String> {
        let m = jb_child_mut(&mut self.root, manifest).ok_or("manifest not found")?;
        if let JB::Super { children } = m {
            for c in children.iter_mut() {
                if jb_label(c).map(|l| l.starts_with(prefix)).unwrap_or(false) {
                    if let JB::Super { children: cc } = c {
                        for leaf in cc.iter_mut() {
                            if let JB::Leaf { typ, data } = leaf {
                                if typ == b"cbor" {
                                    return Ok(data);
                                }
                            }
                        }
                    }
                }
            }
        }
        Err(format!("no {prefix} content box"))
    }
    /// Add redaction URIs to the claim of `manifest` and re-sign it with the Ed25519 fixture signer.
    fn add_redactions_and_resign(&mut self, manifest: &str, uris: &[String]) -> Result<(), String> {
        let claim = self.content_mut(manifest, "c2pa.claim")?;
        let mut v = cbor::decode(claim)?;
        if cbor::encode(&v) != *claim {
            return Err("claim CBOR does not round-trip".into());
        }
        let arr: Vec<cbor::V> = uris.iter().map(|u| cbor::V::text(u)).collect();
        match v.get_mut("redacted_assertions") {
            Some(cbor::V::A(a)) => a.extend(arr),
            _ => {
                if let cbor::V::M(m) = &mut v {
                    m.push((cbor::V::text("redacted_assertions"), cbor::V::A(arr)));
                } else {
                    return Err("claim is not a map".into());
                }
            }
        }
        let new_claim = cbor::encode(&v);
        *claim = new_claim.clone();
        let sig = self.content_mut(manifest, "c2pa.signature")?;
        let signer = sdk::fixture_signer("ed25519");
        let new_sig = c2pa::verif_hooks::cose_sign_unchecked(signer.as_ref(), &new_claim, sig.len(), true).map_err(|e| format!("re-sign: {e:?}"))?;
        *sig = new_sig;
        Ok(())
    }
}

/// Sign with no_embed: returns (asset bytes unchanged, manifest store bytes)
fn sign_sidecar(def: &str, redactions: &[String], src: &[u8], first: bool) -> Result<(Vec<u8>, Vec<u8>), String> {
    let r = par::guard(|| -> c2pa::Result<(Vec<u8>, Vec<u8>)> {
        let mut b = Builder::from_context(sdk::ctx()).with_definition(def)?;
        b.set_intent(if first { BuilderIntent::Create(c2pa::DigitalSourceType::Empty) } else { BuilderIntent::Edit });
        b.set_no_embed(true);
        if !redactions.is_empty() {
            b.definition.redactions = Some(redactions.to_vec());
            for r in redactions {
                b.add_action(json!({"action":"c2pa.redacted","reason":"c2pa.PII.present","parameters":{"redacted": r}}))?;
            }
        }
        let signer = sdk::fixture_signer("ed25519");
        let mut dst = Cursor::new(Vec::new());
        let m = b.sign(signer.as_ref(), MIME, &mut Cursor::new(src), &mut dst)?;
        Ok((dst.into_inner(), m))
    });
    match r {
        Err(p) => Err(format!("panic {p}")),
        Ok(Err(e)) => Err(format!("{e:?}")),
        Ok(Ok(x)) => Ok(x),
    }
}

fn read_detached(store: &[u8], asset: &[u8]) -> (String, Vec<String>) {
    match par::guard(|| Reader::from_context(sdk::ctx()).with_manifest_data_and_stream(store, MIME, Cursor::new(asset))) {
        Err(p) => (format!("PANIC {p}"), vec![]),
        Ok(Err(e)) => (format!("Err({})", sdk::err_kind(&e)), vec![]),
        Ok(Ok(r)) => {
            let mut f = vec![];
            if let Some(v) = r.validation_results().and_then(|v| serde_json::to_value(v).ok()) {
                collect_failures(&v, false, &mut f);
            }
            f.sort();
            f.dedup();
            (sdk::state_name(r.validation_state()).to_string(), f)
        }
    }
}

fn store_parses(store: &[u8]) -> bool {
    par::guard(|| c2pa::verif_hooks::store_from_jumbf(store, &sdk::ctx()).is_ok()).unwrap_or(false)
}

pub fn run(run: &Run, replay: Option<&Value>) {
    let k: usize = run.tier.pick(3, 4);
    run.rule(
        "K redactable assertions per manifest (K=3 quick, 4 thorough; custom CBOR assertions and one schema.org assertion, each with a unique marker payload). \
         (1) A<-B: every subset of A's; A<-B<-C: every S1 (B redacts from A) x every subset of A\\S1 x every subset of B's (C redacts); diamond A<-{B1:S1,B2:S2}<-C:S3 \
         for every S1,S2 and every S3 of assertions still present in both copies. (2) disallowed targets {A's actions, A's hard binding, own assertion, unresolvable} x every \
         subset of allowed targets through the Builder, and the same plus an allowed control crafted at byte level (claim edited + re-signed, box deleted). \
         (3) deletion of every assertion box of A and of B in A<-B stores, without and with a legitimate redaction of another assertion. \
         (4) the same with REPEATED assertion labels in the ingredient: every subset of {1 distinct, 3 x org.verif.rep, 2 x c2pa-namespaced} instances redacted (embedded + detached), \
         and for every redaction set deletion of every non-redacted assertion box of both manifests and an in-place payload change of every non-redacted instance. \
         non-trivial = cases with at least one redaction, disallowed target, deleted box or altered payload.",
    );
    run.assume("signing errors of the Builder are outcomes, not violations (the property speaks about outputs); at least the linear-chain cases must sign, else machinery failure");
    run.assume("in the diamond only the redactions requested by the signing manifest C are required to be absent from the output; payloads redacted by only one of B1/B2 may legitimately survive in the other copy (recorded as outcome). When C merges the two copies of A it removes such one-sided assertions from the other copy itself, so C's list may additionally contain URIs from S1 xor S2 (and nothing else)");
    run.assume("byte-level cases use detached stores (Builder::set_no_embed) read with Reader::with_manifest_data_and_stream, so a JUMBF edit needs no container fix-up; the edited store must still parse with Store::from_jumbf");

    let jpeg = kit::assets::jpeg();
    // replay: the whole enumeration is re-created (labels are fresh on every run) but only the recorded case is executed and judged
    let want: Option<Value> = replay.cloned();
    let skip = |case: &Value| want.as_ref().map(|w| w != case).unwrap_or(false);
    if let Some(w) = &want {
        println!("replay of case {w}");
    }

    // ---------------- seed A ------------------------------------------------------------------------
    let a_out = match sign_step(&definition("A", k, None), &[], &[], &jpeg, true) {
        Ok(Ok(o)) => o,
        other => kit::ev::machinery(format!("C20: cannot sign seed A: {:?}", other.map(|r| r.map(|_| ()).map_err(|e| format!("{e:?}"))))),
    };
    let a_rb = read_back(&a_out).unwrap_or_else(|e| kit::ev::machinery(format!("C20: seed A unreadable: {e}")));
    if a_rb.state != "Valid" && a_rb.state != "Trusted" {
        kit::ev::machinery(format!("C20: seed A reads {} {:?}", a_rb.state, a_rb.failures));
    }
    // determinism: same read twice
    let a_rb2 = read_back(&a_out).unwrap_or_else(|e| kit::ev::machinery(format!("C20: seed A unreadable: {e}")));
    if a_rb2.state != a_rb.state || a_rb2.failures != a_rb.failures {
        kit::ev::machinery("C20: reading seed A twice differs");
    }
    run.evals(3);
    let a_label = a_rb.active_label.clone();
    for i in 0..k {
        if !contains(&a_out, marker("A", i).as_bytes()) {
            kit::ev::machinery("C20: marker payload not found in seed A (payload encoding changed?)");
        }
    }
    let a_uri = |i: usize| uri(&a_label, &alabel("A", i));

    // ---------------- (1a) A <- B, every subset -------------------------------------------------------
    let signed_chain = Mutex::new(0u64);
    let b_outs: Mutex<Vec<Option<(Vec<u8>, String)>>> = Mutex::new(vec![None; 1usize << k]);
    run.space("A<-B: subsets of A's redactable assertions", 1u64 << k, true);
    par::for_each_index(1u64 << k, |s1| {
        let s1 = s1 as u32;
        let red: Vec<String> = subset(s1, k).into_iter().map(a_uri).collect();
        let case = json!({"part":"chain2","s1":s1});
        let judged = !skip(&case);
        if judged {
            run.eval();
            if s1 != 0 {
                run.nontrivial(format!("chain2/{s1}"));
            }
        }
        match sign_step(&definition("B", k, None), &red, &[], &a_out, false) {
            Err(p) => {
                if judged {
                    run.violation("panic part=chain2".to_string(), format!("Builder::sign panicked: {p}"), case)
                }
            }
            Ok(Err(e)) => {
                if judged {
                    run.outcome(format!("chain2:sign-error:{}", sdk::err_kind(&e)));
                }
            }
            Ok(Ok(out)) => {
                *signed_chain.lock().unwrap() += 1;
                let requested: Vec<(String, usize, String)> = subset(s1, k).into_iter().map(|i| ("A".to_string(), i, a_uri(i))).collect();
                let present: Vec<(String, usize)> = (0..k).filter(|i| s1 >> i & 1 == 0).map(|i| ("A".to_string(), i)).chain((0..k).map(|i| ("B".to_string(), i))).collect();
                if judged {
                    judge_step(run, "chain2", &out, &requested, &[], &present, &case, true, &BTreeSet::new());
                }
                if let Ok(rb) = read_back(&out) {
                    b_outs.lock().unwrap()[s1 as usize] = Some((out, rb.active_label));
                }
            }
        }
    });
    if *signed_chain.lock().unwrap() == 0 {
        kit::ev::machinery("C20: no A<-B case could be signed");
    }
    let b_outs = b_outs.into_inner().unwrap();
    run.sample(json!({"part":"chain2","a_label":a_label,"redaction_uri_example":a_uri(0),"signed": *signed_chain.lock().unwrap()}));

    // ---------------- (1b) A <- B <- C ----------------------------------------------------------------
    let mut c_cases: Vec<(u32, u32, u32)> = vec![];
    for s1 in 0..(1u32 << k) {
        for s2 in 0..(1u32 << k) {
            if s2 & s1 != 0 {
                continue;
            }
            for t in 0..(1u32 << k) {
                c_cases.push((s1, s2, t));
            }
        }
    }
    run.space("A<-B<-C: S1 (B from A) x S2 subset of A\\S1 x T subset of B (C redacts)", c_cases.len() as u64, true);
    let c_signed = Mutex::new(0u64);
    par::for_each(&c_cases, |(s1, s2, t)| {
        let case = json!({"part":"chain3","s1":s1,"s2":s2,"t":t});
        if skip(&case) {
            return;
        }
        let Some((b_out, b_label)) = &b_outs[*s1 as usize] else { return };
        run.eval();
        if *s2 != 0 || *t != 0 {
            run.nontrivial(format!("chain3/{s1}/{s2}/{t}"));
        }
        let mut requested: Vec<(String, usize, String)> = subset(*s2, k).into_iter().map(|i| ("A".to_string(), i, a_uri(i))).collect();
        requested.extend(subset(*t, k).into_iter().map(|i| ("B".to_string(), i, uri(b_label, &alabel("B", i)))));
        let red: Vec<String> = requested.iter().map(|r| r.2.clone()).collect();
        match sign_step(&definition("C", k, None), &red, &[], b_out, false) {
            Err(p) => run.violation("panic part=chain3".to_string(), format!("Builder::sign panicked: {p}"), case),
            Ok(Err(e)) => run.outcome(format!("chain3:sign-error:{}", sdk::err_kind(&e))),
            Ok(Ok(out)) => {
                *c_signed.lock().unwrap() += 1;
                let gone: Vec<(String, usize)> = subset(*s1, k).into_iter().map(|i| ("A".to_string(), i)).collect();
                let mut present: Vec<(String, usize)> = (0..k).filter(|i| (s1 | s2) >> i & 1 == 0).map(|i| ("A".to_string(), i)).collect();
                present.extend((0..k).filter(|i| t >> i & 1 == 0).map(|i| ("B".to_string(), i)));
                present.extend((0..k).map(|i| ("C".to_string(), i)));
                judge_step(run, "chain3", &out, &requested, &gone, &present, &case, true, &BTreeSet::new());
                // B's own list must still be what B requested
                if let Ok(Ok(r)) = par::guard(|| Reader::from_context(sdk::ctx()).with_stream(MIME, Cursor::new(&out))) {
                    let want: BTreeSet<String> = subset(*s1, k).into_iter().map(a_uri).collect();
                    let got: BTreeSet<String> = r.get_manifest(b_label).and_then(|m| m.redactions()).map(|r| r.iter().cloned().collect()).unwrap_or_default();
                    if r.get_manifest(b_label).is_some() && want != got {
                        run.violation(
                            format!("ancestor-redactions-list-changed shape=chain3 requested={} reported={}", want.len(), got.len()),
                            format!("manifest B requested {:?} but reports {:?} once it is an ingredient of C", want, got),
                            case.clone(),
                        );
                    }
                }
            }
        }
    });
    if *c_signed.lock().unwrap() == 0 && want.is_none() {
        kit::ev::machinery("C20: no A<-B<-C case could be signed");
    }

    // ---------------- (1c) diamond ---------------------------------------------------------------------
    let mut d_cases: Vec<(u32, u32, u32)> = vec![];
    for s1 in 0..(1u32 << k) {
        for s2 in 0..(1u32 << k) {
            for s3 in 0..(1u32 << k) {
                if s3 & (s1 | s2) == 0 {
                    d_cases.push((s1, s2, s3));
                }
            }
        }
    }
    run.space("diamond A<-{B1:S1,B2:S2}<-C:S3, S3 disjoint from S1 and S2", d_cases.len() as u64, true);
    par::for_each(&d_cases, |(s1, s2, s3)| {
        let case = json!({"part":"diamond","s1":s1,"s2":s2,"s3":s3});
        if skip(&case) {
            return;
        }
        let (Some((b1, _)), Some((b2, _))) = (&b_outs[*s1 as usize], &b_outs[*s2 as usize]) else { return };
        run.eval();
        run.nontrivial(format!("diamond/{s1}/{s2}/{s3}"));
        let requested: Vec<(String, usize, String)> = subset(*s3, k).into_iter().map(|i| ("A".to_string(), i, a_uri(i))).collect();
        let red: Vec<String> = requested.iter().map(|r| r.2.clone()).collect();
        match sign_step(&definition("C", k, None), &red, &[b2.as_slice()], b1, false) {
            Err(p) => run.violation("panic part=diamond".to_string(), format!("Builder::sign panicked: {p}"), case),
            Ok(Err(e)) => run.outcome(format!("diamond:sign-error:{}", sdk::err_kind(&e))),
            Ok(Ok(out)) => {
                // payloads nobody redacted must still be there
                let present: Vec<(String, usize)> = (0..k).filter(|i| (s1 | s2 | s3) >> i & 1 == 0).map(|i| ("A".to_string(), i)).collect();
                // merging two differently redacted copies of A makes C itself remove the one-sided assertions from the other copy; C may list those
                let may: BTreeSet<String> = subset(s1 ^ s2, k).into_iter().map(a_uri).collect();
                judge_step(run, "diamond", &out, &requested, &[], &present, &case, true, &may);
                for i in subset(s1 ^ s2, k) {
                    run.outcome(format!("diamond:one-sided-redaction-payload-{}", if contains(&out, marker("A", i).as_bytes()) { "survives" } else { "gone" }));
                }
                for i in subset(s1 & s2, k) {
                    if contains(&out, marker("A", i).as_bytes()) {
                        run.violation(
                            "earlier-redacted-data-reappears shape=diamond owner=A".to_string(),
                            format!("payload of {} redacted by BOTH B1 and B2 is present in C's output", alabel("A", i)),
                            case.clone(),
                        );
                    }
                }
            }
        }
    });

    // ---------------- (2a) disallowed targets through the Builder ----------------------------------------
    // discover A's protected assertion labels from the report
    let a_refs: Vec<String> = par::guard(|| {
        Reader::from_context(sdk::ctx())
            .with_stream(MIME, Cursor::new(&a_out))
            .ok()
            .and_then(|r| r.active_manifest().map(|m| m.assertion_references().map(|h| h.url()).collect::<Vec<_>>()))
            .unwrap_or_default()
    })
    .unwrap_or_default();
    let a_actions = a_refs.iter().find(|u| u.contains("c2pa.actions")).cloned().unwrap_or_else(|| kit::ev::machinery("C20: seed A has no actions assertion"));
    let a_hash = a_refs.iter().find(|u| u.contains("c2pa.hash.")).cloned().unwrap_or_else(|| kit::ev::machinery("C20: seed A has no hard binding assertion"));
    let own_label = "urn:c2pa:0f0e0d0c-0b0a-4009-8807-060504030201";
    let disallowed: Vec<(&str, String, Option<&str>)> = vec![
        ("actions", a_actions.clone(), None),
        ("hard-binding", a_hash.clone(), None),
        ("own-assertion", uri(own_label, &alabel("B", 0)), Some(own_label)),
    ];
    let mut dis_cases: Vec<(usize, u32)> = vec![];
    for d in 0..disallowed.len() {
        for s in 0..(1u32 << k) {
            dis_cases.push((d, s));
        }
    }
    run.space("Builder: disallowed target x every subset of allowed targets (A<-B)", dis_cases.len() as u64, true);
    par::for_each(&dis_cases, |(d, s)| {
        let (name, target, own) = &disallowed[*d];
        let case = json!({"part":"disallowed-builder","target":name,"s":s});
        if skip(&case) {
            return;
        }
        run.eval();
        run.nontrivial(format!("disb/{name}/{s}"));
        let mut red: Vec<String> = subset(*s, k).into_iter().map(a_uri).collect();
        red.push(target.clone());
        match sign_step(&definition("B", k, *own), &red, &[], &a_out, false) {
            Err(p) => run.violation(format!("panic part=disallowed-builder target={name}"), format!("Builder::sign panicked: {p}"), case),
            Ok(Err(e)) => run.outcome(format!("disallowed-builder:{name}:sign-error:{}", sdk::err_kind(&e))),
            Ok(Ok(out)) => match read_back(&out) {
                Err(e) => run.outcome(format!("disallowed-builder:{name}:read-{}", e.split(' ').next().unwrap_or(""))),
                Ok(rb) => {
                    run.outcome(format!("disallowed-builder:{name}:{}", rb.state));
                    if rb.state == "Valid" || rb.state == "Trusted" {
                        run.violation(
                            format!("disallowed-redaction-valid via=builder target={name}"),
                            format!("manifest redacting {target} was signed and reads {}", rb.state),
                            case,
                        );
                    }
                }
            },
        }
    });

    // ---------------- (2b)+(3) byte-level cases on detached stores -----------------------------------------
    // B takes the EMBEDDED A as source but writes a detached store; the asset B binds to is the source stream (a_out) unchanged.
    let mk_b = |red: &[String], own: Option<&str>| sign_sidecar(&definition("B", k, own), red, &a_out, false);
    let (b_asset, b_store) = mk_b(&[], Some(own_label)).unwrap_or_else(|e| kit::ev::machinery(format!("C20: detached A<-B: {e}")));
    let (st, f) = read_detached(&b_store, &b_asset);
    run.eval();
    if st != "Valid" && st != "Trusted" {
        kit::ev::machinery(format!("C20: detached A<-B seed reads {st} {f:?}"));
    }
    let tree = StoreTree::parse(&b_store).unwrap_or_else(|e| kit::ev::machinery(format!("C20: independent JUMBF parser cannot interpret the seed store: {e}")));
    let manifests = tree.manifests();
    if manifests.len() != 2 || !manifests.contains(&a_label) || !manifests.contains(&own_label.to_string()) {
        kit::ev::machinery(format!("C20: detached A<-B store holds {:?}, expected A ({a_label}) and B", manifests));
    }
    run.sample(json!({"part":"detached-seed","manifests":manifests,"assertions_of_A":tree.assertions(&a_label),"assertions_of_B":tree.assertions(own_label)}));

    // (2b) crafted redactions: target deleted + listed in B's claim, B re-signed
    let a_assertions = tree.assertions(&a_label);
    let b_assertions = tree.assertions(own_label);
    struct Crafted {
        name: String,
        manifest: String,
        assertion: String,
        allowed: bool,
    }
    let mut crafted: Vec<Crafted> = vec![];
    for al in &a_assertions {
        let allowed = !(al.starts_with("c2pa.actions") || al.starts_with("c2pa.hash."));
        // ingredient/other structural assertions of A are neither "allowed controls" nor named by the property: skip expectation
        let is_marker = (0..k).any(|i| alabel("A", i) == *al);
        if allowed && !is_marker {
            continue;
        }
        crafted.push(Crafted { name: format!("A/{al}"), manifest: a_label.clone(), assertion: al.clone(), allowed });
    }
    for al in &b_assertions {
        crafted.push(Crafted { name: format!("own/{al}"), manifest: own_label.to_string(), assertion: al.clone(), allowed: false });
    }
    run.space("crafted (claim edited, box deleted, re-signed) redaction of each assertion of A (allowed ones are controls) and of each own assertion", crafted.len() as u64, true);
    let controls_valid = Mutex::new(0u64);
    par::for_each(&crafted, |c| {
        let case = json!({"part":"crafted","manifest": if c.manifest == a_label {"A"} else {"own"},"assertion":c.assertion});
        if skip(&case) {
            return;
        }
        run.eval();
        run.nontrivial(format!("crafted/{}", c.name));
        let mut t = StoreTree::parse(&b_store).unwrap();
        let r = t.delete_assertion(&c.manifest, &c.assertion).and_then(|_| t.add_redactions_and_resign(own_label, &[uri(&c.manifest, &c.assertion)]));
        if let Err(e) = r {
            kit::ev::machinery(format!("C20: crafting {}: {e}", c.name));
        }
        let bytes = t.bytes();
        if !store_parses(&bytes) {
            kit::ev::machinery(format!("C20: crafted store for {} no longer parses", c.name));
        }
        let (st, f) = read_detached(&bytes, &b_asset);
        let accepted = st == "Valid" || st == "Trusted";
        let kind = if c.allowed { "allowed-control" } else if c.manifest == a_label { "protected" } else { "own" };
        run.outcome(format!("crafted:{kind}:{st}"));
        if c.allowed {
            if accepted {
                *controls_valid.lock().unwrap() += 1;
            } else {
                kit::ev::machinery(format!("C20: crafted redaction of allowed assertion {} reads {st} {f:?} (crafting is wrong)", c.name));
            }
        } else if accepted {
            let tgt = if c.assertion.starts_with("c2pa.actions") { "actions" } else if c.assertion.starts_with("c2pa.hash.") { "hard-binding" } else { "own-assertion" };
            run.violation(
                format!("disallowed-redaction-valid via=crafted target={tgt} label={}", c.assertion),
                format!("store whose active manifest redacts {} ({}) reads {st}", c.name, uri(&c.manifest, &c.assertion)),
                case,
            );
        }
    });
    if *controls_valid.lock().unwrap() == 0 && want.is_none() {
        kit::ev::machinery("C20: no crafted allowed-redaction control was Valid (non-vacuity)");
    }

    // (3) deletion without redaction entry; base stores: no redaction, and each single legitimate redaction of A
    let mut bases: Vec<(String, Vec<u8>, Vec<u8>)> = vec![("none".to_string(), b_asset.clone(), b_store.clone())];
    for i in 0..k {
        match mk_b(&[a_uri(i)], Some(own_label)) {
            Ok((asset, store)) => {
                let (st, f) = read_detached(&store, &asset);
                run.eval();
                if st != "Valid" && st != "Trusted" && !skip(&json!({"part":"detached-base","i":i})) {
                    run.violation(
                        format!("invalid-after-redaction shape=detached codes={}", f.join(",")),
                        format!("detached A<-B redacting {} reads {st} {f:?}", alabel("A", i)),
                        json!({"part":"detached-base","i":i}),
                    );
                    continue;
                }
                bases.push((format!("A{i}"), asset, store));
            }
            Err(e) => {
                run.outcome(format!("detached-base:sign-error:{}", e.split('(').next().unwrap_or("")));
            }
        }
    }
    let mut del_cases: Vec<(usize, String, String)> = vec![];
    for (bi, (_, _, store)) in bases.iter().enumerate() {
        let t = StoreTree::parse(store).unwrap_or_else(|e| kit::ev::machinery(format!("C20: base store: {e}")));
        for m in t.manifests() {
            for a in t.assertions(&m) {
                del_cases.push((bi, m.clone(), a));
            }
        }
    }
    run.space("deletion of one assertion box without redaction entry: every assertion of every manifest x base stores {no redaction, each single legitimate redaction}", del_cases.len() as u64, true);
    par::for_each(&del_cases, |(bi, m, a)| {
        let (bname, asset, store) = &bases[*bi];
        let who = if *m == a_label { "A" } else { "B" };
        let case = json!({"part":"delete","base":bname,"manifest":who,"assertion":a});
        if skip(&case) {
            return;
        }
        run.eval();
        run.nontrivial(format!("delete/{bname}/{who}/{a}"));
        let mut t = StoreTree::parse(store).unwrap();
        if let Err(e) = t.delete_assertion(m, a) {
            kit::ev::machinery(format!("C20: deleting {who}/{a}: {e}"));
        }
        let bytes = t.bytes();
        if !store_parses(&bytes) {
            run.outcome("delete:store-does-not-parse");
            return;
        }
        let (st, _f) = read_detached(&bytes, asset);
        run.outcome(format!("delete:{who}:{st}"));
        if st.starts_with("PANIC") {
            run.violation(format!("panic part=delete manifest={who}"), st.clone(), case.clone());
        }
        if st == "Valid" || st == "Trusted" {
            let cls = if a.starts_with("c2pa.actions") { "actions" } else if a.starts_with("c2pa.hash.") { "hard-binding" } else if a.starts_with("c2pa.ingredient") { "ingredient" } else { "other" };
            run.violation(
                format!("undeclared-removal-valid manifest={who} assertion-class={cls} base-redaction={}", if bname == "none" { "none" } else { "one" }),
                format!("assertion {a} of manifest {who} deleted without a redaction entry (base store: redaction {bname}) and the store reads {st}"),
                case,
            );
        }
    });

    // ---------------- (4) REPEATED LABELS: several instances of one label in the ingredient ---------------------------------
    repeated_labels(run, &jpeg, &skip);
}

/// Marker payload of instance i of the repeated-label ingredient "R".
fn rmarker(i: usize) -> String {
    format!("VERIF-RMARK-{i}-5be2d07a")
}

/// Ingredient R carries: one distinct-label assertion, three instances of `org.verif.rep`, and (if the Builder and the validator accept
/// them) two instances of a c2pa-namespaced label. Every subset of these instances is redacted by a manifest B (embedded and detached);
/// for every redaction set every NON-redacted assertion box of R and of B is deleted without a redaction entry, and the payload of
/// every non-redacted marker instance is altered in place. None of these may read Valid/Trusted.
fn repeated_labels(run: &Run, jpeg: &[u8], skip: &(dyn Fn(&Value) -> bool + Sync)) {
    let own_label = "urn:c2pa:0f0e0d0c-0b0a-4009-8807-0605040302aa";
    let def_r = |c2pa_label: Option<&str>| -> (String, usize) {
        let mut a = vec![json!({"label":"org.verif.rdistinct","data":{"marker": rmarker(0)}})];
        for i in 1..=3 {
            a.push(json!({"label":"org.verif.rep","data":{"marker": rmarker(i), "n": i}}));
        }
        let mut n = 4;
        if let Some(l) = c2pa_label {
            for i in 4..=5 {
                a.push(json!({"label": l, "data": {"@context": {"exif": "http://ns.adobe.com/exif/1.0/"}, "exif:Make": rmarker(i)}}));
            }
            n = 6;
        }
        (json!({"title":"R","claim_generator_info":[{"name":"verif","version":"1"}],"assertions":a}).to_string(), n)
    };
    // probe: a repeated c2pa-namespaced label if the Builder allows one and the result validates
    let mut chosen: Option<(Vec<u8>, usize, Option<&str>)> = None;
    for cand in [Some("c2pa.metadata"), Some("cawg.metadata"), None] {
        let (d, n) = def_r(cand);
        if let Ok(Ok(out)) = sign_step(&d, &[], &[], jpeg, true) {
            run.eval();
            if let Ok(rb) = read_back(&out) {
                if (rb.state == "Valid" || rb.state == "Trusted") && (0..n).all(|i| contains(&out, rmarker(i).as_bytes())) {
                    chosen = Some((out, n, cand));
                    break;
                }
            }
        }
    }
    let Some((r_out, n, c2pa_label)) = chosen else { kit::ev::machinery("C20: cannot build the repeated-label ingredient") };
    let r_label = read_back(&r_out).map(|r| r.active_label).unwrap_or_default();
    // which box label carries which marker (instances are numbered by the SDK: label, label__1, label__2)
    let r_store = par::guard(|| c2pa::jumbf_io::load_jumbf_from_memory(MIME, &r_out)).ok().and_then(|r| r.ok()).unwrap_or_else(|| kit::ev::machinery("C20: cannot extract the store of R"));
    let r_tree = StoreTree::parse(&r_store).unwrap_or_else(|e| kit::ev::machinery(format!("C20: R store: {e}")));
    let mut inst: Vec<String> = vec![];
    for i in 0..n {
        let l = r_tree
            .assertions(&r_label)
            .into_iter()
            .find(|a| r_tree.assertion_bytes(&r_label, a).map(|b| contains(&b, rmarker(i).as_bytes())).unwrap_or(false))
            .unwrap_or_else(|| kit::ev::machinery(format!("C20: marker {i} not found in any assertion box of R")));
        inst.push(l);
    }
    let mut distinct = inst.clone();
    distinct.sort();
    distinct.dedup();
    if distinct.len() != n || !inst.iter().any(|l| l.ends_with("__1")) {
        kit::ev::machinery(format!("C20: repeated-label ingredient has unexpected assertion labels {inst:?}"));
    }
    run.sample(json!({"part":"repeated-labels","instances":inst,"c2pa_namespaced_repeated_label":c2pa_label}));
    run.space("repeated labels: every subset of the redactable instances (1 distinct + 3 x org.verif.rep [+ 2 x c2pa-namespaced]) redacted by B, embedded and detached", 2 * (1u64 << n), true);
    let del_count = std::sync::atomic::AtomicU64::new(0);
    let flip_count = std::sync::atomic::AtomicU64::new(0);
    par::for_each_index(1u64 << n, |mask| {
        let mask = mask as u32;
        let red_idx = subset(mask, n);
        let red: Vec<String> = red_idx.iter().map(|i| uri(&r_label, &inst[*i])).collect();
        let want: BTreeSet<String> = red.iter().cloned().collect();
        // ---- embedded A<-B ------------------------------------------------------------------------------------
        let case = json!({"part":"rep-chain2","mask":mask});
        if !skip(&case) {
            run.eval();
            run.nontrivial(format!("rep-chain2/{mask}"));
            match sign_step(&definition("B", 3, None), &red, &[], &r_out, false) {
                Err(p) => run.violation("panic part=rep-chain2".to_string(), format!("Builder::sign panicked: {p}"), case.clone()),
                Ok(Err(e)) => run.outcome(format!("rep-chain2:sign-error:{}", sdk::err_kind(&e))),
                Ok(Ok(out)) => match read_back(&out) {
                    Err(e) => run.violation(format!("unreadable-after-redaction shape=rep-chain2 result={}", e.split(' ').next().unwrap_or("")), e, case.clone()),
                    Ok(rb) => {
                        run.outcome(format!("rep-chain2:{}", rb.state));
                        for i in 0..n {
                            let there = contains(&out, rmarker(i).as_bytes());
                            let redacted = mask >> i & 1 == 1;
                            if redacted && there {
                                run.violation("redacted-data-present shape=rep-chain2 owner=R".to_string(), format!("payload of redacted instance {} still in the output", inst[i]), case.clone());
                            }
                            if !redacted && !there {
                                run.violation("unrequested-removed shape=rep-chain2 owner=R".to_string(), format!("payload of instance {} disappeared although only {:?} were redacted", inst[i], red), case.clone());
                            }
                        }
                        if rb.state != "Valid" && rb.state != "Trusted" {
                            run.violation(format!("invalid-after-redaction shape=rep-chain2 codes={}", rb.failures.join(",")), format!("reads {} {:?}", rb.state, rb.failures), case.clone());
                        }
                        if rb.active_redactions != want {
                            run.violation(
                                format!("redactions-list-mismatch shape=rep-chain2 requested={} reported={}", want.len(), rb.active_redactions.len()),
                                format!("requested {:?}, active manifest reports {:?}", want, rb.active_redactions),
                                case.clone(),
                            );
                        }
                    }
                },
            }
        }
        // ---- detached A<-B: base store, then deletions and payload flips ----------------------------------------
        let (asset, store) = match sign_sidecar(&definition("B", 3, Some(own_label)), &red, &r_out, false) {
            Ok(x) => x,
            Err(e) => {
                run.outcome(format!("rep-detached:sign-error:{}", e.split('(').next().unwrap_or("")));
                return;
            }
        };
        let base_case = json!({"part":"rep-detached-base","mask":mask});
        let (st, f) = read_detached(&store, &asset);
        if !skip(&base_case) {
            run.eval();
            run.outcome(format!("rep-detached-base:{st}"));
            for i in red_idx.iter() {
                if contains(&store, rmarker(*i).as_bytes()) {
                    run.violation("redacted-data-present shape=rep-detached owner=R".to_string(), format!("payload of redacted instance {} still in the detached store", inst[*i]), base_case.clone());
                }
            }
        }
        if st != "Valid" && st != "Trusted" {
            if !skip(&base_case) {
                run.violation(format!("invalid-after-redaction shape=rep-detached codes={}", f.join(",")), format!("detached R<-B redacting {:?} reads {st} {f:?}", red), base_case);
            }
            return;
        }
        let Ok(tree) = StoreTree::parse(&store) else { kit::ev::machinery("C20: detached R<-B store does not parse independently") };
        for m in tree.manifests() {
            let who = if m == r_label { "R" } else { "B" };
            for a in tree.assertions(&m) {
                let case = json!({"part":"rep-delete","mask":mask,"manifest":who,"assertion":a});
                if skip(&case) {
                    continue;
                }
                run.eval();
                del_count.fetch_add(1, std::sync::atomic::Ordering::Relaxed);
                let mut t = StoreTree::parse(&store).unwrap();
                if let Err(e) = t.delete_assertion(&m, &a) {
                    kit::ev::machinery(format!("C20: deleting {who}/{a}: {e}"));
                }
                let bytes = t.bytes();
                if !store_parses(&bytes) {
                    run.outcome("rep-delete:store-does-not-parse");
                    continue;
                }
                let (st, _) = read_detached(&bytes, &asset);
                run.outcome(format!("rep-delete:{who}:{st}"));
                if st == "Valid" || st == "Trusted" {
                    let sibling = red_idx.iter().any(|i| base_label(&inst[*i]) == base_label(&a)) && who == "R";
                    run.violation(
                        format!("undeclared-removal-valid manifest={who} repeated-label={} sibling-instance-redacted={sibling}", inst.iter().filter(|l| base_label(l) == base_label(&a)).count() > 1),
                        format!("assertion {a} of manifest {who} deleted without a redaction entry while {:?} are legitimately redacted: the store reads {st}", red),
                        case,
                    );
                }
            }
        }
        for i in 0..n {
            if mask >> i & 1 == 1 {
                continue;
            }
            let case = json!({"part":"rep-flip","mask":mask,"assertion":inst[i]});
            if skip(&case) {
                continue;
            }
            run.eval();
            flip_count.fetch_add(1, std::sync::atomic::Ordering::Relaxed);
            let mut t = StoreTree::parse(&store).unwrap();
            if let Err(e) = t.flip_in_assertion(&r_label, &inst[i], rmarker(i).as_bytes()) {
                kit::ev::machinery(format!("C20: altering payload of {}: {e}", inst[i]));
            }
            let bytes = t.bytes();
            if !store_parses(&bytes) {
                run.outcome("rep-flip:store-does-not-parse");
                continue;
            }
            let (st, _) = read_detached(&bytes, &asset);
            run.outcome(format!("rep-flip:{st}"));
            if st == "Valid" || st == "Trusted" {
                let sibling = red_idx.iter().any(|j| base_label(&inst[*j]) == base_label(&inst[i]));
                run.violation(
                    format!("undeclared-modification-valid manifest=R sibling-instance-redacted={sibling}"),
                    format!("payload of non-redacted assertion {} altered in place while {:?} are legitimately redacted: the store reads {st}", inst[i], red),
                    case,
                );
            }
        }
    });
    run.nontrivial_n(del_count.load(std::sync::atomic::Ordering::Relaxed) + flip_count.load(std::sync::atomic::Ordering::Relaxed));
    run.space("repeated labels: deletion of every non-redacted assertion box of R and of B, for every redaction set", del_count.load(std::sync::atomic::Ordering::Relaxed), true);
    run.space("repeated labels: in-place payload alteration of every non-redacted marker instance, for every redaction set", flip_count.load(std::sync::atomic::Ordering::Relaxed), true);
}

/// label without the `__N` instance suffix
fn base_label(l: &str) -> &str {
    l.split("__").next().unwrap_or(l)
}

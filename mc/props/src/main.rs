//! mc <Cxx> [--tier quick|thorough] [--replay <file>]
//! One module per property; see /verif/DESIGN.md section 4.

use kit::{ev, Run, Tier};
use serde_json::Value;

macro_rules! props {
    ($( $id:literal => $m:ident : $level:literal ),* $(,)?) => {
        $( mod $m; )*
        fn dispatch(id: &str, run_tier: Tier, replay: Option<Value>) -> i32 {
            match id {
                $( $id => {
                    let run = Run::new($id, run_tier, $level);
                    $m::run(&run, replay.as_ref());
                    run.finish()
                } )*
                _ => { eprintln!("unknown property {id}"); 2 }
            }
        }
        fn all_ids() -> Vec<&'static str> { vec![$($id),*] }
    };
}

props! {
    "C01" => c01 : "exploration",
    "C02" => c02 : "exploration",
    "C03" => c03 : "exploration",
    "C04" => c04 : "model_checking",
    "C05" => c05 : "exploration",
    "C06" => c06 : "exploration",
    "C07" => c07 : "model_checking",
    "C08" => c08 : "exploration",
    "C09" => c09 : "exploration",
    "C10" => c10 : "exploration",
    "C11" => c11 : "exploration",
    "C12" => c12 : "exploration",
    "C13" => c13 : "model_checking",
    "C14" => c14 : "exploration",
    "C15" => c15 : "exploration",
    "C16" => c16 : "exploration",
    "C17" => c17 : "exploration",
    "C18" => c18 : "exploration",
    "C19" => c19 : "exploration",
    "C20" => c20 : "exploration",
    "C21" => c21 : "exploration",
    "C22" => c22 : "exploration",
    "C23" => c23 : "fault_enumeration",
    "C24" => c24 : "model_checking",
    "C25" => c25 : "model_checking",
    "C26" => c26 : "model_checking",
    "C27" => c27 : "model_checking",
    "C28" => c28 : "exploration",
    "C29" => c29 : "exploration",
    "C30" => c30 : "exploration",
    "C31" => c31 : "model_checking",
    "C32" => c32 : "exploration",
    "C33" => c33 : "exploration",
    "C34" => c34 : "exploration",
    "C35" => c35 : "fault_enumeration",
    "C36" => c36 : "exploration",
    "C37" => c37 : "exploration",
    "C38" => c38 : "model_checking",
    "C39" => c39 : "exploration",
    "C40" => c40 : "exploration",
}

fn main() {
    let args: Vec<String> = std::env::args().collect();
    if args.len() < 2 {
        eprintln!("usage: mc <Cxx>|list [--tier quick|thorough] [--replay file]");
        std::process::exit(2);
    }
    if args[1] == "list" {
        for i in all_ids() {
            println!("{i}");
        }
        return;
    }
    let mut tier = match std::env::var("VERIF_TIER").as_deref() {
        Ok("thorough") => Tier::Thorough,
        _ => Tier::Quick,
    };
    let mut replay = None;
    let mut i = 2;
    while i < args.len() {
        match args[i].as_str() {
            "--tier" => {
                i += 1;
                tier = match args.get(i).map(|s| s.as_str()) {
                    Some("thorough") => Tier::Thorough,
                    Some("quick") => Tier::Quick,
                    _ => ev::machinery("bad --tier"),
                };
            }
            "--replay" => {
                i += 1;
                let p = args.get(i).unwrap_or_else(|| ev::machinery("--replay needs a path"));
                let b = std::fs::read(p).unwrap_or_else(|e| ev::machinery(format!("replay file: {e}")));
                let v: Value = serde_json::from_slice(&b).unwrap_or_else(|e| ev::machinery(format!("replay json: {e}")));
                replay = Some(v["case"].clone());
                ev::set_replay_mode();
            }
            x => ev::machinery(format!("unknown argument {x}")),
        }
        i += 1;
    }
    kit::par::quiet_panics();
    let code = dispatch(&args[1], tier, replay);
    std::process::exit(code);
}

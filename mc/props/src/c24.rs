//! C24 — contexts are isolated and safe to share across threads.
//! S-sched with a checkpoint-granular baton scheduler: every operation runs on its own OS thread and blocks inside
//! its progress callback (and before its first and after its last instruction) until the explorer hands it the baton.
//! One thread runs at a time, so an execution is fully determined by its schedule = the sequence of baton grants.
//! A stateless depth-first search enumerates ALL schedules of a harness (optionally with a preemption bound).
//!
//! Two engines execute a schedule, chosen per harness:
//!  * `baton` — real OS threads parked on a condition variable (used where OS-thread identity matters: the harnesses
//!    with legacy thread-local settings and settings-builder calls);
//!  * `shuttle` — the same operations as shuttle threads (continuations on one OS thread) that yield inside the progress
//!    callback; a replay-prefix scheduler picks the next thread at every yield. No OS context switch per hand-off, so the
//!    big harnesses (3*10^4 .. 6*10^5 interleavings) stay affordable on a loaded machine. Enumeration is the same
//!    stateless DFS over prefixes for both engines.
//!
//! A thread with m progress checkpoints consists of m+1 segments, so two threads with m1 and m2 checkpoints have
//! C(m1+m2+2, m1+1) interleavings (counted and reported, not assumed).
//!
//! Oracle (DESIGN.md C24): every operation's result equals its sequential result; an operation on a context that is
//! cancelled during the execution must end as some sequential placement of the cancel allows (cancelled, or — only
//! when the cancel was not issued before the operation started — the sequential result; and the sequential result
//! when the cancel was issued after it finished); cancel on context A never changes a result on context B; the
//! legacy thread-local settings of every thread are unchanged by anything another thread does and by settings-builder calls.
//!
//! Big harnesses are explored by SHARD_PROCESSES worker processes (the SDK serialises signature operations behind
//! one process-wide OpenSSL mutex); schedules are partitioned by their first grants, every schedule is executed,
//! judged and counted by exactly one process.
//!
//! "Distinct by construction": besides explicitly built contexts, objects are obtained through every construction route
//! of the public API (Builder::default / Builder::new / Builder::from_context(Context::new()) / from_shared_context(own Arc),
//! Reader::default / from_context / from_shared_context / legacy Reader::from_stream). For every pair (a, b) of routes, both
//! objects alive, ALL interleavings of `a.context().cancel()` with b's operation are executed (b gated at every checkpoint
//! when its context is explicit, atomic otherwise): b must keep its sequential result. After every harness, fresh objects
//! from every route must still give their initial results.
//!
//! Mutants caught (mutant_run, quick tier):
//!   /tmp/seed-C24 (Builder::default()/Reader::default() share one process-wide default Context)
//!       -> VIOLATION  keys `cancel-leaks-between-objects a=Builder::default b=Builder::default got=Cancelled`,
//!          `fresh-object-affected-by-earlier-objects route=Builder::default|Reader::default got=Cancelled`
//!   C24-static-cancel-flag.diff   Context::cancel() also sets a process-wide flag that check_progress honours
//!       -> VIOLATION  keys `cancelled-without-cancel act=read …`, `fresh-context-affected-by-earlier-contexts act=sign|read got=Cancelled`,
//!          `free-running act=… got=Cancelled`

use c2pa::{settings::Settings, Builder, Context, ProgressPhase, Reader};
use kit::{assets, gutil, par, sdk, Run};
use serde_json::{json, Value};
use std::{
    cell::Cell,
    collections::BTreeMap,
    io::Cursor,
    sync::{
        atomic::{AtomicU64, Ordering},
        Arc, Condvar, Mutex, OnceLock,
    },
    time::Duration,
};

// ------------------------------------------------------------------------------------------------
// baton

#[derive(Clone, Copy, PartialEq, Debug)]
enum St {
    /// waiting for the baton (parked at a gate)
    Parked,
    Running,
    Done,
}

struct BatonState {
    st: Vec<St>,
    turn: Option<usize>,
    /// label of the gate each actor is parked at (for traces)
    at: Vec<String>,
}

struct Baton {
    m: Mutex<BatonState>,
    cv: Condvar,
}

thread_local! {
    static ACTOR: Cell<Option<usize>> = const { Cell::new(None) };
}

const HANG: Duration = Duration::from_secs(120);

/// Set when a recorded schedule prefix could not be replayed (an actor that the prefix names was not enabled).
static DIVERGED: std::sync::atomic::AtomicBool = std::sync::atomic::AtomicBool::new(false);

impl Baton {
    fn new(n: usize) -> Arc<Baton> {
        Arc::new(Baton { m: Mutex::new(BatonState { st: vec![St::Running; n], turn: None, at: vec![String::new(); n] }), cv: Condvar::new() })
    }

    /// Called by actor threads: park here until the explorer grants the baton.
    fn gate(&self, label: &str) {
        let Some(i) = ACTOR.with(|a| a.get()) else { return };
        let mut g = self.m.lock().unwrap_or_else(|e| e.into_inner());
        g.st[i] = St::Parked;
        g.at[i] = label.to_string();
        if g.turn == Some(i) {
            g.turn = None;
        }
        self.cv.notify_all();
        while g.turn != Some(i) {
            g = self.cv.wait(g).unwrap_or_else(|e| e.into_inner());
        }
        g.st[i] = St::Running;
    }

    fn done(&self, i: usize) {
        let mut g = self.m.lock().unwrap_or_else(|e| e.into_inner());
        g.st[i] = St::Done;
        if g.turn == Some(i) {
            g.turn = None;
        }
        self.cv.notify_all();
    }

    /// Explorer: wait until nobody runs. Returns false on a hang.
    fn quiesce(&self) -> bool {
        let mut g = self.m.lock().unwrap_or_else(|e| e.into_inner());
        let start = std::time::Instant::now();
        while g.turn.is_some() || g.st.iter().any(|s| *s == St::Running) {
            let (g2, _) = self.cv.wait_timeout(g, Duration::from_millis(200)).unwrap_or_else(|e| e.into_inner());
            g = g2;
            if start.elapsed() > HANG {
                return false;
            }
        }
        true
    }

    fn enabled(&self) -> Vec<usize> {
        let g = self.m.lock().unwrap_or_else(|e| e.into_inner());
        (0..g.st.len()).filter(|i| g.st[*i] == St::Parked).collect()
    }

    fn grant(&self, i: usize) -> String {
        let mut g = self.m.lock().unwrap_or_else(|e| e.into_inner());
        g.turn = Some(i);
        g.st[i] = St::Running;
        let at = g.at[i].clone();
        self.cv.notify_all();
        at
    }
}

// ------------------------------------------------------------------------------------------------
// actors

#[derive(Clone, Debug, PartialEq)]
enum Act {
    Sign,
    Read,
    Cancel,
    /// Settings::new().with_json(..)/with_value(..)/with_toml(..) — must not touch any thread-local state
    SettingsBuilder,
    /// deprecated Settings::from_toml on this thread — changes THIS thread's legacy settings only
    LegacyFromToml,
}

#[derive(Clone, Debug)]
struct ActorSpec {
    act: Act,
    /// index of the context the actor uses
    ctx: usize,
}

struct Harness {
    name: String,
    actors: Vec<ActorSpec>,
    n_ctx: usize,
    preemption_bound: Option<usize>,
    /// explored by SHARD_PROCESSES worker processes (big harnesses)
    sharded: bool,
}

#[derive(Clone, Debug, PartialEq)]
struct ActorResult {
    /// "Ok:<canon>" | "Cancelled" | "Err(kind)" | "PANIC ..." | "done"
    result: String,
    legacy_before: String,
    legacy_after: String,
}

struct Fixture {
    asset: assets::Asset,
    signed: Vec<u8>,
}

const LEGACY_TOML: &str = "[verify]\nverify_after_sign = false\n[core]\nmerkle_tree_chunk_size_in_kb = 7\n";

#[allow(deprecated)]
fn legacy_snapshot() -> String {
    Settings::to_toml().unwrap_or_else(|e| format!("to_toml failed: {e:?}"))
}

fn short_result(s: &str) -> String {
    s.chars().take(40).collect()
}

fn mk_ctx(b: &Arc<Baton>) -> Arc<Context> {
    let b2 = b.clone();
    sdk::ctx()
        .with_progress_callback(move |phase: ProgressPhase, step, total| {
            b2.gate(&format!("{phase:?} {step}/{total}"));
            true
        })
        .into_shared()
}

fn signer() -> &'static (dyn c2pa::Signer + Send + Sync) {
    static S: OnceLock<Box<dyn c2pa::Signer + Send + Sync>> = OnceLock::new();
    S.get_or_init(|| sdk::fixture_signer("ed25519")).as_ref()
}

#[allow(deprecated)]
fn actor_body(spec: &ActorSpec, ctxs: &[Arc<Context>], fx: &Fixture) -> String {
    match spec.act {
        Act::Sign => {
            let ctx = &ctxs[spec.ctx];
            let r = par::guard(|| {
                let mut b = Builder::from_shared_context(ctx).with_definition(r#"{"title":"t"}"#)?;
                b.set_intent(c2pa::BuilderIntent::Edit);
                let mut dst = Cursor::new(Vec::new());
                b.sign(signer(), fx.asset.mime, &mut Cursor::new(&fx.asset.data), &mut dst)?;
                Ok::<Vec<u8>, c2pa::Error>(dst.into_inner())
            });
            match r {
                Err(p) => format!("PANIC {p}"),
                Ok(Err(c2pa::Error::OperationCancelled)) => "Cancelled".into(),
                Ok(Err(e)) => gutil::err_class(&e),
                // judged by a clean, un-gated reader (the calling thread has no pending baton interest in it)
                Ok(Ok(bytes)) => match sdk::read(sdk::ctx(), fx.asset.mime, &bytes) {
                    Ok(r) => format!("Ok:{}", gutil::canon2(&r, true)),
                    Err(e) => format!("Ok:unreadable {}", gutil::err_class(&e)),
                },
            }
        }
        Act::Read => {
            let ctx = &ctxs[spec.ctx];
            let r = par::guard(|| Reader::from_shared_context(ctx).with_stream(fx.asset.mime, Cursor::new(&fx.signed)));
            match r {
                Err(p) => format!("PANIC {p}"),
                Ok(Err(c2pa::Error::OperationCancelled)) => "Cancelled".into(),
                Ok(Err(e)) => gutil::err_class(&e),
                Ok(Ok(r)) => format!("Ok:{}", gutil::canon2(&r, false)),
            }
        }
        Act::Cancel => {
            ctxs[spec.ctx].cancel();
            "done".into()
        }
        Act::SettingsBuilder => {
            let r = par::guard(|| {
                let s = Settings::new().with_json(r#"{"verify":{"verify_after_sign":false},"core":{"merkle_tree_chunk_size_in_kb":3}}"#)?;
                let s = s.with_toml("[builder.thumbnail]\nenabled = false\n")?;
                let s = s.with_value("verify.verify_trust", false)?;
                let mut s2 = s.clone();
                s2.set_value("core.merkle_tree_chunk_size_in_kb", 5)?;
                s2.update_from_str(r#"{"verify":{"ocsp_fetch":true}}"#, "json")?;
                // also a context built from them (never used for an operation)
                let _c = Context::new().with_settings(s2)?;
                Ok::<(), c2pa::Error>(())
            });
            match r {
                Err(p) => format!("PANIC {p}"),
                Ok(Err(e)) => gutil::err_class(&e),
                Ok(Ok(())) => "done".into(),
            }
        }
        Act::LegacyFromToml => match par::guard(|| Settings::from_toml(LEGACY_TOML)) {
            Err(p) => format!("PANIC {p}"),
            Ok(Err(e)) => gutil::err_class(&e),
            Ok(Ok(())) => "done".into(),
        },
    }
}

struct Execution {
    /// (actor granted, actors that were enabled, gate label the actor left)
    steps: Vec<(usize, Vec<usize>, String)>,
    results: Vec<ActorResult>,
    hang: bool,
    /// false when another shard process owns (judges and counts) this schedule
    owned: bool,
}

/// Run one execution: follow `prefix`, then continue non-preemptively (same actor while enabled, else lowest id).
fn execute(h: &Harness, fx: &Arc<Fixture>, prefix: &[usize]) -> Execution {
    let n = h.actors.len();
    let baton = Baton::new(n);
    let ctxs: Vec<Arc<Context>> = (0..h.n_ctx).map(|_| mk_ctx(&baton)).collect();
    let results: Arc<Mutex<Vec<Option<ActorResult>>>> = Arc::new(Mutex::new(vec![None; n]));
    let mut handles = vec![];
    for (i, spec) in h.actors.iter().enumerate() {
        let (b, ctxs, fx, results, spec) = (baton.clone(), ctxs.clone(), fx.clone(), results.clone(), spec.clone());
        handles.push(std::thread::spawn(move || {
            ACTOR.with(|a| a.set(Some(i)));
            let legacy_before = legacy_snapshot();
            b.gate("start");
            let result = actor_body(&spec, &ctxs, &fx);
            let legacy_after = legacy_snapshot();
            results.lock().unwrap_or_else(|e| e.into_inner())[i] = Some(ActorResult { result, legacy_before, legacy_after });
            ACTOR.with(|a| a.set(None));
            b.done(i);
        }));
    }
    let mut steps: Vec<(usize, Vec<usize>, String)> = vec![];
    let mut hang = !baton.quiesce();
    while !hang {
        let en = baton.enabled();
        if en.is_empty() {
            break;
        }
        let d = steps.len();
        let choice = if d < prefix.len() {
            if en.contains(&prefix[d]) {
                prefix[d]
            } else {
                DIVERGED.store(true, Ordering::SeqCst);
                en[0]
            }
        } else {
            match steps.last() {
                Some((p, _, _)) if en.contains(p) => *p,
                _ => en[0],
            }
        };
        let at = baton.grant(choice);
        steps.push((choice, en, at));
        hang = !baton.quiesce();
    }
    if hang {
        // leave the stuck threads behind; the run ends with a violation
        return Execution { steps, results: vec![], hang: true, owned: true };
    }
    for hd in handles {
        let _ = hd.join();
    }
    let results = results.lock().unwrap_or_else(|e| e.into_inner()).iter().map(|r| r.clone().unwrap_or(ActorResult { result: "missing".into(), legacy_before: String::new(), legacy_after: String::new() })).collect();
    Execution { steps, results, hang: false, owned: true }
}

// ------------------------------------------------------------------------------------------------
// shuttle engine: the same actors as continuations on one OS thread; yield inside the progress callback

struct PrefixSched {
    prefix: Vec<usize>,
    steps: Arc<Mutex<Vec<(usize, Vec<usize>, String)>>>,
    at: Arc<Mutex<Vec<String>>>,
    current: Arc<AtomicU64>,
    diverged: Arc<AtomicU64>,
    started: bool,
}

impl shuttle::scheduler::Scheduler for PrefixSched {
    fn new_execution(&mut self) -> Option<shuttle::scheduler::Schedule> {
        if self.started {
            return None;
        }
        self.started = true;
        Some(shuttle::scheduler::Schedule::new(0))
    }

    fn next_task(&mut self, runnable: &[&shuttle::scheduler::Task], _current: Option<shuttle::scheduler::TaskId>, _is_yielding: bool) -> Option<shuttle::scheduler::TaskId> {
        // task 0 is the harness body (spawns the actors, then joins them): never preempted, not a choice
        if let Some(t) = runnable.iter().find(|t| usize::from(t.id()) == 0) {
            return Some(t.id());
        }
        let mut en: Vec<usize> = runnable.iter().map(|t| usize::from(t.id()) - 1).collect();
        en.sort();
        let mut g = self.steps.lock().unwrap_or_else(|e| e.into_inner());
        let d = g.len();
        let choice = if d < self.prefix.len() {
            if en.contains(&self.prefix[d]) {
                self.prefix[d]
            } else {
                self.diverged.store(d as u64 + 1, Ordering::SeqCst);
                en[0]
            }
        } else {
            match g.last() {
                Some((p, _, _)) if en.contains(p) => *p,
                _ => en[0],
            }
        };
        let at = self.at.lock().unwrap_or_else(|e| e.into_inner())[choice].clone();
        g.push((choice, en, at));
        self.current.store(choice as u64, Ordering::SeqCst);
        Some(shuttle::scheduler::TaskId::from(choice + 1))
    }

    fn next_u64(&mut self) -> u64 {
        0
    }
}

fn execute_shuttle(h: &Harness, fx: &Arc<Fixture>, prefix: &[usize]) -> Execution {
    let n = h.actors.len();
    let steps: Arc<Mutex<Vec<(usize, Vec<usize>, String)>>> = Arc::new(Mutex::new(vec![]));
    let at: Arc<Mutex<Vec<String>>> = Arc::new(Mutex::new(vec!["start".to_string(); n]));
    let current = Arc::new(AtomicU64::new(0));
    let diverged = Arc::new(AtomicU64::new(0));
    let results: Arc<Mutex<Vec<Option<ActorResult>>>> = Arc::new(Mutex::new(vec![None; n]));
    let sched = PrefixSched { prefix: prefix.to_vec(), steps: steps.clone(), at: at.clone(), current: current.clone(), diverged: diverged.clone(), started: false };
    let mut cfg = shuttle::Config::default();
    cfg.stack_size = 4 << 20;
    cfg.failure_persistence = shuttle::FailurePersistence::None;
    let (actors, n_ctx, fx2, results2) = (h.actors.clone(), h.n_ctx, fx.clone(), results.clone());
    let out = par::guard(move || {
        shuttle::Runner::new(sched, cfg).run(move || {
            let ctxs: Vec<Arc<Context>> = (0..n_ctx)
                .map(|_| {
                    let (at, current) = (at.clone(), current.clone());
                    sdk::ctx()
                        .with_progress_callback(move |phase: ProgressPhase, step, total| {
                            let me = current.load(Ordering::SeqCst) as usize;
                            at.lock().unwrap_or_else(|e| e.into_inner())[me] = format!("{phase:?} {step}/{total}");
                            shuttle::thread::yield_now();
                            true
                        })
                        .into_shared()
                })
                .collect();
            let handles: Vec<_> = actors
                .iter()
                .enumerate()
                .map(|(i, spec)| {
                    let (spec, ctxs, fx, results) = (spec.clone(), ctxs.clone(), fx2.clone(), results2.clone());
                    shuttle::thread::spawn(move || {
                        let result = actor_body(&spec, &ctxs, &fx);
                        results.lock().unwrap_or_else(|e| e.into_inner())[i] = Some(ActorResult { result, legacy_before: String::new(), legacy_after: String::new() });
                    })
                })
                .collect();
            for hd in handles {
                let _ = hd.join();
            }
        })
    });
    par::quiet_panics(); // shuttle installs its own panic hook on first use
    let steps = steps.lock().unwrap_or_else(|e| e.into_inner()).clone();
    if diverged.load(Ordering::SeqCst) > 0 {
        DIVERGED.store(true, Ordering::SeqCst);
    }
    if let Err(p) = out {
        // deadlock or a panic that escaped an actor: reported as a hang-class violation by the judge
        let _ = p;
        return Execution { steps, results: vec![], hang: true, owned: true };
    }
    let results = results.lock().unwrap_or_else(|e| e.into_inner()).iter().map(|r| r.clone().unwrap_or(ActorResult { result: "missing".into(), legacy_before: String::new(), legacy_after: String::new() })).collect();
    Execution { steps, results, hang: false, owned: true }
}

fn needs_os_threads(h: &Harness) -> bool {
    h.actors.iter().any(|a| matches!(a.act, Act::SettingsBuilder | Act::LegacyFromToml))
}

fn run_schedule(h: &Harness, fx: &Arc<Fixture>, prefix: &[usize]) -> Execution {
    if needs_os_threads(h) { execute(h, fx, prefix) } else { execute_shuttle(h, fx, prefix) }
}

// ------------------------------------------------------------------------------------------------
// "distinct contexts by construction": every way the public API offers to obtain a Builder / Reader

#[derive(Clone, Copy, PartialEq, Eq, Debug)]
enum Route {
    BuilderDefault,
    /// deprecated Builder::new() (legacy thread-local settings)
    BuilderNew,
    BuilderFromContext,
    BuilderFromShared,
    ReaderDefault,
    ReaderFromContext,
    ReaderFromShared,
    /// deprecated Reader::from_stream (legacy thread-local settings); constructed by the operation itself
    ReaderLegacy,
}

const BUILDER_ROUTES: [Route; 4] = [Route::BuilderDefault, Route::BuilderNew, Route::BuilderFromContext, Route::BuilderFromShared];
const ALL_ROUTES: [Route; 8] = [
    Route::BuilderDefault, Route::BuilderNew, Route::BuilderFromContext, Route::BuilderFromShared,
    Route::ReaderDefault, Route::ReaderFromContext, Route::ReaderFromShared, Route::ReaderLegacy,
];

impl Route {
    fn name(&self) -> &'static str {
        match self {
            Route::BuilderDefault => "Builder::default",
            Route::BuilderNew => "Builder::new",
            Route::BuilderFromContext => "Builder::from_context(Context::new())",
            Route::BuilderFromShared => "Builder::from_shared_context(own Arc)",
            Route::ReaderDefault => "Reader::default",
            Route::ReaderFromContext => "Reader::from_context(Context::new())",
            Route::ReaderFromShared => "Reader::from_shared_context(own Arc)",
            Route::ReaderLegacy => "Reader::from_stream",
        }
    }
    fn parse(s: &str) -> Option<Route> {
        ALL_ROUTES.iter().copied().find(|r| r.name() == s)
    }
    /// explicit contexts can carry the baton callback, so their operation is gated at every checkpoint
    fn gated(&self) -> bool {
        matches!(self, Route::BuilderFromContext | Route::BuilderFromShared | Route::ReaderFromContext | Route::ReaderFromShared)
    }
}

/// An object obtained through a route, ready to run its operation.
enum Obj {
    B(Builder),
    R(Reader),
    LegacyRead,
}

fn plain_ctx(baton: Option<&Arc<Baton>>) -> Context {
    // explicit contexts of the route pairs use DEFAULT settings (they must be comparable with the default routes)
    match baton {
        Some(b) => {
            let b2 = b.clone();
            Context::new().with_progress_callback(move |phase: ProgressPhase, step, total| {
                b2.gate(&format!("{phase:?} {step}/{total}"));
                true
            })
        }
        None => Context::new(),
    }
}

#[allow(deprecated)]
fn construct(route: Route, baton: Option<&Arc<Baton>>) -> Obj {
    let def = r#"{"title":"t"}"#;
    let fail = |e: c2pa::Error| -> ! { kit::ev::machinery(format!("C24: cannot construct through {}: {e:?}", route.name())) };
    let with = |b: Builder| -> Builder {
        let mut b = b.with_definition(def).unwrap_or_else(|e| fail(e));
        b.set_intent(c2pa::BuilderIntent::Edit);
        b
    };
    match route {
        Route::BuilderDefault => Obj::B(with(Builder::default())),
        Route::BuilderNew => Obj::B(with(Builder::new())),
        Route::BuilderFromContext => Obj::B(with(Builder::from_context(plain_ctx(baton)))),
        Route::BuilderFromShared => Obj::B(with(Builder::from_shared_context(&plain_ctx(baton).into_shared()))),
        Route::ReaderDefault => Obj::R(Reader::default()),
        Route::ReaderFromContext => Obj::R(Reader::from_context(plain_ctx(baton))),
        Route::ReaderFromShared => Obj::R(Reader::from_shared_context(&plain_ctx(baton).into_shared())),
        Route::ReaderLegacy => Obj::LegacyRead,
    }
}

/// The object's operation: sign for builders, read for readers. Same result classes as `actor_body`.
#[allow(deprecated)]
fn operate(obj: Obj, fx: &Fixture) -> String {
    match obj {
        Obj::B(mut b) => {
            let r = par::guard(|| {
                let mut dst = Cursor::new(Vec::new());
                b.sign(signer(), fx.asset.mime, &mut Cursor::new(&fx.asset.data), &mut dst)?;
                Ok::<Vec<u8>, c2pa::Error>(dst.into_inner())
            });
            match r {
                Err(p) => format!("PANIC {p}"),
                Ok(Err(c2pa::Error::OperationCancelled)) => "Cancelled".into(),
                Ok(Err(e)) => gutil::err_class(&e),
                Ok(Ok(bytes)) => match sdk::read(sdk::ctx(), fx.asset.mime, &bytes) {
                    Ok(r) => format!("Ok:{}", gutil::canon2(&r, true)),
                    Err(e) => format!("Ok:unreadable {}", gutil::err_class(&e)),
                },
            }
        }
        Obj::R(rd) => match par::guard(|| rd.with_stream(fx.asset.mime, Cursor::new(&fx.signed))) {
            Err(p) => format!("PANIC {p}"),
            Ok(Err(c2pa::Error::OperationCancelled)) => "Cancelled".into(),
            Ok(Err(e)) => gutil::err_class(&e),
            Ok(Ok(r)) => format!("Ok:{}", gutil::canon2(&r, false)),
        },
        Obj::LegacyRead => match par::guard(|| Reader::from_stream(fx.asset.mime, Cursor::new(&fx.signed))) {
            Err(p) => format!("PANIC {p}"),
            Ok(Err(c2pa::Error::OperationCancelled)) => "Cancelled".into(),
            Ok(Err(e)) => gutil::err_class(&e),
            Ok(Ok(r)) => format!("Ok:{}", gutil::canon2(&r, false)),
        },
    }
}

/// One object of the route, alone, on its own thread (legacy routes read thread-local settings).
fn route_alone(route: Route, fx: &Arc<Fixture>) -> String {
    let fx = fx.clone();
    std::thread::spawn(move || operate(construct(route, None), &fx)).join().unwrap_or_else(|_| "PANIC (thread)".into())
}

struct PairExec {
    steps: Vec<(usize, Vec<usize>, String)>,
    /// result of b's operation
    b: String,
    /// result of a's own operation AFTER the execution (a was cancelled through its context)
    a_after: String,
    hang: bool,
}

/// a and b are constructed (both alive), then actor 0 = `a.context().cancel()`, actor 1 = b's operation, under the baton.
fn execute_pair(ra: Route, rb: Route, fx: &Arc<Fixture>, prefix: &[usize]) -> PairExec {
    let baton = Baton::new(2);
    let a = match construct(ra, None) {
        Obj::B(b) => b,
        _ => kit::ev::machinery("C24: the cancelling object must be a Builder (Reader exposes no context accessor)"),
    };
    let b = construct(rb, if rb.gated() { Some(&baton) } else { None });
    let a_ctx = Arc::clone(a.context());
    let result: Arc<Mutex<Option<String>>> = Arc::new(Mutex::new(None));
    let mut handles = vec![];
    {
        let bt = baton.clone();
        handles.push(std::thread::spawn(move || {
            ACTOR.with(|x| x.set(Some(0)));
            bt.gate("start");
            a_ctx.cancel();
            ACTOR.with(|x| x.set(None));
            bt.done(0);
        }));
    }
    {
        let (bt, fx2, res) = (baton.clone(), fx.clone(), result.clone());
        handles.push(std::thread::spawn(move || {
            ACTOR.with(|x| x.set(Some(1)));
            bt.gate("start");
            let r = operate(b, &fx2);
            *res.lock().unwrap_or_else(|e| e.into_inner()) = Some(r);
            ACTOR.with(|x| x.set(None));
            bt.done(1);
        }));
    }
    let mut steps: Vec<(usize, Vec<usize>, String)> = vec![];
    let mut hang = !baton.quiesce();
    while !hang {
        let en = baton.enabled();
        if en.is_empty() {
            break;
        }
        let d = steps.len();
        let choice = if d < prefix.len() && en.contains(&prefix[d]) {
            prefix[d]
        } else {
            if d < prefix.len() {
                DIVERGED.store(true, Ordering::SeqCst);
            }
            match steps.last() {
                Some((p, _, _)) if en.contains(p) => *p,
                _ => en[0],
            }
        };
        let at = baton.grant(choice);
        steps.push((choice, en, at));
        hang = !baton.quiesce();
    }
    if hang {
        return PairExec { steps, b: "hang".into(), a_after: String::new(), hang: true };
    }
    for h in handles {
        let _ = h.join();
    }
    let b = result.lock().unwrap_or_else(|e| e.into_inner()).clone().unwrap_or_else(|| "missing".into());
    let fx3 = fx.clone();
    let a_after = std::thread::spawn(move || operate(Obj::B(a), &fx3)).join().unwrap_or_else(|_| "PANIC (thread)".into());
    PairExec { steps, b, a_after, hang: false }
}

fn judge_pair(run: &Run, refs: &Refs, ra: Route, rb: Route, ex: &PairExec) -> bool {
    let schedule: Vec<usize> = ex.steps.iter().map(|s| s.0).collect();
    let case = json!({"pair": [ra.name(), rb.name()], "schedule": schedule});
    let want = refs.routes.iter().find(|(r, _)| *r == rb).map(|(_, s)| s.as_str()).unwrap_or("");
    if ex.hang {
        run.violation(format!("hang pair a={} b={}", ra.name(), rb.name()), format!("no progress after schedule {schedule:?}"), case);
        return false;
    }
    if ex.b != want {
        run.outcome("cancel on one object's context changes another object's result");
        run.violation(
            format!("cancel-leaks-between-objects a={} b={} got={}", ra.name(), rb.name(), short_result(&ex.b).split(':').next().unwrap_or("")),
            format!("a = {}, b = {} (both alive, contexts distinct by construction); schedule {schedule:?} of [a.context().cancel(), b's operation]: b ends with {} instead of its sequential result {}", ra.name(), rb.name(), short_result(&ex.b), short_result(want)),
            case,
        );
        return false;
    }
    run.outcome(if ex.a_after == "Cancelled" { "pair: b unaffected, a itself cancelled" } else { "pair: b unaffected (a's own operation not cancelled)" });
    true
}

/// All route pairs x all interleavings. Returns (executions, transitions, executions in which a's cancel was effective on a).
fn explore_pairs(run: &Run, refs: &Refs, fx: &Arc<Fixture>) -> (u64, u64, u64) {
    let (mut execs, mut trans, mut effective) = (0u64, 0u64, 0u64);
    for ra in BUILDER_ROUTES {
        for rb in ALL_ROUTES {
            let mut stack: Vec<Vec<usize>> = vec![vec![]];
            while let Some(prefix) = stack.pop() {
                let ex = execute_pair(ra, rb, fx, &prefix);
                execs += 1;
                trans += ex.steps.len() as u64;
                stack.extend(children_of(&ex.steps, prefix.len(), None));
                let held = judge_pair(run, refs, ra, rb, &ex);
                if held && ex.a_after == "Cancelled" {
                    effective += 1;
                    run.nontrivial(format!("pair/{}/{}/{:?}", ra.name(), rb.name(), ex.steps.iter().map(|s| s.0).collect::<Vec<_>>()));
                }
                if !held && refs.routes.iter().any(|(r, want)| *r == rb && &route_alone(rb, fx) != want) {
                    // the leak is permanent: every later pair would only repeat it under another name
                    run.cap_hit("route pairs stopped: a cancel leaked process-wide, later executions would not be independent");
                    return (execs, trans, effective);
                }
                if execs % 61 == 5 {
                    run.sample(json!({"pair": [ra.name(), rb.name()], "schedule": ex.steps.iter().map(|s| s.0).collect::<Vec<_>>(),
                        "gates_left": ex.steps.iter().map(|s| format!("{}:{}", s.0, s.2)).collect::<Vec<_>>(), "b": short_result(&ex.b), "a_afterwards": short_result(&ex.a_after)}));
                }
            }
        }
    }
    (execs, trans, effective)
}

fn preemptions(steps: &[(usize, Vec<usize>, String)], upto: usize) -> usize {
    (1..upto.min(steps.len())).filter(|d| steps[*d].0 != steps[*d - 1].0 && steps[*d].1.contains(&steps[*d - 1].0)).count()
}

// ------------------------------------------------------------------------------------------------
// judgement

struct Refs {
    /// sequential result of Sign / Read
    sign: String,
    read: String,
    legacy_default: String,
    legacy_after_from_toml: String,
    /// sequential result of the operation of a fresh object, per construction route
    routes: Vec<(Route, String)>,
}

/// Where judgements go (a Run in this process, or a buffer that a shard process prints for its parent).
#[derive(Default)]
struct Sink {
    violations: Vec<(String, String, Value)>,
    outcomes: BTreeMap<String, u64>,
}

impl Sink {
    fn outcome(&mut self, k: impl Into<String>) {
        *self.outcomes.entry(k.into()).or_insert(0) += 1;
    }
    fn violation(&mut self, key: impl Into<String>, what: impl Into<String>, case: Value) {
        if self.violations.len() < 200 {
            self.violations.push((key.into(), what.into(), case));
        }
    }
    fn flush(&mut self, run: &Run) {
        for (k, n) in std::mem::take(&mut self.outcomes) {
            run.outcome_n(k, n);
        }
        for (k, w, c) in std::mem::take(&mut self.violations) {
            run.violation(k, w, c);
        }
    }
}

fn judge(run: &mut Sink, h: &Harness, refs: &Refs, ex: &Execution) {
    let schedule: Vec<usize> = ex.steps.iter().map(|s| s.0).collect();
    let case = json!({"harness": h.name, "schedule": schedule});
    if ex.hang {
        run.outcome("hang");
        run.violation(format!("hang harness={}", h.name), format!("no progress after schedule {schedule:?}: a thread neither reached a checkpoint nor finished within {HANG:?} (baton engine), or shuttle reported a deadlock / escaped panic"), case);
        return;
    }
    // position (step index) of each cancel, and first/last step of every actor
    let first = |i: usize| schedule.iter().position(|a| *a == i).unwrap_or(usize::MAX);
    let last = |i: usize| schedule.iter().rposition(|a| *a == i).unwrap_or(0);
    for (i, spec) in h.actors.iter().enumerate() {
        let r = &ex.results[i];
        let seq = match spec.act {
            Act::Sign => refs.sign.as_str(),
            Act::Read => refs.read.as_str(),
            _ => "done",
        };
        let actn = format!("{:?}", spec.act).to_lowercase();
        if r.result.starts_with("PANIC") {
            run.outcome("panic");
            run.violation(format!("panic act={actn} harness={}", h.name), format!("{}: actor {i} panics: {}", h.name, r.result), case.clone());
            continue;
        }
        // cancels aimed at this actor's context
        let cancels: Vec<usize> = h.actors.iter().enumerate().filter(|(_, s)| s.act == Act::Cancel && s.ctx == spec.ctx).map(|(j, _)| j).collect();
        let is_op = matches!(spec.act, Act::Sign | Act::Read);
        let allowed: Vec<&str> = if !is_op || cancels.is_empty() {
            vec![seq]
        } else {
            // the cancel actor has exactly one segment: its step index is its position
            let cpos = cancels.iter().map(|c| first(*c)).min().unwrap_or(usize::MAX);
            if cpos < first(i) {
                vec!["Cancelled"] // sequential placement: cancel, then the operation
            } else if cpos > last(i) {
                vec![seq] // sequential placement: the operation, then cancel
            } else {
                vec!["Cancelled", seq]
            }
        };
        if allowed.contains(&r.result.as_str()) {
            run.outcome(format!("{actn}: {}", if r.result == "Cancelled" { "cancelled as a placement allows" } else { "sequential result" }));
        } else {
            let foreign_cancel = h.actors.iter().any(|s| s.act == Act::Cancel && s.ctx != spec.ctx);
            let what = if r.result == "Cancelled" && cancels.is_empty() && foreign_cancel {
                "cancelled-by-cancel-on-another-context"
            } else if r.result == "Cancelled" {
                "cancelled-without-cancel"
            } else if cancels.is_empty() {
                "result-differs-from-sequential"
            } else {
                "result-not-allowed-by-any-cancel-placement"
            };
            run.outcome(what.to_string());
            run.violation(
                format!("{what} act={actn} got={} harness={}", short_result(&r.result).split(':').next().unwrap_or(""), h.name),
                format!("{}: schedule {schedule:?}: actor {i} ({actn} on ctx {}) ends with {} ; allowed: {:?}", h.name, spec.ctx, short_result(&r.result), allowed.iter().map(|a| short_result(a)).collect::<Vec<_>>()),
                case.clone(),
            );
        }
        // legacy thread-local settings of this thread
        let want_after = if spec.act == Act::LegacyFromToml { &refs.legacy_after_from_toml } else { &refs.legacy_default };
        if needs_os_threads(h) && (r.legacy_before != refs.legacy_default || &r.legacy_after != want_after) {
            run.outcome("legacy settings changed");
            run.violation(
                format!("legacy-thread-local-settings-changed act={actn} harness={}", h.name),
                format!("{}: schedule {schedule:?}: thread of actor {i} ({actn}) sees legacy settings before==default: {}, after==expected: {}", h.name, r.legacy_before == refs.legacy_default, &r.legacy_after == want_after),
                case.clone(),
            );
        }
    }
}

// ------------------------------------------------------------------------------------------------
// exploration: parallel stateless DFS over schedule prefixes

struct Stats {
    executions: u64,
    transitions: u64,
    alternating: u64,
    max_len: usize,
}

// ------------------------------------------------------------------------------------------------
// shuttle engine, persistent form: one shuttle Runner per explorer worker; its scheduler pulls the next schedule
// prefix from the shared work stack at the start of every execution, so continuation stacks are reused.

struct Work {
    stack: Mutex<Vec<Vec<usize>>>,
    active: AtomicU64,
    done: Mutex<Vec<Execution>>,
    diverged: AtomicU64,
}

#[derive(Default)]
struct WorkerLocal {
    prefix: Vec<usize>,
    steps: Vec<(usize, Vec<usize>, String)>,
    at: Vec<String>,
    current: usize,
    in_execution: bool,
}

thread_local! {
    static WL: std::cell::RefCell<WorkerLocal> = std::cell::RefCell::new(WorkerLocal::default());
}

struct PullSched {
    work: Arc<Work>,
    n_actors: usize,
}

impl shuttle::scheduler::Scheduler for PullSched {
    fn new_execution(&mut self) -> Option<shuttle::scheduler::Schedule> {
        loop {
            let job = {
                let mut g = self.work.stack.lock().unwrap_or_else(|e| e.into_inner());
                let j = g.pop();
                if j.is_some() {
                    self.work.active.fetch_add(1, Ordering::SeqCst);
                }
                j
            };
            match job {
                Some(p) => {
                    WL.with(|w| {
                        let mut w = w.borrow_mut();
                        w.prefix = p;
                        w.steps.clear();
                        w.at = vec!["start".to_string(); self.n_actors];
                        w.current = 0;
                        w.in_execution = true;
                    });
                    return Some(shuttle::scheduler::Schedule::new(0));
                }
                None => {
                    if self.work.active.load(Ordering::SeqCst) == 0 && self.work.stack.lock().unwrap_or_else(|e| e.into_inner()).is_empty() {
                        return None;
                    }
                    std::thread::sleep(Duration::from_micros(100));
                }
            }
        }
    }

    fn next_task(&mut self, runnable: &[&shuttle::scheduler::Task], _current: Option<shuttle::scheduler::TaskId>, _is_yielding: bool) -> Option<shuttle::scheduler::TaskId> {
        if let Some(t) = runnable.iter().find(|t| usize::from(t.id()) == 0) {
            return Some(t.id());
        }
        let mut en: Vec<usize> = runnable.iter().map(|t| usize::from(t.id()) - 1).collect();
        en.sort();
        let choice = WL.with(|w| {
            let mut w = w.borrow_mut();
            let d = w.steps.len();
            let choice = if d < w.prefix.len() {
                if en.contains(&w.prefix[d]) {
                    w.prefix[d]
                } else {
                    self.work.diverged.store(d as u64 + 1, Ordering::SeqCst);
                    en[0]
                }
            } else {
                match w.steps.last() {
                    Some((p, _, _)) if en.contains(p) => *p,
                    _ => en[0],
                }
            };
            let at = w.at[choice].clone();
            w.steps.push((choice, en.clone(), at));
            w.current = choice;
            choice
        });
        Some(shuttle::scheduler::TaskId::from(choice + 1))
    }

    fn next_u64(&mut self) -> u64 {
        0
    }
}

fn children_of(steps: &[(usize, Vec<usize>, String)], from: usize, bound: Option<usize>) -> Vec<Vec<usize>> {
    let mut children = vec![];
    for d in from..steps.len() {
        let (chosen, en, _) = &steps[d];
        let base_p = preemptions(steps, d);
        for alt in en {
            if alt == chosen {
                continue;
            }
            let preempt = d > 0 && en.contains(&steps[d - 1].0) && *alt != steps[d - 1].0;
            if let Some(b) = bound {
                if base_p + preempt as usize > b {
                    continue;
                }
            }
            let mut p: Vec<usize> = steps[..d].iter().map(|s| s.0).collect();
            p.push(*alt);
            children.push(p);
        }
    }
    children
}

/// Body of one worker: runs executions until the work stack is exhausted.
/// Schedules are partitioned over shard PROCESSES by their first SHARD_K grants (the SDK serialises signature
/// operations behind one process-wide OpenSSL mutex, so one process cannot use 16 cores). Prefixes no longer than
/// SHARD_K are executed by every shard, judged and counted only by the owner of the resulting schedule.
const SHARD_K: usize = 6;

fn owner_of(schedule_head: &[usize], shards: usize) -> usize {
    let mut h: usize = 17;
    for a in schedule_head.iter().take(SHARD_K) {
        h = h.wrapping_mul(31).wrapping_add(*a + 1);
    }
    h % shards.max(1)
}

fn shuttle_worker(work: Arc<Work>, actors: Vec<ActorSpec>, n_ctx: usize, bound: Option<usize>, fx: Arc<Fixture>, shard: (usize, usize)) {
    loop {
        let sched = PullSched { work: work.clone(), n_actors: actors.len() };
        let mut cfg = shuttle::Config::default();
        cfg.stack_size = 4 << 20;
        cfg.failure_persistence = shuttle::FailurePersistence::None;
        let (work2, actors2, fx2) = (work.clone(), actors.clone(), fx.clone());
        let out = par::guard(move || {
            shuttle::Runner::new(sched, cfg).run(move || {
                let n = actors2.len();
                let results: Arc<Mutex<Vec<Option<ActorResult>>>> = Arc::new(Mutex::new(vec![None; n]));
                let ctxs: Vec<Arc<Context>> = (0..n_ctx)
                    .map(|_| {
                        sdk::ctx()
                            .with_progress_callback(move |phase: ProgressPhase, step, total| {
                                WL.with(|w| {
                                    let mut w = w.borrow_mut();
                                    let me = w.current;
                                    w.at[me] = format!("{phase:?} {step}/{total}");
                                });
                                shuttle::thread::yield_now();
                                true
                            })
                            .into_shared()
                    })
                    .collect();
                let handles: Vec<_> = actors2
                    .iter()
                    .enumerate()
                    .map(|(i, spec)| {
                        let (spec, ctxs, fx, results) = (spec.clone(), ctxs.clone(), fx2.clone(), results.clone());
                        shuttle::thread::spawn(move || {
                            let result = actor_body(&spec, &ctxs, &fx);
                            results.lock().unwrap_or_else(|e| e.into_inner())[i] = Some(ActorResult { result, legacy_before: String::new(), legacy_after: String::new() });
                        })
                    })
                    .collect();
                for hd in handles {
                    let _ = hd.join();
                }
                // post-processing on the harness task: children first, then hand the execution to the judge
                let (steps, plen) = WL.with(|w| {
                    let mut w = w.borrow_mut();
                    w.in_execution = false;
                    (std::mem::take(&mut w.steps), w.prefix.len())
                });
                let mut kids = children_of(&steps, plen, bound);
                kids.retain(|p| p.len() <= SHARD_K || owner_of(p, shard.1) == shard.0);
                let head: Vec<usize> = steps.iter().map(|s| s.0).collect();
                let owned = owner_of(&head, shard.1) == shard.0;
                work2.stack.lock().unwrap_or_else(|e| e.into_inner()).extend(kids);
                let results = results.lock().unwrap_or_else(|e| e.into_inner()).iter().map(|r| r.clone().unwrap_or(ActorResult { result: "missing".into(), legacy_before: String::new(), legacy_after: String::new() })).collect();
                work2.done.lock().unwrap_or_else(|e| e.into_inner()).push(Execution { steps, results, hang: false, owned });
                work2.active.fetch_sub(1, Ordering::SeqCst);
            })
        });
        par::quiet_panics();
        match out {
            Ok(_) => return, // scheduler ran out of work
            Err(_) => {
                // shuttle aborted the execution (deadlock, or a panic that escaped an actor): report it and carry on
                let (steps, was_in) = WL.with(|w| {
                    let mut w = w.borrow_mut();
                    let was = w.in_execution;
                    w.in_execution = false;
                    (std::mem::take(&mut w.steps), was)
                });
                if was_in {
                    work.done.lock().unwrap_or_else(|e| e.into_inner()).push(Execution { steps, results: vec![], hang: true, owned: true });
                    work.active.fetch_sub(1, Ordering::SeqCst);
                } else {
                    return;
                }
            }
        }
    }
}

/// Explore (this process's share of) a harness with the persistent shuttle engine.
fn explore_shuttle_local(h: &Harness, refs: &Refs, fx: &Arc<Fixture>, shard: (usize, usize), threads: usize) -> (Stats, Sink, Vec<Value>) {
    let work = Arc::new(Work { stack: Mutex::new(vec![vec![]]), active: AtomicU64::new(0), done: Mutex::new(vec![]), diverged: AtomicU64::new(0) });
    let mut handles = vec![];
    for _ in 0..threads.max(1) {
        let (w, a, n, b, f) = (work.clone(), h.actors.clone(), h.n_ctx, h.preemption_bound, fx.clone());
        handles.push(std::thread::spawn(move || shuttle_worker(w, a, n, b, f, shard)));
    }
    let mut st = Stats { executions: 0, transitions: 0, alternating: 0, max_len: 0 };
    let mut sink = Sink::default();
    let mut samples = vec![];
    let mut sampled = 0u64;
    loop {
        let finished = handles.iter().all(|h| h.is_finished());
        let batch: Vec<Execution> = std::mem::take(&mut *work.done.lock().unwrap_or_else(|e| e.into_inner()));
        if batch.is_empty() {
            if finished {
                break;
            }
            std::thread::sleep(Duration::from_millis(2));
            continue;
        }
        for ex in batch {
            if !ex.owned {
                continue;
            }
            st.executions += 1;
            st.transitions += ex.steps.len() as u64;
            st.max_len = st.max_len.max(ex.steps.len());
            if preemptions(&ex.steps, ex.steps.len()) >= 2 {
                st.alternating += 1;
            }
            judge(&mut sink, h, refs, &ex);
            sampled += 1;
            if sampled % 4001 == 7 && !ex.hang && samples.len() < 2 {
                samples.push(json!({"harness": h.name, "engine": "shuttle", "schedule": ex.steps.iter().map(|s| s.0).collect::<Vec<_>>(),
                    "gates_left": ex.steps.iter().map(|s| format!("{}:{}", s.0, s.2)).collect::<Vec<_>>(),
                    "results": ex.results.iter().map(|r| short_result(&r.result)).collect::<Vec<_>>() }));
            }
        }
    }
    for hd in handles {
        let _ = hd.join();
    }
    if work.diverged.load(Ordering::SeqCst) > 0 {
        DIVERGED.store(true, Ordering::SeqCst);
    }
    (st, sink, samples)
}

const SHARD_PROCESSES: usize = 8;

/// Shard process entry (VERIF_C24_SHARD="me/P", VERIF_C24_HARNESS=name): explore the share, print one JSON line.
fn shard_main(tier_thorough: bool) -> ! {
    par::quiet_panics();
    let spec = std::env::var("VERIF_C24_SHARD").unwrap_or_default();
    let mut it = spec.split('/').filter_map(|x| x.parse::<usize>().ok());
    let (me, p) = (it.next().unwrap_or(0), it.next().unwrap_or(1));
    let name = std::env::var("VERIF_C24_HARNESS").unwrap_or_default();
    let fx = fixture();
    let refs = sequential_refs(&fx);
    let hs = harnesses_for(tier_thorough);
    let Some(h) = hs.iter().find(|h| h.name == name) else { std::process::exit(5) };
    let threads = (2 * par::workers()).div_ceil(p).max(2);
    let (st, sink, samples) = explore_shuttle_local(h, &refs, &fx, (me, p), threads);
    let out = json!({"executions": st.executions, "transitions": st.transitions, "alternating": st.alternating, "max_len": st.max_len,
        "outcomes": sink.outcomes, "violations": sink.violations.iter().map(|(k, w, c)| json!([k, w, c])).collect::<Vec<_>>(),
        "samples": samples, "diverged": DIVERGED.load(Ordering::SeqCst)});
    println!("{out}");
    std::process::exit(0);
}

fn explore_shuttle(run: &Run, h: &Harness, refs: &Refs, fx: &Arc<Fixture>) -> Stats {
    if !h.sharded {
        let (st, mut sink, samples) = explore_shuttle_local(h, refs, fx, (0, 1), 2 * par::workers());
        sink.flush(run);
        samples.into_iter().for_each(|s| run.sample(s));
        return st;
    }
    let exe = std::env::current_exe().unwrap_or_else(|e| kit::ev::machinery(format!("C24: current_exe: {e}")));
    let outs: Mutex<Vec<Value>> = Mutex::new(vec![]);
    std::thread::scope(|s| {
        for me in 0..SHARD_PROCESSES {
            let (exe, outs, name) = (&exe, &outs, &h.name);
            let tier = run.tier.name();
            s.spawn(move || {
                let o = std::process::Command::new(exe)
                    .args(["C24", "--tier", tier])
                    .env("VERIF_C24_SHARD", format!("{me}/{SHARD_PROCESSES}"))
                    .env("VERIF_C24_HARNESS", name)
                    .stderr(std::process::Stdio::null())
                    .output()
                    .unwrap_or_else(|e| kit::ev::machinery(format!("C24: cannot run shard process: {e}")));
                if !o.status.success() {
                    kit::ev::machinery(format!("C24: shard process {me} of {name} failed: {:?}", o.status));
                }
                let line = o.stdout.split(|b| *b == b'\n').filter(|l| l.starts_with(b"{")).last().map(|l| l.to_vec()).unwrap_or_default();
                let v: Value = serde_json::from_slice(&line).unwrap_or_else(|e| kit::ev::machinery(format!("C24: shard output unreadable: {e}")));
                outs.lock().unwrap().push(v);
            });
        }
    });
    let mut st = Stats { executions: 0, transitions: 0, alternating: 0, max_len: 0 };
    for v in outs.into_inner().unwrap() {
        st.executions += v["executions"].as_u64().unwrap_or(0);
        st.transitions += v["transitions"].as_u64().unwrap_or(0);
        st.alternating += v["alternating"].as_u64().unwrap_or(0);
        st.max_len = st.max_len.max(v["max_len"].as_u64().unwrap_or(0) as usize);
        if v["diverged"].as_bool().unwrap_or(false) {
            DIVERGED.store(true, Ordering::SeqCst);
        }
        if let Some(m) = v["outcomes"].as_object() {
            for (k, n) in m {
                run.outcome_n(k.clone(), n.as_u64().unwrap_or(0));
            }
        }
        for x in v["violations"].as_array().cloned().unwrap_or_default() {
            run.violation(x[0].as_str().unwrap_or("?").to_string(), x[1].as_str().unwrap_or("").to_string(), x[2].clone());
        }
        for x in v["samples"].as_array().cloned().unwrap_or_default() {
            run.sample(x);
        }
    }
    st
}

fn explore(run: &Run, h: &Harness, refs: &Refs, fx: &Arc<Fixture>) -> Stats {
    let stack: Mutex<Vec<Vec<usize>>> = Mutex::new(vec![vec![]]);
    let active = AtomicU64::new(0);
    let executions = AtomicU64::new(0);
    let transitions = AtomicU64::new(0);
    let alternating = AtomicU64::new(0);
    let max_len = AtomicU64::new(0);
    let suspects: Mutex<Vec<Vec<usize>>> = Mutex::new(vec![]);
    let sampled = AtomicU64::new(0);
    // thread-heavy executions: fewer explorer workers than cores
    let workers = if needs_os_threads(h) { (par::workers() / 2).clamp(1, 8) } else { par::workers() };
    std::thread::scope(|s| {
        for _ in 0..workers {
            s.spawn(|| loop {
                let job = {
                    let mut g = stack.lock().unwrap();
                    let j = g.pop();
                    if j.is_some() {
                        active.fetch_add(1, Ordering::SeqCst);
                    }
                    j
                };
                let Some(prefix) = job else {
                    if active.load(Ordering::SeqCst) == 0 && stack.lock().unwrap().is_empty() {
                        break;
                    }
                    std::thread::sleep(Duration::from_micros(200));
                    continue;
                };
                let ex = run_schedule(h, fx, &prefix);
                executions.fetch_add(1, Ordering::Relaxed);
                transitions.fetch_add(ex.steps.len() as u64, Ordering::Relaxed);
                max_len.fetch_max(ex.steps.len() as u64, Ordering::Relaxed);
                if preemptions(&ex.steps, ex.steps.len()) >= 2 {
                    alternating.fetch_add(1, Ordering::Relaxed);
                }
                // children: every alternative at depth >= prefix.len()
                let mut children = vec![];
                for d in prefix.len()..ex.steps.len() {
                    let (chosen, en, _) = &ex.steps[d];
                    let base_p = preemptions(&ex.steps, d);
                    for alt in en {
                        if alt == chosen {
                            continue;
                        }
                        let preempt = d > 0 && en.contains(&ex.steps[d - 1].0) && *alt != ex.steps[d - 1].0;
                        if let Some(b) = h.preemption_bound {
                            if base_p + preempt as usize > b {
                                continue;
                            }
                        }
                        let mut p: Vec<usize> = ex.steps[..d].iter().map(|s| s.0).collect();
                        p.push(*alt);
                        children.push(p);
                    }
                }
                stack.lock().unwrap().extend(children);
                // judge; a violation seen during the parallel sweep is re-executed alone before it is reported
                let mut probe = Sink::default();
                judge(&mut probe, h, refs, &ex);
                if !probe.violations.is_empty() {
                    suspects.lock().unwrap().push(ex.steps.iter().map(|s| s.0).collect());
                } else {
                    probe.flush(run);
                }
                if sampled.fetch_add(1, Ordering::Relaxed) % 4001 == 7 {
                    run.sample(json!({"harness": h.name, "schedule": ex.steps.iter().map(|s| s.0).collect::<Vec<_>>(),
                        "gates_left": ex.steps.iter().map(|s| format!("{}:{}", s.0, s.2)).collect::<Vec<_>>(),
                        "results": ex.results.iter().map(|r| short_result(&r.result)).collect::<Vec<_>>() }));
                }
                active.fetch_sub(1, Ordering::SeqCst);
            });
        }
    });
    // re-execute suspects alone (no other explorer running)
    for sch in suspects.into_inner().unwrap() {
        let ex = run_schedule(h, fx, &sch);
        let mut probe = Sink::default();
        judge(&mut probe, h, refs, &ex);
        if !probe.violations.is_empty() {
            probe.flush(run);
        } else {
            run.outcome("violation only while other explorer workers were running");
            run.violation(
                format!("interference-between-unrelated-contexts harness={}", h.name),
                format!("{}: schedule {sch:?} violated the oracle while other explorer workers (using their own contexts) were running, but not when re-executed alone", h.name),
                json!({"harness": h.name, "schedule": sch}),
            );
        }
    }
    Stats { executions: executions.into_inner(), transitions: transitions.into_inner(), alternating: alternating.into_inner(), max_len: max_len.into_inner() as usize }
}

fn harnesses(run: &Run) -> Vec<Harness> {
    harnesses_for(run.tier.is_thorough())
}

fn harnesses_for(t: bool) -> Vec<Harness> {
    use Act::*;
    let a = |act: Act, ctx: usize| ActorSpec { act, ctx };
    let mk = |name: &str, actors: Vec<ActorSpec>, bound: Option<usize>| {
        let n_ctx = actors.iter().map(|s| s.ctx).max().unwrap_or(0) + 1;
        // big = two operations with many checkpoints each, or three threads
        let ops = actors.iter().filter(|s| matches!(s.act, Act::Sign | Act::Read)).count();
        let os_threads = actors.iter().any(|s| matches!(s.act, Act::SettingsBuilder | Act::LegacyFromToml));
        Harness { name: name.to_string(), sharded: ops >= 2 && !os_threads && bound.is_none(), actors, n_ctx, preemption_bound: bound }
    };
    let mut v = vec![
        mk("sign(A)||read(A)", vec![a(Sign, 0), a(Read, 0)], None),
        mk("read(A)||read(A)", vec![a(Read, 0), a(Read, 0)], None),
        mk("read(A)||cancel(A)", vec![a(Read, 0), a(Cancel, 0)], None),
        mk("sign(A)||cancel(A)", vec![a(Sign, 0), a(Cancel, 0)], None),
        mk("read(A)||cancel(B)", vec![a(Read, 0), a(Cancel, 1)], None),
        mk("sign(A)||cancel(B)", vec![a(Sign, 0), a(Cancel, 1)], None),
        mk("read(A)||settings-builder", vec![a(Read, 0), a(SettingsBuilder, 1)], None),
        mk("sign(A)||settings-builder", vec![a(Sign, 0), a(SettingsBuilder, 1)], None),
        mk("read(A)||legacy-from_toml", vec![a(Read, 0), a(LegacyFromToml, 1)], None),
        mk("sign(A)||legacy-from_toml", vec![a(Sign, 0), a(LegacyFromToml, 1)], None),
        mk("read(A)||read(B)||cancel(B)", vec![a(Read, 0), a(Read, 1), a(Cancel, 1)], if t { None } else { Some(2) }),
        mk("sign(A)||read(B)||cancel(B)", vec![a(Sign, 0), a(Read, 1), a(Cancel, 1)], if t { None } else { Some(2) }),
        mk("sign(A)||read(A)||cancel(A)", vec![a(Sign, 0), a(Read, 0), a(Cancel, 0)], if t { None } else { Some(2) }),
        mk("sign(A)||read(A)||read(B)", vec![a(Sign, 0), a(Read, 0), a(Read, 1)], Some(2)),
    ];
    if t {
        v.push(mk("sign(A)||sign(A)", vec![a(Sign, 0), a(Sign, 0)], Some(3)));
        v.push(mk("sign(A)||sign(B)||cancel(B)", vec![a(Sign, 0), a(Sign, 1), a(Cancel, 1)], Some(2)));
        v.push(mk("sign(A)||read(A)||legacy-from_toml", vec![a(Sign, 0), a(Read, 0), a(LegacyFromToml, 1)], Some(2)));
    }
    v
}

fn fixture() -> Arc<Fixture> {
    let asset = assets::by_name("png");
    let signed = sdk::sign_simple(signer(), asset.mime, &asset.data, &[]);
    Arc::new(Fixture { asset, signed })
}

/// One operation alone on a fresh context (its own thread, baton always granted).
fn alone(act: Act, fx: &Arc<Fixture>) -> Option<ActorResult> {
    let h = Harness { name: "sequential".into(), actors: vec![ActorSpec { act, ctx: 0 }], n_ctx: 1, preemption_bound: None, sharded: false };
    let ex = execute(&h, fx, &[]);
    if ex.hang { None } else { ex.results.into_iter().next() }
}

/// After a harness: fresh contexts must still behave as they did at the start. Returns false when they do not
/// (a violation has been recorded: something done to earlier contexts leaked into the process).
fn fresh_contexts_unaffected(run: &Run, refs: &Refs, fx: &Arc<Fixture>, after: &str) -> bool {
    let mut ok = true;
    for (act, want) in [(Act::Sign, &refs.sign), (Act::Read, &refs.read)] {
        let got = alone(act.clone(), fx).map(|r| r.result).unwrap_or_else(|| "hang".into());
        run.eval();
        if &got != want {
            ok = false;
            let actn = format!("{act:?}").to_lowercase();
            run.outcome("fresh context affected by earlier contexts");
            run.violation(
                format!("fresh-context-affected-by-earlier-contexts act={actn} got={}", short_result(&got).split(':').next().unwrap_or("")),
                format!("after exploring {after}: {actn} alone on a FRESH context now ends with {} instead of its initial sequential result — state of earlier contexts (e.g. a cancel) leaked process-wide", short_result(&got)),
                json!({"harness": after, "schedule": [], "note": "run the harness, then one operation alone on a fresh context"}),
            );
        }
    }
    // ... and so must objects obtained afterwards through every construction route
    for (route, want) in &refs.routes {
        // after an ordinary harness only the routes WITHOUT an explicit context are re-checked (explicit fresh contexts are
        // what the two operations above just used); after the route pairs all of them
        if route.gated() && after != "the route pairs" && after != "pair replay" {
            continue;
        }
        let got = route_alone(*route, fx);
        run.eval();
        if &got != want {
            ok = false;
            run.outcome("fresh object affected by earlier objects");
            run.violation(
                format!("fresh-object-affected-by-earlier-objects route={} got={}", route.name(), short_result(&got).split(':').next().unwrap_or("")),
                format!("after exploring {after}: the operation of an object constructed NOW through {} ends with {} instead of its initial result — something done to earlier objects' contexts (e.g. a cancel) leaked process-wide", route.name(), short_result(&got)),
                json!({"harness": after, "schedule": [], "note": "run the harness, then construct a fresh object through the route and run its operation"}),
            );
        }
    }
    ok
}

fn sequential_refs(fx: &Arc<Fixture>) -> Refs {
    // each operation alone, on its own thread, with a gated context that is always granted immediately
    let one = |act: Act| -> ActorResult {
        let h = Harness { name: "sequential".into(), actors: vec![ActorSpec { act, ctx: 0 }], n_ctx: 1, preemption_bound: None, sharded: false };
        let ex = execute(&h, fx, &[]);
        if ex.hang {
            kit::ev::machinery("C24: sequential reference run hangs");
        }
        ex.results[0].clone()
    };
    let (s1, s2) = (one(Act::Sign), one(Act::Sign));
    let (r1, r2) = (one(Act::Read), one(Act::Read));
    if s1 != s2 || r1 != r2 {
        kit::ev::machinery("C24: sequential sign/read is not deterministic after canonicalisation");
    }
    if !s1.result.starts_with("Ok:") || !r1.result.starts_with("Ok:") || s1.result.contains("unreadable") {
        kit::ev::machinery(format!("C24: sequential references are not Ok: sign={} read={}", short_result(&s1.result), short_result(&r1.result)));
    }
    let l = one(Act::LegacyFromToml);
    if l.result != "done" || l.legacy_after == l.legacy_before {
        kit::ev::machinery(format!("C24: legacy Settings::from_toml has no observable effect on its own thread ({})", l.result));
    }
    let mut routes = vec![];
    for r in ALL_ROUTES {
        let (x, y) = (route_alone(r, fx), route_alone(r, fx));
        if x != y {
            kit::ev::machinery(format!("C24: the operation of a fresh {} object is not deterministic", r.name()));
        }
        if !x.starts_with("Ok:") || x.contains("unreadable") {
            kit::ev::machinery(format!("C24: the operation of a fresh {} object does not succeed: {}", r.name(), short_result(&x)));
        }
        routes.push((r, x));
    }
    Refs { sign: s1.result, read: r1.result, legacy_default: s1.legacy_before, legacy_after_from_toml: l.legacy_after, routes }
}

pub fn run(run: &Run, replay: Option<&Value>) {
    if std::env::var("VERIF_C24_SHARD").is_ok() {
        shard_main(run.tier.is_thorough());
    }
    run.rule(
        "per harness (threads over shared/distinct contexts) ALL schedules of baton grants are executed (stateless DFS; where a preemption bound is stated, all schedules within it). \
         evaluations = executions = states; transitions = baton grants (segments executed). non-trivial = executions in which control actually alternates: at least two preemptions \
         (a thread is descheduled at a checkpoint while it could continue), counted per distinct schedule; for the route pairs (objects from every public construction route, \
         a.context().cancel() against b's operation): executions in which the cancel was effective on a itself while b kept its sequential result.",
    );
    run.assume("operations interact only at progress checkpoints (cancel flag, callback) and at OnceLock initialisations; OnceLock initialisation races are left to std (trusted)");
    run.assume("one thread runs at a time under the baton; data races inside safe Rust are excluded by the compiler; the crate's unsafe impl Send/Sync sites are trusted");
    run.assume("legacy thread-local settings are observed through the deprecated accessor Settings::to_toml() at thread start and end");
    run.assume("a violation observed while several explorer workers run is re-executed alone before it is reported");
    par::quiet_panics();
    let fx = fixture();
    let refs = sequential_refs(&fx);
    let hs = harnesses(run);

    if let Some(c) = replay {
        if let Some(pair) = c["pair"].as_array() {
            let ra = pair.first().and_then(|x| x.as_str()).and_then(Route::parse).unwrap_or_else(|| kit::ev::machinery("C24 replay: unknown route"));
            let rb = pair.get(1).and_then(|x| x.as_str()).and_then(Route::parse).unwrap_or_else(|| kit::ev::machinery("C24 replay: unknown route"));
            let sch: Vec<usize> = c["schedule"].as_array().map(|a| a.iter().filter_map(|x| x.as_u64().map(|n| n as usize)).collect()).unwrap_or_default();
            let ex = execute_pair(ra, rb, &fx, &sch);
            println!("replay pair a={} b={} schedule {sch:?}", ra.name(), rb.name());
            for (i, s) in ex.steps.iter().enumerate() {
                println!("  step {i}: actor {} ({}) leaves gate '{}'", s.0, if s.0 == 0 { "a.context().cancel()" } else { "b's operation" }, s.2);
            }
            println!("  b: {}\n  a afterwards: {}", short_result(&ex.b), short_result(&ex.a_after));
            run.eval();
            run.states(1);
            run.transitions(ex.steps.len() as u64);
            judge_pair(run, &refs, ra, rb, &ex);
            fresh_contexts_unaffected(run, &refs, &fx, "pair replay");
            return;
        }
        let name = c["harness"].as_str().unwrap_or("");
        let h = hs.iter().find(|h| h.name == name).unwrap_or_else(|| kit::ev::machinery("C24 replay: unknown harness"));
        let sch: Vec<usize> = c["schedule"].as_array().map(|a| a.iter().filter_map(|x| x.as_u64().map(|n| n as usize)).collect()).unwrap_or_default();
        let ex = run_schedule(h, &fx, &sch);
        println!("replay {name} schedule {sch:?}");
        for (i, s) in ex.steps.iter().enumerate() {
            println!("  step {i}: actor {} leaves gate '{}' (enabled {:?})", s.0, s.2, s.1);
        }
        for (i, r) in ex.results.iter().enumerate() {
            println!("  actor {i} {:?}: {}", h.actors[i].act, short_result(&r.result));
        }
        run.eval();
        run.states(1);
        run.transitions(ex.steps.len() as u64);
        let mut sk = Sink::default();
        judge(&mut sk, h, &refs, &ex);
        sk.flush(run);
        // whatever the schedule did to its contexts, fresh contexts must behave as before
        fresh_contexts_unaffected(run, &refs, &fx, &h.name);
        return;
    }

    let mut per: BTreeMap<String, Value> = BTreeMap::new();
    let mut poisoned = false;
    let t0 = std::time::Instant::now();
    for h in &hs {
        let st = if needs_os_threads(h) { explore(run, h, &refs, &fx) } else { explore_shuttle(run, h, &refs, &fx) };
        let exhaustive_all = h.preemption_bound.is_none();
        run.space(
            &format!("{}: {}", h.name, match h.preemption_bound { None => "all interleavings".to_string(), Some(b) => format!("all interleavings with <= {b} preemptions") }),
            st.executions,
            true,
        );
        run.evals(st.executions);
        run.states(st.executions);
        run.traces(st.executions);
        run.transitions(st.transitions);
        run.nontrivial_n(st.alternating);
        let unaffected = fresh_contexts_unaffected(run, &refs, &fx, &h.name);
        if DIVERGED.load(Ordering::SeqCst) && unaffected {
            kit::ev::machinery(format!("C24: a recorded schedule prefix of {} could not be replayed although fresh contexts behave as before (harness nondeterminism)", h.name));
        }
        if !unaffected {
            run.cap_hit("exploration stopped: process-wide state changed, later executions would not be independent");
            poisoned = true;
            break;
        }
        per.insert(h.name.clone(), json!({"interleavings": st.executions, "segments_executed": st.transitions, "with_2+_preemptions": st.alternating, "longest_schedule": st.max_len, "unbounded": exhaustive_all, "elapsed_s": t0.elapsed().as_secs_f64()}));
    }
    run.extra("harnesses", json!(per));

    // ---- objects from every construction route, in pairs: a.context().cancel() against b's operation --------------
    if !poisoned {
        let t1 = std::time::Instant::now();
        let (execs, trans, effective) = explore_pairs(run, &refs, &fx);
        run.space("route pairs: a in {Builder::default, Builder::new, Builder::from_context(Context::new()), Builder::from_shared_context(own Arc)} x b in those four + {Reader::default, Reader::from_context, Reader::from_shared_context, Reader::from_stream}; \
                   both alive; all interleavings of [a.context().cancel()] with [b's operation] (gated at every checkpoint when b's context is explicit, else atomic)", execs, true);
        run.evals(execs);
        run.states(execs);
        run.traces(execs);
        run.transitions(trans);
        let unaffected = fresh_contexts_unaffected(run, &refs, &fx, "the route pairs");
        if DIVERGED.load(Ordering::SeqCst) && unaffected {
            kit::ev::machinery("C24: a recorded schedule prefix of a route pair could not be replayed although fresh objects behave as before");
        }
        run.extra("route_pairs", json!({"interleavings": execs, "segments_executed": trans, "with_a_effectively_cancelled": effective, "elapsed_s": t1.elapsed().as_secs_f64()}));

        // free-running: six threads, each with its OWN default-constructed object; the first cancels its own context
        let rounds = run.tier.pick(10u64, 200u64);
        for round in 0..rounds {
            let res: Mutex<Vec<(Route, String)>> = Mutex::new(vec![]);
            std::thread::scope(|s| {
                for i in 0..6usize {
                    let (fx, res) = (&fx, &res);
                    s.spawn(move || {
                        let route = if i % 2 == 0 { Route::BuilderDefault } else { Route::ReaderDefault };
                        let obj = construct(route, None);
                        if i == 0 {
                            if let Obj::B(b) = &obj {
                                b.context().cancel();
                            }
                            return;
                        }
                        res.lock().unwrap().push((route, operate(obj, fx)));
                    });
                }
            });
            for (route, r) in res.into_inner().unwrap() {
                let want = refs.routes.iter().find(|(x, _)| *x == route).map(|(_, s)| s.clone()).unwrap_or_default();
                if r != want {
                    run.violation(format!("free-running-default-objects route={} got={}", route.name(), short_result(&r).split(':').next().unwrap_or("")),
                        format!("round {round}: six threads with their own default-constructed objects, one cancels its own context: {} gives {}", route.name(), short_result(&r)), json!({"harness": "free-running-default-objects", "round": round}));
                }
            }
            run.evals(5);
        }
    }


    // free-running pass: real threads, no baton, shared and distinct contexts
    let n = run.tier.pick(12u64, 400u64);
    let free_viol = AtomicU64::new(0);
    for round in 0..n {
        let shared = sdk::ctx().into_shared();
        let other = sdk::ctx().into_shared();
        let res: Mutex<Vec<(String, String)>> = Mutex::new(vec![]);
        std::thread::scope(|s| {
            for i in 0..6 {
                let (shared, other, fx, res) = (&shared, &other, &fx, &res);
                s.spawn(move || {
                    let ctxs = vec![shared.clone()];
                    let act = if i % 2 == 0 { Act::Sign } else { Act::Read };
                    let before = legacy_snapshot();
                    let r = actor_body(&ActorSpec { act: act.clone(), ctx: 0 }, &ctxs, fx);
                    if before != legacy_snapshot() {
                        res.lock().unwrap().push(("legacy".into(), "changed".into()));
                    }
                    res.lock().unwrap().push((format!("{act:?}"), r));
                    if i == 5 {
                        other.cancel(); // never affects `shared`
                    }
                });
            }
        });
        for (act, r) in res.into_inner().unwrap() {
            let want = if act == "Sign" { &refs.sign } else { &refs.read };
            if &r != want {
                free_viol.fetch_add(1, Ordering::Relaxed);
                run.violation(format!("free-running act={act} got={}", short_result(&r).split(':').next().unwrap_or("")), format!("round {round}: real threads on a shared context: {act} gives {}", short_result(&r)), json!({"harness":"free-running","round":round}));
            }
        }
        run.evals(6);
    }
    run.extra("free_running_operations", json!(n * 6));
}

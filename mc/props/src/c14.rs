//! C14 — reserved-size padding is exact and signing succeeds for any ample reserve.
//! S-inp: every reserve size in a contiguous range, per algorithm, on the real COSE signer
//! (hook `cose_sign_unchecked` = crypto::cose::sign + pad_cose_sig) and through Builder::sign;
//! every target size for DataHash::pad_to_size.

use c2pa::{assertions::DataHash, HashRange};
use kit::{par, sdk, Run};
use serde_json::{json, Value};
use std::sync::Mutex;

fn is_size_error(e: &c2pa::Error) -> bool {
    let s = format!("{e:?}");
    s.contains("TooSmall") || s.contains("BoxSize") || s.contains("JumbfCreationError")
}

/// One COSE padding evaluation. Returns Ok(len) | Err(error text, is_size_error)
fn cose_case(alg: &str, v2: bool, reserve: usize) -> Result<Result<usize, (String, bool)>, String> {
    let signer = sdk::fixture_signer(alg);
    let claim = b"verif-claim-bytes-0123456789";
    par::guard(|| {
        match c2pa::verif_hooks::cose_sign_unchecked(signer.as_ref(), claim, reserve, v2) {
            Ok(b) => Ok(b.len()),
            Err(e) => Err((format!("{e:?}"), is_size_error(&e))),
        }
    })
}

pub fn run(run: &Run, replay: Option<&Value>) {
    run.rule("for each signing algorithm and COSE time-stamp storage version: every reserve size r in [0, first_success+span] (contiguous, no gaps); \
              non-trivial = reserves at or above the first success (each must succeed with exactly r bytes). Plus every DataHash::pad_to_size target \
              in [unpadded, unpadded+span] for 3 exclusion shapes, and Builder::sign with a reserve-overriding signer for every reserve in a window.");
    run.assume("claim bytes given to the COSE layer are a fixed 28-byte string (padding logic does not depend on the payload, which is detached)");
    run.assume("repository test credentials (sdk/tests/fixtures/certs) are used as signers");
    if let Some(c) = replay {
        replay_case(run, c);
        return;
    }
    let span: usize = run.tier.pick(3000, 70_000);

    // ---- COSE padding, per algorithm x storage version -------------------------------------
    for (alg, _) in sdk::ALGS {
        for v2 in [false, true] {
            // thorough spans 70k for v2 on every alg, v1 gets 5k (same pad routine, header differs by a label)
            let rsa = alg.starts_with("ps");
            let span = match (run.tier.is_thorough(), rsa, v2) {
                (false, true, _) => 330,        // RSA signatures are slow and serialised by the SDK's OpenSSL mutex
                (false, false, _) => span,
                (true, true, true) => 70_000,
                (true, false, true) => 70_000,
                (true, _, false) => 5000,
            };
            // find first success by scanning upward from 0 in parallel blocks
            let signer = sdk::fixture_signer(alg);
            // results[r] for r in 0..limit; limit grows until first success found
            let mut first_ok: Option<usize> = None;
            // the COSE structure embeds the certificate chain, so nothing below its length can succeed
            let certs_len: usize = signer.certs().map(|c| c.iter().map(|x| x.len()).sum()).unwrap_or(0);
            let scan_from = certs_len;
            let mut base = scan_from;
            let block = 512usize;
            let results: Mutex<Vec<(usize, Result<Result<usize, (String, bool)>, String>)>> = Mutex::new(vec![]);
            while first_ok.is_none() && base < 40_000 {
                par::for_each_index(block as u64, |i| {
                    let r = base + i as usize;
                    let res = cose_case(alg, v2, r);
                    results.lock().unwrap().push((r, res));
                });
                let g = results.lock().unwrap();
                first_ok = g.iter().filter(|(_, x)| matches!(x, Ok(Ok(_)))).map(|(r, _)| *r).min();
                drop(g);
                base += block;
            }
            let Some(first_ok) = first_ok else {
                kit::ev::machinery(format!("C14: no reserve below 40000 succeeds for {alg}"));
            };
            let end = first_ok + span;
            if end >= base {
                let n = end + 1 - base;
                par::for_each_index(n as u64, |i| {
                    let r = base + i as usize;
                    let res = cose_case(alg, v2, r);
                    results.lock().unwrap().push((r, res));
                });
            }
            let mut g = results.lock().unwrap();
            g.sort_by_key(|x| x.0);
            g.retain(|x| x.0 <= end);
            run.space(&format!("cose-pad alg={alg} v2={v2} reserve in [{scan_from},{end}] (cert chain alone is {certs_len} bytes)"), g.len() as u64, true);
            let mut gap_start: Option<usize> = None;
            let mut gap_err = String::new();
            for (r, res) in g.iter() {
                run.eval();
                match res {
                    Err(p) => {
                        run.outcome("panic");
                        run.violation(format!("cose-pad panic alg={alg} v2={v2}"), format!("panic at reserve {r}: {p}"),
                            json!({"kind":"cose","alg":alg,"v2":v2,"reserve":r}));
                    }
                    Ok(Ok(len)) => {
                        run.outcome("ok");
                        if *r >= first_ok { run.nontrivial(format!("{alg}/{v2}/{r}")); }
                        if let Some(s) = gap_start.take() {
                            report_gap(run, alg, v2, first_ok, s, *r - 1, &gap_err);
                        }
                        if *len != *r {
                            run.violation(format!("cose-pad inexact alg={alg} v2={v2}"),
                                format!("reserve {r} produced {len} bytes"),
                                json!({"kind":"cose","alg":alg,"v2":v2,"reserve":r}));
                        }
                    }
                    Ok(Err((e, size))) => {
                        run.outcome(format!("err:{}", e.split('(').next().unwrap_or("")));
                        if *r > first_ok {
                            run.nontrivial(format!("{alg}/{v2}/{r}"));
                            if *size {
                                if gap_start.is_none() { gap_start = Some(*r); gap_err = e.clone(); }
                            } else {
                                run.violation(format!("cose-pad error alg={alg} v2={v2} err={e}"),
                                    format!("reserve {r} (> succeeding {first_ok}) fails with {e}"),
                                    json!({"kind":"cose","alg":alg,"v2":v2,"reserve":r}));
                            }
                        }
                    }
                }
            }
            if let Some(s) = gap_start.take() {
                report_gap(run, alg, v2, first_ok, s, end, &gap_err);
            }
            if alg == "ed25519" {
                run.sample(json!({"alg":alg,"v2":v2,"first_succeeding_reserve":first_ok,"last_reserve":end}));
            }
        }
    }

    // ---- Builder::sign with an overriding reserve --------------------------------------------
    {
        let asset = kit::assets::png();
        let inner = sdk::fixture_signer("ed25519");
        // window around the minimal reserve; found by scanning
        let lo = inner.certs().map(|c| c.iter().map(|x| x.len()).sum::<usize>()).unwrap_or(0);
        let hi = lo + run.tier.pick(1600usize, 12_000usize);
        let res: Mutex<Vec<(usize, Result<Result<(), (String, bool)>, String>)>> = Mutex::new(vec![]);
        par::for_each_index((hi - lo) as u64, |i| {
            let r = lo + i as usize;
            let s = sdk::ReserveSigner { inner: inner.as_ref(), reserve: r };
            let out = par::guard(|| {
                let mut b = sdk::builder(sdk::ctx(), r#"{"title":"t"}"#);
                match sdk::sign(&mut b, &s, "image/png", &asset) {
                    Ok((bytes, _)) => match sdk::read(sdk::ctx(), "image/png", &bytes) {
                        Ok(rd) if sdk::state_name(rd.validation_state()) != "Invalid" => Ok(()),
                        Ok(rd) => Err((format!("signed but reads {:?}", rd.validation_state()), false)),
                        Err(e) => Err((format!("signed but read fails {e:?}"), false)),
                    },
                    Err(e) => Err((format!("{e:?}"), is_size_error(&e))),
                }
            });
            res.lock().unwrap().push((r, out));
        });
        let mut g = res.lock().unwrap();
        g.sort_by_key(|x| x.0);
        run.space(&format!("Builder::sign png ed25519 reserve in [{lo},{hi})"), g.len() as u64, true);
        let first_ok = g.iter().filter(|x| matches!(x.1, Ok(Ok(())))).map(|x| x.0).min();
        let Some(first_ok) = first_ok else { kit::ev::machinery("C14: Builder::sign never succeeds in window") };
        let mut gap: Option<(usize, String)> = None;
        for (r, out) in g.iter() {
            run.eval();
            match out {
                Err(p) => run.violation("builder-sign panic", format!("reserve {r}: {p}"), json!({"kind":"builder","reserve":r})),
                Ok(Ok(())) => {
                    run.outcome("builder-ok");
                    if *r >= first_ok { run.nontrivial(format!("b/{r}")); }
                    if let Some((s, e)) = gap.take() {
                        run.violation(format!("builder-sign gap first_ok+[{}..{}] alg=ed25519", s - first_ok, *r - 1 - first_ok),
                            format!("Builder::sign: reserve {first_ok} succeeds but reserves {s}..={} fail with {e}", r - 1),
                            json!({"kind":"builder","reserve":s}));
                    }
                }
                Ok(Err((e, size))) => {
                    run.outcome("builder-err");
                    if *r > first_ok {
                        run.nontrivial(format!("b/{r}"));
                        if *size { if gap.is_none() { gap = Some((*r, e.clone())); } }
                        else { run.violation(format!("builder-sign error {e}"), format!("reserve {r}: {e}"), json!({"kind":"builder","reserve":r})); }
                    }
                }
            }
        }
        if let Some((s, e)) = gap.take() {
            run.violation(format!("builder-sign gap first_ok+[{}..end] alg=ed25519", s - first_ok),
                format!("Builder::sign: reserve {first_ok} succeeds but reserves {s}.. fail with {e}"), json!({"kind":"builder","reserve":s}));
        }
        run.sample(json!({"flow":"Builder::sign","first_succeeding_reserve":first_ok}));
    }

    // ---- DataHash::pad_to_size -----------------------------------------------------------------
    for (shape, excl) in [("none", vec![]), ("one-small", vec![(20u64, 30u64)]), ("two-large", vec![(70_000u64, 70_000u64), (1u64 << 33, 5u64)])] {
        let mk = || {
            let mut dh = DataHash::new("jumbf manifest", "sha256");
            for (s, l) in &excl { dh.add_exclusion(HashRange::new(*s, *l)); }
            dh.set_hash(vec![7u8; 32]);
            dh
        };
        let base = size_of(&mk());
        // quadratic routine: every target up to +2000 (q) / +6000 (t) and +-40 around the 65536 boundary (t)
        let mut targets: Vec<usize> = (0..run.tier.pick(1200usize, 6000usize)).map(|d| base + d).collect();
        if run.tier.is_thorough() {
            targets.extend((65_536 - 60..65_536 + 60).map(|d| base + d));
        }
        run.space(&format!("pad_to_size shape={shape} base={base}"), targets.len() as u64, true);
        par::for_each(&targets, |t| {
            run.eval();
            let mut dh = mk();
            let r = par::guard(|| dh.pad_to_size(*t).map(|_| size_of(&dh)));
            match r {
                Err(p) => run.violation(format!("pad_to_size panic shape={shape}"), format!("target {t}: {p}"), json!({"kind":"datahash","shape":shape,"target":t})),
                Ok(Ok(n)) => { run.nontrivial(format!("dh/{shape}/{t}")); run.outcome("dh-ok"); if n != *t {
                    run.violation(format!("pad_to_size inexact shape={shape}"), format!("target {t} gave {n}"), json!({"kind":"datahash","shape":shape,"target":t})); } }
                Ok(Err(e)) => { run.outcome("dh-err");
                    run.violation(format!("pad_to_size fails shape={shape} delta={}", t - base), format!("target {t} (unpadded {base}) fails: {e:?}"), json!({"kind":"datahash","shape":shape,"target":t})); }
            }
        });
    }
}

fn size_of(dh: &DataHash) -> usize {
    use c2pa::verif_hooks::AssertionBase;
    dh.to_assertion().map(|a| c2pa::verif_hooks::assertion_data(&a).len()).unwrap_or(0)
}

fn report_gap(run: &Run, alg: &str, v2: bool, first_ok: usize, s: usize, e: usize, err: &str) {
    run.violation(
        format!("cose-pad gap first_ok+[{}..{}] alg={alg} v2={v2}", s - first_ok, e - first_ok),
        format!("reserve {first_ok} succeeds but every reserve in {s}..={e} fails with {err}"),
        json!({"kind":"cose","alg":alg,"v2":v2,"reserve":s, "first_ok": first_ok}),
    );
}

fn replay_case(run: &Run, c: &Value) {
    run.eval();
    match c["kind"].as_str() {
        Some("cose") => {
            let alg = c["alg"].as_str().unwrap_or("ed25519");
            let v2 = c["v2"].as_bool().unwrap_or(true);
            let r = c["reserve"].as_u64().unwrap_or(0) as usize;
            let res = cose_case(alg, v2, r);
            println!("replay cose alg={alg} v2={v2} reserve={r}: {res:?}");
            if let Some(f) = c["first_ok"].as_u64() {
                println!("  (reserve {f}: {:?})", cose_case(alg, v2, f as usize));
            }
            match res {
                Ok(Ok(n)) if n == r => {}
                other => run.violation("replay", format!("{other:?}"), c.clone()),
            }
        }
        _ => kit::ev::machinery("replay kind not supported; rerun the tier"),
    }
}

//! C36 — time-stamps are used only when they match the signature; an expired certificate is accepted only with a
//! matching, valid token inside its validity.
//! S-env: the kit signer answers `send_timestamp_request` from a menu (right token from the kit encoder, right token
//! from `openssl ts -reply`, token for another message, foreign TSA, genTime before notBefore / after notAfter)
//! x signing certificate {valid, short window, expired, not yet valid} x claim v1/v2; and the right token with EVERY
//! byte altered in turn (altered in place inside the signed asset: the token lives in the unprotected COSE header,
//! outside every hash and signature of the manifest).
//! Oracle, one-directional as the property: a signing time is reported => the token matches and its CMS signature
//! verifies. For altered bytes the token is invalid BY CONSTRUCTION when the byte lies in the TSTInfo, the signed
//! attributes, the signature, the signer id, the digest algorithm or the signer's public key; elsewhere (wrappers,
//! versions, digestAlgorithms set, other certificate bytes) OpenSSL's CMS_verify is consulted and disagreement is
//! only counted (OpenSSL may be stricter for reasons the property does not name).
//!
//! Mutants caught (tools/mutant_run.sh E <patch> C36 quick):
//!   mutants/C36-skip-imprint.diff     (message-imprint comparison skipped)
//!   mutants/C36-skip-cms-sig.diff     (CMS signature failure ignored)
//!   /tmp/seed-C36/OUT/patch.diff      (independently seeded: imprint not compared for unknown hash algorithms; caught by imprint-alg cases)

use std::sync::{Arc, Mutex};

use kit::{
    par,
    pki::{self, CertSpec, Hierarchy, KeyKind, KitSigner, Obs, TokenOpts, Tsa, DAY},
    Run,
};
use serde_json::{json, Value};

const WINDOWS: &[&str] = &["valid", "short", "expired", "future"];

#[derive(Clone, Copy, PartialEq, Eq, Debug)]
enum Tok {
    None,
    /// kit token, right imprint, genTime inside the certificate validity
    Right,
    /// openssl ts -reply for the SDK's own request (genTime = now)
    RightCli,
    OtherMessage,
    ForeignTsa,
    BeforeNb,
    AfterNa,
}
const TOKS: &[Tok] = &[Tok::None, Tok::Right, Tok::RightCli, Tok::OtherMessage, Tok::ForeignTsa, Tok::BeforeNb, Tok::AfterNa];
impl Tok {
    fn name(self) -> &'static str {
        match self {
            Tok::None => "none",
            Tok::Right => "right",
            Tok::RightCli => "right-cli-now",
            Tok::OtherMessage => "other-message",
            Tok::ForeignTsa => "foreign-tsa",
            Tok::BeforeNb => "before-notBefore",
            Tok::AfterNa => "after-notAfter",
        }
    }
    fn from(s: &str) -> Tok {
        TOKS.iter().copied().find(|t| t.name() == s).unwrap_or(Tok::None)
    }
}

struct Env {
    now: i64,
    tsa: Arc<Tsa>,
    foreign: Arc<Tsa>,
}

fn window(w: &str, now: i64) -> (i64, i64) {
    match w {
        "valid" => (pki::Y2020, pki::Y2040),
        "short" => (now - 20 * DAY, now + 20 * DAY),
        "expired" => (now - 30 * DAY, now - DAY),
        "future" => (now + DAY, now + 30 * DAY),
        other => kit::ev::machinery(format!("C36: unknown window {other}")),
    }
}

fn hierarchy(w: &str, now: i64) -> Hierarchy {
    let mut s = CertSpec::ee(&format!("c36 {w} signer"));
    (s.not_before, s.not_after) = window(w, now);
    Hierarchy::build("c36", 1, KeyKind::P256, s)
}

/// genTime for a token kind; None = combination not generated
fn gen_time(tok: Tok, w: &str, now: i64) -> Option<i64> {
    let (nb, na) = window(w, now);
    match tok {
        Tok::None => Some(now),
        Tok::RightCli => Some(now),
        Tok::Right | Tok::OtherMessage | Tok::ForeignTsa => match w {
            "valid" | "short" => Some(now - 3600),
            "expired" => Some(na - 9 * DAY),
            _ => None, // a token dated in the future is not a case the property describes
        },
        Tok::BeforeNb => {
            if w == "valid" {
                None
            } else {
                Some(nb - DAY)
            }
        }
        Tok::AfterNa => {
            if w == "expired" {
                Some(now - 3600)
            } else {
                None
            }
        }
    }
}

type Minted = Arc<Mutex<Vec<(Vec<u8>, Vec<u8>)>>>; // (reply, imprint of the SDK's message)

fn tsa_fn(env: &Env, tok: Tok, gt: i64, minted: &Minted) -> pki::TsaFn {
    let tsa = if tok == Tok::ForeignTsa { env.foreign.clone() } else { env.tsa.clone() };
    let minted = minted.clone();
    Arc::new(move |msg: &[u8]| {
        let imprint = pki::sha256(msg);
        let opts = TokenOpts { gen_time: gt, signing_time_attr: None, serial: pki::next_serial(), include_certs: true };
        let reply = match tok {
            Tok::RightCli => match tsa.cli_reply(&Tsa::query(&imprint)) {
                Ok(r) => r,
                Err(e) => return Some(Err(c2pa::Error::BadParam(format!("kit tsa cli: {e}")))),
            },
            Tok::OtherMessage => tsa.build_reply(&pki::sha256(b"some other message"), &opts),
            _ => tsa.build_reply(&imprint, &opts),
        };
        minted.lock().unwrap().push((reply.clone(), imprint));
        Some(Ok(reply))
    })
}

fn read_ctx(env: &Env, h: &Hierarchy) -> c2pa::Context {
    let anchors = format!("{}{}", env.tsa.root.pem(), h.root.as_ref().map(|r| r.pem()).unwrap_or_default());
    pki::read_ctx(json!({"trust_anchors": anchors}), json!({"verify_trust": true}))
}

struct Signed {
    h: Hierarchy,
    asset: Vec<u8>,
    /// reply handed to the SDK and the imprint of the SDK's message
    minted: Option<(Vec<u8>, Vec<u8>)>,
}

fn sign(env: &Env, w: &str, v2: bool, tok: Tok) -> Option<Signed> {
    let gt = gen_time(tok, w, env.now)?;
    let h = hierarchy(w, env.now);
    let minted: Minted = Arc::new(Mutex::new(vec![]));
    let mut s = KitSigner::for_hierarchy(&h).direct();
    s.v2 = v2;
    if tok != Tok::None {
        s = s.with_tsa(tsa_fn(env, tok, gt, &minted));
    }
    let asset = match pki::sign_asset(&s, "image/png", &kit::assets::png(), if v2 { pki::DEF_V2 } else { pki::DEF_V1 }) {
        Ok(a) => a,
        Err(e) => kit::ev::machinery(format!("C36: signing failed for window={w} v2={v2} tok={}: {e}", tok.name())),
    };
    let m = minted.lock().unwrap().last().cloned();
    if tok != Tok::None && m.is_none() {
        kit::ev::machinery("C36: the SDK never asked the signer for a time-stamp");
    }
    Some(Signed { h, asset, minted: m })
}

fn ts_fail_reported(o: &Obs) -> bool {
    o.codes.iter().any(|c| {
        let code = c.split(':').nth(1).unwrap_or("");
        code.starts_with("timeStamp.") && code != "timeStamp.validated" && code != "timeStamp.trusted"
    })
}

fn menu_case(run: &Run, env: &Env, w: &str, v2: bool, tok: Tok) {
    let Some(s) = sign(env, w, v2, tok) else { return };
    // preconditions on the kit's own tokens, by an independent judge
    if let Some((reply, imprint)) = &s.minted {
        let token = pki::token_of_reply(reply).unwrap_or_else(|| kit::ev::machinery("C36: reply without token"));
        let tsa = if tok == Tok::ForeignTsa { &env.foreign } else { &env.tsa };
        let gt = gen_time(tok, w, env.now).unwrap_or(env.now);
        let good = pki::ts_verify_cli(&token, imprint, &[&tsa.root], Some(gt));
        let expect_good = tok != Tok::OtherMessage;
        if good != expect_good {
            kit::ev::machinery(format!("C36: openssl ts -verify says {good} for kit token '{}' (expected {expect_good})", tok.name()));
        }
    }
    let o = pki::observe(read_ctx(env, &s.h), "image/png", &s.asset);
    run.eval();
    let id = format!("menu/{w}/v{}/{}", if v2 { 2 } else { 1 }, tok.name());
    run.nontrivial(id.clone());
    let case = json!({"kind":"menu","window":w,"v2":v2,"tok":tok.name()});
    let o = match o {
        Err(p) => {
            run.violation(format!("panic menu tok={} window={w}", tok.name()), p, case);
            return;
        }
        Ok(o) => o,
    };
    run.outcome(format!("{} window={w}: {}", tok.name(), o.class()));
    let tail = format!("tok={} window={w} claim=v{}", tok.name(), if v2 { 2 } else { 1 });
    let what = format!("{id}: state {} time {:?} codes {:?}", o.state, o.time, o.pick(&["signingCredential", "timeStamp"]));
    match tok {
        Tok::None => {
            if o.time.is_some() {
                run.violation(format!("signing-time-without-token {tail}"), what.clone(), case.clone());
            }
        }
        Tok::OtherMessage => {
            if o.time.is_some() {
                run.violation(format!("time-taken-from-mismatching-token {tail}"), what.clone(), case.clone());
            }
            if !ts_fail_reported(&o) {
                run.violation(format!("no-timestamp-failure-reported {tail}"), what.clone(), case.clone());
            }
        }
        Tok::Right | Tok::RightCli => {
            // not demanded by the (only-if) property, but without it the sweep below would be vacuous
            if w == "valid" && o.time.is_none() {
                kit::ev::machinery(format!("C36: a right, trusted token on a valid certificate is not used by the SDK ({what}); the check cannot establish its baseline"));
            }
        }
        _ => {}
    }
    // expired certificate: accepted only with a matching, valid token inside the validity period
    if w == "expired" && o.ok_state() {
        let allowed = tok == Tok::Right; // foreign TSA: whether an untrusted TSA's token is "valid" is left open
        if !allowed && tok != Tok::ForeignTsa {
            run.violation(format!("expired-certificate-accepted {tail} state={}", o.state), what, case);
        }
    }
}

// ---- message-imprint hash algorithm x {right message, other message} -------------------------------------
fn alg_case(run: &Run, env: &Env, w: &str, v2: bool, alg: (&str, &str), right: bool) {
    let (name, oid) = alg;
    if pki::hash_by_name(name, b"probe").is_none() {
        run.outcome(format!("imprint-alg {name}: not offered by this OpenSSL"));
        return;
    }
    let Some(gt) = gen_time(Tok::Right, w, env.now) else { return };
    let h = hierarchy(w, env.now);
    let minted: Minted = Arc::new(Mutex::new(vec![]));
    let (tsa, m2, name2, oid2) = (env.tsa.clone(), minted.clone(), name.to_string(), oid.to_string());
    let mut s = KitSigner::for_hierarchy(&h).direct();
    s.v2 = v2;
    s = s.with_tsa(Arc::new(move |msg: &[u8]| {
        let right_imprint = pki::hash_by_name(&name2, msg).unwrap_or_default();
        let used = if right { right_imprint.clone() } else { pki::hash_by_name(&name2, b"some other message").unwrap_or_default() };
        let reply = tsa.build_reply_alg(&oid2, &used, &TokenOpts { gen_time: gt, signing_time_attr: None, serial: pki::next_serial(), include_certs: true });
        m2.lock().unwrap().push((reply.clone(), right_imprint));
        Some(Ok(reply))
    }));
    let kind = if right { "right" } else { "other" };
    let asset = match pki::sign_asset(&s, "image/png", &kit::assets::png(), if v2 { pki::DEF_V2 } else { pki::DEF_V1 }) {
        Ok(a) => a,
        Err(e) => {
            // a signer-side refusal of an exotic algorithm is not a reader verdict
            run.eval();
            run.outcome(format!("imprint-alg {name} {kind}: sign-refused {}", e.split('(').next().unwrap_or("")));
            return;
        }
    };
    // by-construction preconditions, checked with OpenSSL: the CMS signature verifies, the imprint is (not) the right one
    let Some((reply, right_imprint)) = minted.lock().unwrap().last().cloned() else { kit::ev::machinery("C36: no time-stamp requested") };
    let token = pki::token_of_reply(&reply).unwrap_or_else(|| kit::ev::machinery("C36: reply without token"));
    let econtent = pki::cms_verify_inproc(&token).unwrap_or_else(|| kit::ev::machinery(format!("C36: CMS_verify rejects the kit token with imprint algorithm {name}")));
    if (pki::tst_imprint(&econtent).as_deref() == Some(&right_imprint[..])) != right {
        kit::ev::machinery(format!("C36: kit token imprint ({name}, {kind}) is not as constructed"));
    }
    let o = pki::observe(read_ctx(env, &h), "image/png", &asset);
    run.eval();
    let id = format!("imprint-alg/{name}/{kind}/{w}/v{}", if v2 { 2 } else { 1 });
    run.nontrivial(id.clone());
    let case = json!({"kind":"imprint-alg","alg":name,"right":right,"window":w,"v2":v2});
    let o = match o {
        Err(p) => {
            run.violation(format!("panic imprint-alg alg={name} {kind}"), p, case);
            return;
        }
        Ok(o) => o,
    };
    run.outcome(format!("imprint-alg {name} {kind} window={w}: {}", o.class()));
    let what = format!("{id}: state {} time {:?} codes {:?}", o.state, o.time, o.pick(&["signingCredential", "timeStamp"]));
    if !right {
        if o.time.is_some() || o.has("success", "timeStamp.validated") {
            run.violation(format!("time-taken-from-mismatching-token imprint-alg={name} window={w} claim=v{}", if v2 { 2 } else { 1 }), what.clone(), case.clone());
        }
        if w == "expired" && o.ok_state() {
            run.violation(format!("expired-certificate-accepted tok=other-message imprint-alg={name} claim=v{} state={}", if v2 { 2 } else { 1 }, o.state), what, case);
        }
    }
    // right message with an algorithm the SDK may not support: refusing it is allowed, nothing is demanded
}

// ---- every byte of the right token --------------------------------------------------------------------
struct SweepSeed {
    w: &'static str,
    v2: bool,
    tsa_kind: KeyKind,
    signed: Signed,
    /// offset of the stored token inside the asset, the stored bytes (token for v2, whole reply for v1)
    at: usize,
    stored: Vec<u8>,
    /// offset of the TimeStampToken inside `stored`
    token_off: usize,
    regions: Vec<(usize, usize, &'static str)>,
    base: Obs,
}

fn sweep_seed(env: &Env, w: &'static str, v2: bool, tsa_kind: KeyKind) -> SweepSeed {
    let s = sign(env, w, v2, Tok::Right).unwrap_or_else(|| kit::ev::machinery("C36: no sweep seed"));
    let (reply, imprint) = s.minted.clone().unwrap_or_else(|| kit::ev::machinery("C36: seed without token"));
    let token = pki::token_of_reply(&reply).unwrap_or_else(|| kit::ev::machinery("C36: seed reply without token"));
    let stored = if v2 { token.clone() } else { reply.clone() };
    let at = pki::find(&s.asset, &stored).unwrap_or_else(|| kit::ev::machinery(format!("C36: stored time-stamp not found in the signed asset (v2={v2})")));
    if pki::find(&s.asset[at + 1..], &stored).is_some() {
        kit::ev::machinery("C36: stored time-stamp occurs twice in the asset");
    }
    let token_off = pki::find(&stored, &token).unwrap_or(0);
    let regions = pki::token_regions(&token, &env.tsa.cert.der).unwrap_or_else(|| kit::ev::machinery("C36: cannot map the kit token"));
    if regions.len() != 6 {
        kit::ev::machinery(format!("C36: token map incomplete: {regions:?}"));
    }
    // the judge must accept the unaltered token
    let econtent = pki::cms_verify_inproc(&token).unwrap_or_else(|| kit::ev::machinery("C36: in-process CMS_verify rejects the unaltered kit token"));
    if pki::tst_imprint(&econtent).as_deref() != Some(&imprint[..]) {
        kit::ev::machinery("C36: kit parser does not find the imprint in the unaltered token");
    }
    let base = match pki::observe(read_ctx(env, &s.h), "image/png", &s.asset) {
        Ok(o) => o,
        Err(p) => kit::ev::machinery(format!("C36: seed read panics: {p}")),
    };
    let base2 = pki::observe(read_ctx(env, &s.h), "image/png", &s.asset);
    if base2.as_ref().ok() != Some(&base) {
        kit::ev::machinery("C36: seed read not deterministic");
    }
    if base.time.is_none() || !base.has("success", "timeStamp.validated") {
        kit::ev::machinery(format!("C36: sweep seed does not use its time-stamp: {}", base.class()));
    }
    SweepSeed { w, v2, tsa_kind, signed: s, at, stored, token_off, regions, base }
}

fn sweep_one(run: &Run, env: &Env, seed: &SweepSeed, off: usize, mask: u8, stats: &Mutex<Stats>) {
    let mut asset = seed.signed.asset.clone();
    asset[seed.at + off] ^= mask;
    let o = pki::observe(read_ctx(env, &seed.signed.h), "image/png", &asset);
    run.eval();
    let region = if off >= seed.token_off { pki::region_of(&seed.regions, off - seed.token_off) } else { None };
    let rname = region.map(|r| r.0).unwrap_or("open");
    let case = json!({"kind":"sweep","window":seed.w,"v2":seed.v2,"tsa":seed.tsa_kind.name(),"offset":off,"mask":mask,"region":rname,"rel":region.map(|r| r.1)});
    let tail = format!("region={rname} claim=v{}", if seed.v2 { 2 } else { 1 });
    let o = match o {
        Err(p) => {
            run.outcome("panic");
            run.violation(format!("panic sweep {tail}"), format!("offset {off}: {p}"), case);
            return;
        }
        Ok(o) => o,
    };
    let used = o.time.is_some();
    if std::env::var("VERIF_DEBUG").is_ok() {
        eprintln!("sweep {off}^{mask:02x} ({rname}): {o:?}");
        let mut st = seed.stored.clone();
        st[off] ^= mask;
        let mut log = c2pa::status_tracker::StatusTracker::default();
        let r = c2pa::crypto::time_stamp::verify_time_stamp(&st, b"x", &c2pa::crypto::cose::CertificateTrustPolicy::default(), &mut log, false);
        eprintln!("  direct verify_time_stamp: {:?}; logged {:?}", r.map(|_| ()), log.logged_items().iter().map(|i| (i.validation_status.clone(), i.description.clone())).collect::<Vec<_>>());
    }
    run.outcome(format!("sweep {rname}: {} used={used}", o.state));
    let what = format!("window={} tsa={}: byte {off} of the stored time-stamp ({rname}) xor {mask:02x}: state {} time {:?} codes {:?}", seed.w, seed.tsa_kind.name(), o.state, o.time, o.pick(&["signingCredential", "timeStamp"]));
    if region.is_some() {
        run.nontrivial(format!("{}/{}/{off}/{mask}", seed.w, seed.v2));
        // invalid by construction
        if used {
            run.violation(format!("time-taken-from-altered-token {tail}"), what.clone(), case.clone());
        }
        if !ts_fail_reported(&o) && !o.state.starts_with("Err") {
            run.violation(format!("no-timestamp-failure-reported-for-altered-token {tail}"), what.clone(), case.clone());
        }
        if seed.w == "expired" && o.ok_state() {
            run.violation(format!("expired-certificate-accepted-with-altered-token {tail} state={}", o.state), what, case);
        }
    } else {
        // open region: consult OpenSSL, count only
        let mut stored = seed.stored.clone();
        stored[off] ^= mask;
        let token = if seed.v2 { Some(stored) } else { pki::token_of_reply(&stored) };
        let imprint = &seed.signed.minted.as_ref().map(|m| m.1.clone()).unwrap_or_default();
        let judge = token.as_deref().and_then(pki::cms_verify_inproc).and_then(|e| pki::tst_imprint(&e)).is_some_and(|i| &i == imprint);
        let mut g = stats.lock().unwrap();
        match (used, judge) {
            (true, true) => g.used_ok += 1,
            (true, false) => {
                g.used_rejected += 1;
                if g.used_rejected_offsets.len() < 40 {
                    g.used_rejected_offsets.push(json!({"offset":off,"mask":mask,"v2":seed.v2,"window":seed.w}));
                }
            }
            (false, true) => g.unused_ok += 1,
            (false, false) => g.unused_rejected += 1,
        }
        // unchanged verdict is not demanded either way; only a gross inconsistency with the seed is noted
        if used && o.time != seed.base.time {
            g.time_changed += 1;
        }
    }
}

#[derive(Default)]
struct Stats {
    used_ok: u64,
    used_rejected: u64,
    unused_ok: u64,
    unused_rejected: u64,
    time_changed: u64,
    used_rejected_offsets: Vec<Value>,
}

pub fn run(run: &Run, replay: Option<&Value>) {
    run.rule("menu: signing certificate {valid 2020-2040, +-20 days, expired yesterday, valid from tomorrow} x claim {v2, v1} x token {none, right (kit encoder, genTime inside validity), right (openssl ts -reply, now), \
              other message, foreign TSA, genTime before notBefore, genTime after notAfter}; sweep: the right token stored in the asset with EVERY byte xor-ed in turn (quick 0x01; thorough 0x01, 0x80, 0xFF) for \
              {valid, expired} certificates and claim v2 (+ v1). non-trivial = menu cases, and sweep cases whose altered byte lies in a region that invalidates the token by construction.");
    run.assume("kit tokens are checked by `openssl ts -verify` (menu) / in-process CMS_verify (sweep seeds) before they are used as ground truth; a disagreement is a machinery failure");
    run.assume("a token signed by a TSA whose root is not anchored is recorded but not judged (the property names imprint and CMS signature only)");
    run.assume("altered bytes outside TSTInfo / signed attributes / signature / signer id / digest algorithm / signer public key are judged by OpenSSL's CMS_verify and only counted (coverage.open_region_*)");
    if !pki::cli_available() {
        kit::ev::machinery("C36: openssl CLI not available");
    }
    let now = pki::now();
    let mk_env = |kind: KeyKind| Env { now, tsa: Arc::new(Tsa::new("c36", kind, |_| {})), foreign: Arc::new(Tsa::new("c36-foreign", kind, |_| {})) };
    let env = mk_env(KeyKind::P256);

    if let Some(c) = replay {
        let w = WINDOWS.iter().find(|x| Some(**x) == c["window"].as_str()).copied().unwrap_or("valid");
        let v2 = c["v2"].as_bool().unwrap_or(true);
        if c["kind"] == "menu" {
            menu_case(run, &env, w, v2, Tok::from(c["tok"].as_str().unwrap_or("none")));
        } else if c["kind"] == "imprint-alg" {
            let name = c["alg"].as_str().unwrap_or("sha256");
            let alg = pki::IMPRINT_ALGS.iter().find(|a| a.0 == name).copied().unwrap_or(pki::IMPRINT_ALGS[2]);
            alg_case(run, &env, w, v2, alg, c["right"].as_bool().unwrap_or(false));
        } else {
            let kind = KeyKind::from_name(c["tsa"].as_str().unwrap_or("p256"));
            let env = mk_env(kind);
            let seed = sweep_seed(&env, w, v2, kind);
            // offsets move by a byte or two between runs (ECDSA signature length); regions are stable
            let off = match (c["region"].as_str(), c["rel"].as_u64()) {
                (Some(r), Some(rel)) if r != "open" => seed.regions.iter().find(|x| x.2 == r).map(|x| x.0 + seed.token_off + rel as usize),
                _ => c["offset"].as_u64().map(|x| x as usize),
            }
            .unwrap_or(0)
            .min(seed.stored.len() - 1);
            let stats = Mutex::new(Stats::default());
            println!("replay sweep: stored time-stamp {} bytes at asset offset {}, regions {:?}, altering byte {off}", seed.stored.len(), seed.at, seed.regions);
            sweep_one(run, &env, &seed, off, c["mask"].as_u64().unwrap_or(1) as u8, &stats);
        }
        return;
    }

    // ---- menu
    let mut menu: Vec<(&str, bool, Tok)> = vec![];
    for w in WINDOWS {
        for v2 in [true, false] {
            for &t in TOKS {
                if gen_time(t, w, now).is_some() {
                    menu.push((w, v2, t));
                }
            }
        }
    }
    run.space("menu: (certificate window, claim version, token kind)", menu.len() as u64, true);
    par::for_each(&menu, |(w, v2, t)| menu_case(run, &env, w, *v2, *t));
    run.sample(json!({"menu_case": {"window":"expired","v2":true,"tok":"other-message"}}));

    // ---- imprint algorithm x right / other message
    let mut algs: Vec<(&str, bool, (&str, &str), bool)> = vec![];
    for w in ["valid", "expired"] {
        for v2 in [true, false] {
            for a in pki::IMPRINT_ALGS {
                for right in [true, false] {
                    algs.push((w, v2, *a, right));
                }
            }
        }
    }
    run.space("imprint algorithm {sha1, sha224, sha256, sha384, sha512, sha512-256, sha3-256} x {right, other message} x {valid, expired} x claim {v2, v1}", algs.len() as u64, true);
    par::for_each(&algs, |(w, v2, a, right)| alg_case(run, &env, w, *v2, *a, *right));

    // ---- sweeps
    let masks: &[u8] = run.tier.pick(&[0x01u8][..], &[0x01u8, 0x80, 0xFF][..]);
    let mut seeds: Vec<(&'static str, bool, KeyKind)> = vec![("valid", true, KeyKind::P256), ("expired", true, KeyKind::P256), ("valid", false, KeyKind::P256)];
    if run.tier.is_thorough() {
        seeds.push(("expired", false, KeyKind::P256));
        seeds.push(("valid", true, KeyKind::Rsa2048));
        seeds.push(("expired", true, KeyKind::Rsa2048));
    }
    let stats = Mutex::new(Stats::default());
    for (w, v2, kind) in seeds {
        let e2;
        let envk = if kind == KeyKind::P256 {
            &env
        } else {
            e2 = mk_env(kind);
            &e2
        };
        let seed = sweep_seed(envk, w, v2, kind);
        let n = seed.stored.len();
        run.space(&format!("sweep window={w} claim=v{} tsa={}: every byte of the {n}-byte stored time-stamp x {} mask(s)", if v2 { 2 } else { 1 }, kind.name(), masks.len()), (n * masks.len()) as u64, true);
        run.sample(json!({"sweep_seed": {"window": w, "v2": v2, "tsa": kind.name(), "stored_bytes": n, "invalid_by_construction_regions": seed.regions.iter().map(|r| json!([r.2, r.0, r.1])).collect::<Vec<_>>(), "seed_observation": seed.base.class()}}));
        let work: Vec<(usize, u8)> = (0..n).flat_map(|o| masks.iter().map(move |m| (o, *m))).collect();
        par::for_each(&work, |(off, mask)| sweep_one(run, envk, &seed, *off, *mask, &stats));
    }
    let g = stats.lock().unwrap();
    run.extra("open_region_used_and_openssl_accepts", json!(g.used_ok));
    run.extra("open_region_used_but_openssl_rejects", json!(g.used_rejected));
    run.extra("open_region_unused_though_openssl_accepts", json!(g.unused_ok));
    run.extra("open_region_unused_and_openssl_rejects", json!(g.unused_rejected));
    run.extra("open_region_used_but_openssl_rejects_examples", json!(g.used_rejected_offsets));
}

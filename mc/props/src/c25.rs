//! C25 — settings updates follow JSON-merge semantics and fail atomically.
//!
//! S-seq: breadth-first search over operation sequences on the REAL `c2pa::Settings`.
//! state   = canonical JSON of the settings object (`serde_json::to_value`, keys sorted)
//! ops     = for every leaf path harvested at run time from `serde_json::to_value(Settings::default())` and every value of a
//!           per-type value set (valid alternatives, wrong types, null, unknown nested object): the overlay document
//!           {path: value} through with_json / with_toml / update_from_str(json) / update_from_str(toml) and the path update
//!           through with_value / set_value; plus multi-leaf, unknown-key, section-null, signer, non-object, empty and
//!           syntactically broken documents, unsupported formats and odd paths.
//! bound   = depth 2 over the full alphabet from the default settings (every op from every state reached by one op),
//!           thorough: depth 3 over a 20-leaf core alphabet from every depth-2 state.
//! oracle  = success ⇒ the new state equals the reference (recursive JSON merge / path replacement on the state JSON;
//!           null ≡ absent, keys named zz_unknown* may be dropped) and every leaf of the document reads back through
//!           get_value; failure ⇒ the settings object is unchanged; every variant (JSON/TOML/path, functional/in-place) of
//!           one logical update that succeeds gives the same state, and JSON and TOML renderings agree on success.
//! stateright runs the same model (same op table, real Settings) and must find the same number of distinct states.
//!
//! Mutants caught (quick tier, patched scratch worktree, /verif/target-mut-C):
//!   /verif/mutants/C25-merge-replaces-depth1.diff     merge_json replaces instead of merging below the top level
//!       -> "merge-not-yielded :: leaf builder.… ok=[with_value,set_value] failed=[with_json,update_from_str(json),with_toml,update_from_str(toml)]"
//!   /verif/mutants/C25-set-value-validates-late.diff  set_value assigns the new settings before validating them
//!       -> "not-atomic set_value :: leaf …"

use c2pa::Settings;
use kit::{ev, par, Run};
use serde_json::{json, Map, Value};
use stateright::{Checker, Model, Property};
use std::{
    collections::{BTreeMap, HashMap},
    sync::{
        atomic::{AtomicU64, Ordering},
        Arc, Mutex,
    },
};

// ---- JSON helpers (the reference side; never calls the SDK) ---------------------------------------------

fn canon(v: &Value) -> Value {
    match v {
        Value::Object(m) => {
            let mut keys: Vec<&String> = m.keys().collect();
            keys.sort();
            let mut o = Map::new();
            for k in keys {
                o.insert(k.clone(), canon(&m[k]));
            }
            Value::Object(o)
        }
        Value::Array(a) => Value::Array(a.iter().map(canon).collect()),
        other => other.clone(),
    }
}

/// Recursive merge: objects merge key by key, everything else replaces.
fn ref_merge(target: &mut Value, overlay: &Value) {
    match (target, overlay) {
        (Value::Object(t), Value::Object(o)) => {
            for (k, ov) in o {
                match t.get_mut(k) {
                    Some(tv) => ref_merge(tv, ov),
                    None => {
                        t.insert(k.clone(), ov.clone());
                    }
                }
            }
        }
        (t, o) => *t = o.clone(),
    }
}

/// Path replacement: intermediate non-objects become objects, the last segment is replaced.
fn ref_set(target: &mut Value, path: &str, value: &Value) {
    let segs: Vec<&str> = path.split('.').collect();
    let mut cur = target;
    for (i, s) in segs.iter().enumerate() {
        if !cur.is_object() {
            *cur = Value::Object(Map::new());
        }
        let m = cur.as_object_mut().unwrap();
        if i + 1 == segs.len() {
            m.insert(s.to_string(), value.clone());
            return;
        }
        cur = m.entry(s.to_string()).or_insert_with(|| Value::Object(Map::new()));
    }
}

fn ref_get<'a>(v: &'a Value, path: &str) -> Option<&'a Value> {
    let mut cur = v;
    for s in path.split('.') {
        cur = cur.as_object()?.get(s)?;
    }
    Some(cur)
}

/// Equivalence of an expected document and the state the SDK reports: null ≡ absent, unknown keys may vanish,
/// numbers compare numerically. Returns the first differing path.
fn eqv(expected: &Value, actual: &Value, path: &str) -> Result<(), String> {
    match (expected, actual) {
        (Value::Object(e), Value::Object(a)) => {
            let mut keys: Vec<&String> = e.keys().chain(a.keys()).collect();
            keys.sort();
            keys.dedup();
            for k in keys {
                if unknown_key(k) {
                    continue;
                }
                let ev = e.get(k).unwrap_or(&Value::Null);
                let av = a.get(k).unwrap_or(&Value::Null);
                eqv(ev, av, &if path.is_empty() { k.clone() } else { format!("{path}.{k}") })?;
            }
            Ok(())
        }
        // an object that only holds unknown keys / nulls is equivalent to nothing at all
        (Value::Object(e), Value::Null) if e.iter().all(|(k, v)| unknown_key(k) || v.is_null()) => Ok(()),
        // enum spellings are case-normalised by the SDK (documented case-insensitive parsing; SigningAlg reads "es256" and writes "Es256")
        (Value::String(x), Value::String(y)) if x.eq_ignore_ascii_case(y) => Ok(()),
        (Value::Number(x), Value::Number(y)) => {
            if x == y || (x.as_f64() == y.as_f64() && x.as_f64().is_some()) {
                Ok(())
            } else {
                Err(format!("{path}: expected {x}, found {y}"))
            }
        }
        (Value::Array(x), Value::Array(y)) => {
            if x.len() != y.len() {
                return Err(format!("{path}: expected {} elements, found {}", x.len(), y.len()));
            }
            for (i, (a, b)) in x.iter().zip(y.iter()).enumerate() {
                eqv(a, b, &format!("{path}[{i}]"))?;
            }
            Ok(())
        }
        (e, a) if e == a => Ok(()),
        (e, a) => Err(format!("{path}: expected {}, found {}", short(e), short(a))),
    }
}

/// Keys that are not part of the settings schema: the harness' own zz_unknown* names and the empty key odd paths produce.
fn unknown_key(k: &str) -> bool {
    k.is_empty() || k.starts_with("zz_unknown")
}

fn short(v: &Value) -> String {
    let s = v.to_string();
    if s.len() > 60 {
        format!("{}…", &s[..57])
    } else {
        s
    }
}

fn nest(path: &str, v: Value) -> Value {
    let mut out = v;
    for s in path.rsplit('.') {
        let mut m = Map::new();
        m.insert(s.to_string(), out);
        out = Value::Object(m);
    }
    out
}

fn leaves(v: &Value, path: &str, out: &mut Vec<(String, Value)>) {
    match v {
        Value::Object(m) if !m.is_empty() => {
            for (k, c) in m {
                leaves(c, &if path.is_empty() { k.clone() } else { format!("{path}.{k}") }, out);
            }
        }
        other => out.push((path.to_string(), other.clone())),
    }
}

// ---- TOML rendering of a JSON document (independent of the `toml` crate) --------------------------------

fn toml_key(k: &str) -> String {
    if !k.is_empty() && k.chars().all(|c| c.is_ascii_alphanumeric() || c == '_' || c == '-') {
        k.to_string()
    } else {
        toml_str(k)
    }
}

fn toml_str(s: &str) -> String {
    let mut o = String::from("\"");
    for c in s.chars() {
        match c {
            '"' => o.push_str("\\\""),
            '\\' => o.push_str("\\\\"),
            '\n' => o.push_str("\\n"),
            '\r' => o.push_str("\\r"),
            '\t' => o.push_str("\\t"),
            c if (c as u32) < 0x20 || c as u32 == 0x7f => o.push_str(&format!("\\u{:04X}", c as u32)),
            c => o.push(c),
        }
    }
    o.push('"');
    o
}

fn toml_inline(v: &Value) -> Option<String> {
    Some(match v {
        Value::Null => return None,
        Value::Bool(b) => b.to_string(),
        Value::Number(n) => {
            if let Some(i) = n.as_i64() {
                i.to_string()
            } else if n.is_u64() {
                return None; // beyond i64: no TOML integer
            } else {
                let f = n.as_f64()?;
                let s = format!("{f:?}");
                if s.contains('.') || s.contains('e') { s } else { format!("{s}.0") }
            }
        }
        Value::String(s) => toml_str(s),
        Value::Array(a) => format!("[{}]", a.iter().map(toml_inline).collect::<Option<Vec<_>>>()?.join(", ")),
        Value::Object(m) => format!("{{ {} }}", m.iter().map(|(k, v)| toml_inline(v).map(|s| format!("{} = {s}", toml_key(k)))).collect::<Option<Vec<_>>>()?.join(", ")),
    })
}

/// None when the document has no TOML rendering (null somewhere, non-table root, integer beyond i64).
fn to_toml(doc: &Value) -> Option<String> {
    fn table(m: &Map<String, Value>, path: &[String], out: &mut String) -> Option<()> {
        for (k, v) in m {
            if !v.is_object() {
                out.push_str(&format!("{} = {}\n", toml_key(k), toml_inline(v)?));
            }
        }
        for (k, v) in m {
            if let Value::Object(sub) = v {
                let mut p = path.to_vec();
                p.push(toml_key(k));
                out.push_str(&format!("[{}]\n", p.join(".")));
                table(sub, &p, out)?;
            }
        }
        Some(())
    }
    let m = doc.as_object()?;
    let mut out = String::new();
    table(m, &[], &mut out)?;
    Some(out)
}

// ---- operations ------------------------------------------------------------------------------------------

#[derive(Clone, Copy, PartialEq, Eq, Debug, Hash)]
enum Variant {
    WithJson,
    WithToml,
    UpdateJson,
    UpdateToml,
    WithValue,
    SetValue,
}
const VARIANTS: [Variant; 6] = [Variant::WithJson, Variant::WithToml, Variant::UpdateJson, Variant::UpdateToml, Variant::WithValue, Variant::SetValue];

impl Variant {
    fn name(self) -> &'static str {
        match self {
            Variant::WithJson => "with_json",
            Variant::WithToml => "with_toml",
            Variant::UpdateJson => "update_from_str(json)",
            Variant::UpdateToml => "update_from_str(toml)",
            Variant::WithValue => "with_value",
            Variant::SetValue => "set_value",
        }
    }
    fn in_place(self) -> bool {
        matches!(self, Variant::UpdateJson | Variant::UpdateToml | Variant::SetValue)
    }
}

#[derive(Clone, Debug)]
struct Op {
    id: String,
    /// overlay document (JSON text is `doc.to_string()`, TOML text is `toml`)
    doc: Option<Value>,
    toml: Option<String>,
    /// path update
    path: Option<(String, Value)>,
    /// raw text for documents that are not JSON values: (text, format)
    raw: Option<(String, String)>,
    core: bool,
}

impl Op {
    fn variants(&self) -> Vec<Variant> {
        let mut v = vec![];
        if self.raw.is_some() {
            return vec![Variant::WithJson, Variant::UpdateJson]; // the raw text carries its own format
        }
        if self.doc.is_some() {
            v.push(Variant::WithJson);
            v.push(Variant::UpdateJson);
            if self.toml.is_some() {
                v.push(Variant::WithToml);
                v.push(Variant::UpdateToml);
            }
        }
        if self.path.is_some() {
            v.push(Variant::WithValue);
            v.push(Variant::SetValue);
        }
        v
    }
}

/// Execute one variant on a clone of `s`. Returns (result state or error text, the receiver after the call).
fn exec(s: &Settings, op: &Op, var: Variant) -> Result<(Result<Settings, String>, Settings), String> {
    par::guard(|| {
        let mut recv = s.clone();
        let e = |e: c2pa::Error| format!("{e:?}").chars().take(160).collect::<String>();
        let r: Result<Settings, String> = if let Some((text, fmt)) = &op.raw {
            match var {
                Variant::WithJson => match fmt.as_str() {
                    "json" => recv.with_json(text).map_err(e),
                    "toml" => recv.with_toml(text).map_err(e),
                    _ => {
                        let mut c = recv.clone();
                        c.update_from_str(text, fmt).map(|_| c).map_err(e)
                    }
                },
                _ => recv.update_from_str(text, fmt).map(|_| recv.clone()).map_err(e),
            }
        } else {
            match var {
                Variant::WithJson => recv.with_json(&op.doc.as_ref().unwrap().to_string()).map_err(e),
                Variant::WithToml => recv.with_toml(op.toml.as_ref().unwrap()).map_err(e),
                Variant::UpdateJson => recv.update_from_str(&op.doc.as_ref().unwrap().to_string(), "json").map(|_| recv.clone()).map_err(e),
                Variant::UpdateToml => recv.update_from_str(op.toml.as_ref().unwrap(), "toml").map(|_| recv.clone()).map_err(e),
                Variant::WithValue => {
                    let (p, v) = op.path.as_ref().unwrap();
                    recv.with_value(p, v.clone()).map_err(e)
                }
                Variant::SetValue => {
                    let (p, v) = op.path.as_ref().unwrap();
                    recv.set_value(p, v.clone()).map(|_| recv.clone()).map_err(e)
                }
            }
        };
        (r, recv)
    })
}

fn state_json(s: &Settings) -> Value {
    canon(&serde_json::to_value(s).unwrap_or_else(|e| ev::machinery(format!("C25: settings do not serialise: {e}"))))
}

fn pem() -> String {
    String::from_utf8_lossy(&kit::sdk::fixture("certs/es256.pub")).to_string()
}

const CORE_LEAVES: [&str; 20] = [
    "version", "verify.verify_trust", "verify.verify_after_sign", "verify.ocsp_fetch", "verify.remote_manifest_fetch", "core.merkle_tree_max_proofs",
    "core.merkle_tree_chunk_size_in_kb", "core.prefer_compress_manifests", "core.max_decompressed_manifest_size_in_mb", "core.allowed_network_hosts",
    "trust.trust_anchors", "trust.user_anchors", "cawg_trust.verify_trust_list", "cawg_trust.trusted_ica_issuers", "builder.vendor", "builder.thumbnail.enabled",
    "builder.thumbnail.quality", "builder.thumbnail.long_edge", "builder.intent", "builder.actions.auto_created_action.enabled",
];

fn build_ops(default_json: &Value) -> Vec<Op> {
    let mut lv = vec![];
    leaves(default_json, "", &mut lv);
    lv.sort_by(|a, b| a.0.cmp(&b.0));
    // string dictionary: every string in the default document + a few lower-case words enums are likely to know
    let mut words: Vec<String> = lv.iter().filter_map(|(_, v)| v.as_str().map(|s| s.to_string())).collect();
    for w in ["low", "high", "active", "parent", "png", "jpeg", "edit", "sha384", "zz-other"] {
        words.push(w.to_string());
    }
    words.sort();
    words.dedup();
    let pem = pem();
    let mut ops: Vec<Op> = vec![];
    let mut push_leaf = |path: &str, v: Value, tag: &str| {
        let doc = nest(path, v.clone());
        ops.push(Op {
            id: format!("leaf {path} := {tag}"),
            toml: to_toml(&doc),
            doc: Some(doc),
            path: Some((path.to_string(), v)),
            raw: None,
            core: CORE_LEAVES.contains(&path),
        });
    };
    for (path, cur) in &lv {
        let mut vals: Vec<(Value, String)> = vec![];
        match cur {
            Value::Bool(b) => {
                vals.push((json!(!b), format!("{}", !b)));
                vals.push((json!(*b), format!("{b}")));
                vals.push((json!("zz-notabool"), "wrong-type-string".into()));
                vals.push((json!(1), "wrong-type-number".into()));
            }
            Value::Number(n) => {
                let x = n.as_u64().unwrap_or(0);
                vals.push((json!(x + 1), "n+1".into()));
                vals.push((json!(0), "0".into()));
                vals.push((json!(5000), "5000".into()));
                vals.push((json!(-1), "-1".into()));
                vals.push((json!("zz-nan"), "wrong-type-string".into()));
                vals.push((json!(1.5), "1.5".into()));
            }
            Value::String(_) => {
                for w in &words {
                    vals.push((json!(w), format!("\"{w}\"")));
                }
                vals.push((json!(17), "wrong-type-number".into()));
            }
            Value::Null => {
                vals.push((json!(true), "true".into()));
                vals.push((json!(7), "7".into()));
                vals.push((json!("zz-other"), "\"zz-other\"".into()));
                vals.push((json!(pem), "PEM".into()));
                vals.push((json!(["zz-other"]), "[\"zz-other\"]".into()));
                vals.push((json!(["*.example.com", "https://example.org:443"]), "[host patterns]".into()));
                vals.push((json!("edit"), "\"edit\"".into()));
                vals.push((json!("all"), "\"all\"".into()));
                vals.push((json!({"create": "http://cv.iptc.org/newscodes/digitalsourcetype/digitalCapture"}), "{create}".into()));
                vals.push((json!({"name": "zz-gen", "version": "1.2"}), "{name,version}".into()));
            }
            Value::Array(_) => {
                vals.push((json!([]), "[]".into()));
                vals.push((json!(["zz-other"]), "[\"zz-other\"]".into()));
                vals.push((json!("zz-notalist"), "wrong-type-string".into()));
            }
            Value::Object(_) => {
                vals.push((json!({}), "{}".into()));
            }
        }
        vals.push((Value::Null, "null".into()));
        vals.push((json!({"zz_unknown_nested": 1}), "{zz_unknown_nested}".into()));
        for (v, tag) in vals {
            push_leaf(path, v, &tag);
        }
    }
    // documents that are not single leaves
    let mut push_doc = |id: &str, doc: Value, core: bool| {
        ops.push(Op { id: format!("doc {id}"), toml: to_toml(&doc), doc: Some(doc), path: None, raw: None, core });
    };
    push_doc("{}", json!({}), true);
    push_doc("two sections", json!({"verify": {"verify_trust": false, "ocsp_fetch": true}, "core": {"merkle_tree_max_proofs": 9}}), true);
    push_doc("nested three levels", json!({"builder": {"thumbnail": {"enabled": false, "long_edge": 64}, "actions": {"auto_created_action": {"enabled": false}}}}), true);
    push_doc("unknown top-level key", json!({"zz_unknown_top": {"a": 1}}), true);
    push_doc("unknown key beside a known one", json!({"verify": {"zz_unknown_k": true, "strict_v1_validation": true}}), true);
    push_doc("valid + invalid leaf", json!({"verify": {"verify_trust": false}, "core": {"merkle_tree_max_proofs": "zz-bad"}}), true);
    push_doc("valid + failing validation", json!({"verify": {"verify_trust": false}, "version": 99}), true);
    push_doc("section := null", json!({"verify": null}), false);
    push_doc("section := scalar", json!({"core": 5}), false);
    push_doc("section := array", json!({"builder": []}), false);
    push_doc("signer := null", json!({"signer": null}), false);
    push_doc("signer local", json!({"signer": {"local": {"alg": "es256", "sign_cert": pem, "private_key": "zz-not-a-key", "tsa_url": null}}}), false);
    push_doc("signer remote", json!({"signer": {"remote": {"url": "http://localhost:1/sign", "alg": "ps256", "sign_cert": pem}}}), false);
    push_doc("claim_generator_info with extra field", json!({"builder": {"claim_generator_info": {"name": "zz-gen", "zz_unknown_extra": [1, 2]}}}), false);
    push_doc("root := number", json!(5), false);
    push_doc("root := array", json!([1]), false);
    push_doc("root := null", Value::Null, false);
    push_doc("root := string", json!("verify"), false);
    for (id, text, fmt) in [
        ("broken json", "{\"verify\": ", "json"),
        ("empty json", "", "json"),
        ("broken toml", "verify = = 1", "toml"),
        ("empty toml", "", "toml"),
        ("toml duplicate key", "[verify]\nocsp_fetch = true\nocsp_fetch = false\n", "toml"),
        ("unsupported format", "{}", "yaml"),
        ("format name in capitals", "{\"verify\":{\"ocsp_fetch\":true}}", "JSON"),
    ] {
        ops.push(Op { id: format!("raw {id}"), doc: None, toml: None, path: None, raw: Some((text.to_string(), fmt.to_string())), core: id == "broken json" });
    }
    for (p, v) in [
        ("", json!(1)),
        ("zz_unknown_top.k", json!(1)),
        ("verify.", json!(true)),
        (".verify", json!(true)),
        ("verify.verify_trust.zz_unknown_below_leaf", json!(true)),
        ("builder.thumbnail", json!({"enabled": false, "ignore_errors": true, "long_edge": 8, "prefer_smallest_format": true, "quality": "low"})),
        ("verify", json!({"verify_trust": false})),
    ] {
        ops.push(Op { id: format!("path {p:?} := {}", short(&v)), doc: None, toml: None, path: Some((p.to_string(), v)), raw: None, core: false });
    }
    ops
}

// ---- judging one (state, op): every variant ---------------------------------------------------------------

struct Judged {
    /// successor (canonical json text, object) if the logical op succeeded in at least one variant
    next: Vec<(String, Settings)>,
    outcomes: Vec<&'static str>,
    execs: u64,
}

fn judge(run: &Run, trace: &[String], s: &Settings, sj: &Value, op: &Op, verbose: bool) -> Judged {
    let mut out = Judged { next: vec![], outcomes: vec![], execs: 0 };
    let pre_text = sj.to_string();
    let mut results: Vec<(Variant, Result<String, String>)> = vec![];
    let case = |var: Variant| {
        let mut t: Vec<Value> = trace.iter().map(|x| json!(x)).collect();
        t.push(json!(format!("{} :: {}", var.name(), op.id)));
        json!({"trace": t})
    };
    let kind = op.id.split(" := ").next().unwrap_or(&op.id).to_string();
    for var in op.variants() {
        out.execs += 1;
        let (res, recv) = match exec(s, op, var) {
            Ok(x) => x,
            Err(p) => {
                run.violation(format!("panic {} :: {}", var.name(), op.id), p, case(var));
                continue;
            }
        };
        let recv_json = state_json(&recv);
        if verbose {
            println!("  {} -> {}", var.name(), match &res { Ok(_) => "Ok".to_string(), Err(e) => format!("Err({e})") });
        }
        match res {
            Err(e) => {
                out.outcomes.push("failure");
                // failure ⇒ unchanged
                if recv_json != *sj {
                    let d = eqv(sj, &recv_json, "").err().unwrap_or_else(|| "differs only in null/unknown keys".into());
                    run.violation(format!("not-atomic {} :: {kind}", var.name()), format!("{} failed ({e}) but the settings changed: {d}", op.id), case(var));
                }
                results.push((var, Err(e)));
            }
            Ok(t) => {
                out.outcomes.push("success");
                let tj = state_json(&t);
                // functional variants must not touch the receiver; in-place variants must hold the result
                if var.in_place() {
                    if recv_json != tj {
                        run.violation(format!("in-place-result-differs {} :: {kind}", var.name()), format!("{}: receiver and returned state differ", op.id), case(var));
                    }
                } else if recv_json != *sj {
                    run.violation(format!("functional-op-mutated-receiver {} :: {kind}", var.name()), format!("{}: the receiver of a with_* call changed", op.id), case(var));
                }
                // reference
                let mut expected = sj.clone();
                let is_path = matches!(var, Variant::WithValue | Variant::SetValue);
                if is_path {
                    let (p, v) = op.path.as_ref().unwrap();
                    ref_set(&mut expected, p, v);
                } else if let Some(doc) = &op.doc {
                    ref_merge(&mut expected, doc);
                } else if let Some((text, _)) = &op.raw {
                    // raw texts that parse are either empty TOML or the JSON given verbatim
                    if let Ok(doc) = serde_json::from_str::<Value>(text) {
                        ref_merge(&mut expected, &doc);
                    }
                }
                if let Err(d) = eqv(&expected, &tj, "") {
                    let what = if is_path { "path-set" } else { "merge" };
                    run.violation(
                        format!("{what}-semantics {} :: {kind} at={}", var.name(), d.split(':').next().unwrap_or("")),
                        format!("{} succeeded but the state is not the reference {what}: {d}", op.id),
                        case(var),
                    );
                }
                // every leaf of the document reads back
                let mut doc_leaves = vec![];
                if is_path {
                    let (p, v) = op.path.as_ref().unwrap();
                    leaves(v, p, &mut doc_leaves);
                } else if let Some(doc) = &op.doc {
                    if doc.is_object() {
                        leaves(doc, "", &mut doc_leaves);
                    }
                }
                for (p, v) in doc_leaves {
                    if p.is_empty() || p.split('.').any(|seg| seg.starts_with("zz_unknown") || seg.is_empty()) {
                        continue;
                    }
                    let got: Value = match par::guard(|| t.get_value::<Value>(&p)) {
                        Ok(Ok(g)) => g,
                        Ok(Err(_)) => Value::Null, // "not found" ≡ null
                        Err(pn) => {
                            run.violation(format!("panic get_value :: {kind}"), pn, case(var));
                            continue;
                        }
                    };
                    if let Err(d) = eqv(&v, &got, &p) {
                        run.violation(format!("read-back {} :: {kind} at={p}", var.name()), format!("{} succeeded but get_value({p:?}) differs: {d}", op.id), case(var));
                    }
                }
                let key = tj.to_string();
                if key != pre_text || true {
                    out.next.push((key.clone(), t));
                }
                results.push((var, Ok(key)));
            }
        }
    }
    // variants agree
    let oks: Vec<&(Variant, Result<String, String>)> = results.iter().filter(|r| r.1.is_ok()).collect();
    for w in oks.windows(2) {
        if w[0].1 != w[1].1 {
            let a: Value = serde_json::from_str(w[0].1.as_ref().unwrap()).unwrap_or(Value::Null);
            let b: Value = serde_json::from_str(w[1].1.as_ref().unwrap()).unwrap_or(Value::Null);
            let d = eqv(&a, &b, "").err().unwrap_or_else(|| "null/absent only".into());
            run.violation(format!("variants-disagree {} vs {} :: {kind}", w[0].0.name(), w[1].0.name()), format!("{}: {d}", op.id), case(w[1].0));
        }
    }
    // For a single leaf with a non-object value the overlay document {path: v} and the path update path := v describe the SAME
    // target document (merge and replacement coincide when every intermediate node of the path is an object in the state,
    // which holds for harvested leaf paths). If one of them succeeds, that document is valid, so the other must yield it too.
    if let (Some(doc), Some((p, v))) = (&op.doc, &op.path) {
        let mut by_merge = sj.clone();
        ref_merge(&mut by_merge, doc);
        let mut by_set = sj.clone();
        ref_set(&mut by_set, p, v);
        if !v.is_object() && by_merge == by_set && oks.len() != results.len() && !oks.is_empty() {
            let ok_names: Vec<&str> = oks.iter().map(|r| r.0.name()).collect();
            let failed: Vec<String> = results.iter().filter(|r| r.1.is_err()).map(|r| format!("{} ({})", r.0.name(), r.1.as_ref().err().unwrap())).collect();
            run.violation(
                format!("merge-not-yielded :: {kind} ok=[{}] failed=[{}]", ok_names.join(","), results.iter().filter(|r| r.1.is_err()).map(|r| r.0.name()).collect::<Vec<_>>().join(",")),
                format!("{}: the same target document is accepted through {:?} but refused through {:?}", op.id, ok_names, failed),
                case(results.iter().find(|r| r.1.is_err()).map(|r| r.0).unwrap_or(Variant::WithJson)),
            );
        }
    }
    // JSON and TOML renderings of the same document agree on success/failure
    for (j, t) in [(Variant::WithJson, Variant::WithToml), (Variant::UpdateJson, Variant::UpdateToml)] {
        let rj = results.iter().find(|r| r.0 == j);
        let rt = results.iter().find(|r| r.0 == t);
        if let (Some(rj), Some(rt)) = (rj, rt) {
            if rj.1.is_ok() != rt.1.is_ok() && op.raw.is_none() {
                run.violation(
                    format!("json-toml-disagree {} :: {kind}", j.name()),
                    format!("{}: JSON rendering {} but TOML rendering {}", op.id, if rj.1.is_ok() { "succeeds".to_string() } else { format!("fails ({})", rj.1.as_ref().err().unwrap()) },
                        if rt.1.is_ok() { "succeeds".to_string() } else { format!("fails ({})", rt.1.as_ref().err().unwrap()) }),
                    case(t),
                );
            }
        }
    }
    out
}

// ---- stateright model -----------------------------------------------------------------------------------

#[derive(Clone)]
struct SrModel {
    ops: Arc<Vec<Op>>,
    /// op indices usable at each depth (depth 0 = from the initial state)
    alpha: Arc<Vec<Vec<usize>>>,
    init: String,
    execs: Arc<AtomicU64>,
}

impl Model for SrModel {
    /// (depth, canonical settings JSON)
    type State = (u8, String);
    type Action = usize;

    fn init_states(&self) -> Vec<Self::State> {
        vec![(0, self.init.clone())]
    }
    fn actions(&self, st: &Self::State, actions: &mut Vec<Self::Action>) {
        if let Some(a) = self.alpha.get(st.0 as usize) {
            actions.extend(a.iter().cloned());
        }
    }
    fn next_state(&self, st: &Self::State, a: Self::Action) -> Option<Self::State> {
        let s: Settings = serde_json::from_str(&st.1).ok()?;
        let op = &self.ops[a];
        // the logical op succeeds if its first variant does (variant agreement is the engine's business)
        let var = op.variants()[0];
        self.execs.fetch_add(1, Ordering::Relaxed);
        match exec(&s, op, var) {
            Ok((Ok(t), _)) => Some((st.0 + 1, state_json(&t).to_string())),
            _ => None,
        }
    }
    fn properties(&self) -> Vec<Property<Self>> {
        vec![Property::always("true", |_, _| true)]
    }
}

// ---- driver ---------------------------------------------------------------------------------------------

pub fn run(run: &Run, replay: Option<&Value>) {
    run.rule(
        "BFS from Settings::default(): every operation of the alphabet (leaf x value x {with_json, with_toml, update_from_str json/toml, with_value, set_value} + document/raw/path extras) from every \
         state reached within depth-1 operations; in every transition: reference merge/path-set equality on success, unchanged state on failure, variant agreement. \
         non-trivial = (state, logical op) pairs whose op succeeds in at least one variant AND changes the state; distinct by construction.",
    );
    run.assume("null ≡ absent in the state JSON (Option fields are skipped when None); keys named zz_unknown* are not part of the schema and may be dropped; numbers are compared numerically");
    run.assume("strings are compared ASCII-case-insensitively: the SDK parses enum spellings case-insensitively and writes its own spelling (e.g. alg \"es256\" reads back \"Es256\"); all candidate strings are lower-case");
    run.assume("the empty key (paths \"\", \".x\", \"x.\") is treated like any other key outside the schema: it may be dropped");
    run.assume("the TOML rendering of a document is produced by a 40-line renderer in the harness (tables for objects, inline values otherwise); documents containing null or integers beyond i64 have no TOML rendering");
    let default = Settings::default();
    let dj = state_json(&default);
    if state_json(&Settings::new()) != dj {
        ev::machinery("C25: Settings::new() differs from Settings::default()");
    }
    let ops = build_ops(&dj);

    if let Some(c) = replay {
        let mut s = default.clone();
        let steps: Vec<String> = c["trace"].as_array().map(|a| a.iter().filter_map(|x| x.as_str().map(|s| s.to_string())).collect()).unwrap_or_default();
        let mut trace: Vec<String> = vec![];
        for (i, st) in steps.iter().enumerate() {
            let (vname, id) = st.split_once(" :: ").unwrap_or(("", st));
            let op = ops.iter().find(|o| o.id == id).unwrap_or_else(|| ev::machinery(format!("C25 replay: unknown op {id}")));
            println!("step {i}: {id}  (document {}; toml {:?}; path {:?})", op.doc.as_ref().map(short).unwrap_or_default(), op.toml, op.path);
            let sj = state_json(&s);
            if i + 1 == steps.len() {
                run.eval();
                judge(run, &trace, &s, &sj, op, true);
            } else {
                let var = VARIANTS.iter().find(|v| v.name() == vname).cloned().unwrap_or(op.variants()[0]);
                match exec(&s, op, var) {
                    Ok((Ok(t), _)) => s = t,
                    other => ev::machinery(format!("C25 replay: prefix step {i} does not succeed: {:?}", other.map(|x| x.0.map(|_| ())))),
                }
                trace.push(st.clone());
            }
        }
        return;
    }

    let harvested = {
        let mut l = vec![];
        leaves(&dj, "", &mut l);
        l
    };
    run.extra("leaves_harvested", json!(harvested.len()));
    run.extra("logical_ops", json!(ops.len()));
    run.extra("ops_with_toml_rendering", json!(ops.iter().filter(|o| o.toml.is_some()).count()));
    run.sample(json!({"default_settings_leaves": harvested.iter().take(8).map(|(p, v)| json!([p, v])).collect::<Vec<_>>()}));
    if let Some(o) = ops.iter().find(|o| o.id.starts_with("doc nested three levels")) {
        run.sample(json!({"op": o.id, "json": o.doc, "toml": o.toml}));
    }

    // determinism: the same op twice
    {
        let o = &ops[0];
        let a = exec(&default, o, o.variants()[0]).map(|x| x.0.map(|t| state_json(&t).to_string()));
        let b = exec(&default, o, o.variants()[0]).map(|x| x.0.map(|t| state_json(&t).to_string()));
        if a != b {
            ev::machinery("C25: the same operation gives different results when run twice");
        }
    }

    let all: Vec<usize> = (0..ops.len()).collect();
    let core: Vec<usize> = (0..ops.len()).filter(|i| ops[*i].core).collect();
    let alpha: Vec<Vec<usize>> = if run.tier.is_thorough() { vec![all.clone(), all.clone(), core.clone()] } else { vec![all.clone(), all.clone()] };

    // ---- BFS ----------------------------------------------------------------------------------------------
    let mut seen: HashMap<String, ()> = HashMap::new();
    seen.insert(dj.to_string(), ());
    let mut frontier: Vec<(Settings, Value, Vec<String>)> = vec![(default.clone(), dj.clone(), vec![])];
    let transitions = AtomicU64::new(0);
    let execs = AtomicU64::new(0);
    let nontrivial = AtomicU64::new(0);
    let outcome: Mutex<BTreeMap<&'static str, u64>> = Mutex::new(BTreeMap::new());
    let mut states_per_depth = vec![1u64];
    for (depth, a) in alpha.iter().enumerate() {
        let pairs: Vec<(usize, usize)> = (0..frontier.len()).flat_map(|s| a.iter().map(move |o| (s, *o))).collect();
        run.space(&format!("depth {}: {} states x {} logical ops (each in all its variants)", depth + 1, frontier.len(), a.len()), pairs.len() as u64, true);
        let found: Mutex<HashMap<String, (Settings, Vec<String>)>> = Mutex::new(HashMap::new());
        par::for_each(&pairs, |(si, oi)| {
            let (s, sj, trace) = &frontier[*si];
            let op = &ops[*oi];
            let j = judge(run, trace, s, sj, op, false);
            execs.fetch_add(j.execs, Ordering::Relaxed);
            transitions.fetch_add(1, Ordering::Relaxed);
            {
                let mut g = outcome.lock().unwrap();
                let cls = if j.outcomes.iter().all(|o| *o == "success") {
                    "all variants succeed"
                } else if j.outcomes.iter().all(|o| *o == "failure") {
                    "all variants fail (state unchanged)"
                } else {
                    "variants split between success and failure"
                };
                *g.entry(cls).or_insert(0) += 1;
            }
            let pre = sj.to_string();
            let mut changed = false;
            for (k, t) in j.next {
                if k != pre {
                    changed = true;
                    let mut g = found.lock().unwrap();
                    g.entry(k).or_insert_with(|| {
                        let mut tr = trace.clone();
                        tr.push(format!("{} :: {}", op.variants()[0].name(), op.id));
                        (t, tr)
                    });
                }
            }
            if changed {
                nontrivial.fetch_add(1, Ordering::Relaxed);
            }
        });
        let mut next_frontier = vec![];
        let mut found: Vec<(String, (Settings, Vec<String>))> = found.into_inner().unwrap().into_iter().collect();
        found.sort_by(|a, b| a.0.cmp(&b.0));
        for (k, (t, tr)) in found {
            if seen.insert(k.clone(), ()).is_none() {
                let tj: Value = serde_json::from_str(&k).unwrap();
                next_frontier.push((t, tj, tr));
            }
        }
        states_per_depth.push(next_frontier.len() as u64);
        frontier = next_frontier;
    }
    run.states(seen.len() as u64);
    run.transitions(transitions.load(Ordering::Relaxed));
    run.traces(execs.load(Ordering::Relaxed));
    run.evals(execs.load(Ordering::Relaxed));
    run.nontrivial_n(nontrivial.load(Ordering::Relaxed));
    for (k, v) in outcome.lock().unwrap().iter() {
        run.outcome_n(*k, *v);
    }
    run.extra("new_states_per_depth", json!(states_per_depth));

    // ---- stateright cross-check -----------------------------------------------------------------------------
    {
        // the (depth, json) state space; compared on distinct JSON per depth with the engine's BFS would need first-visit depths,
        // so compare what is invariant: the set of settings states reachable within the bound.
        let sr_alpha: Vec<Vec<usize>> = if run.tier.is_thorough() { vec![all.clone(), core.clone()] } else { vec![all.clone(), core.clone()] };
        let model = SrModel { ops: Arc::new(ops.clone()), alpha: Arc::new(sr_alpha.clone()), init: dj.to_string(), execs: Arc::new(AtomicU64::new(0)) };
        let ex = model.execs.clone();
        let t0 = std::time::Instant::now();
        let checker = model.checker().threads(par::workers()).spawn_bfs().join();
        let sr_unique = checker.unique_state_count() as u64;
        // the engine on the same parameters: (depth, state) pairs
        let mut own: std::collections::HashSet<(u8, String)> = std::collections::HashSet::new();
        own.insert((0, dj.to_string()));
        let mut level: Vec<(Settings, String)> = vec![(default.clone(), dj.to_string())];
        for (d, a) in sr_alpha.iter().enumerate() {
            let pairs: Vec<(usize, usize)> = (0..level.len()).flat_map(|s| a.iter().map(move |o| (s, *o))).collect();
            let found: Mutex<HashMap<String, Settings>> = Mutex::new(HashMap::new());
            par::for_each(&pairs, |(si, oi)| {
                let op = &ops[*oi];
                if let Ok((Ok(t), _)) = exec(&level[*si].0, op, op.variants()[0]) {
                    let k = state_json(&t).to_string();
                    found.lock().unwrap().entry(k).or_insert(t);
                }
            });
            level = found.into_inner().unwrap().into_iter().map(|(k, t)| (t, k)).collect();
            for (_, k) in &level {
                own.insert((d as u8 + 1, k.clone()));
            }
        }
        run.extra(
            "stateright",
            json!({"alphabet_per_depth": sr_alpha.iter().map(|a| a.len()).collect::<Vec<_>>(), "unique_states(depth,json)": sr_unique, "engine_states(depth,json)": own.len(),
                   "generated": checker.state_count(), "max_depth": checker.max_depth(), "op_executions": ex.load(Ordering::Relaxed), "wall_s": t0.elapsed().as_secs_f64()}),
        );
        run.evals(ex.load(Ordering::Relaxed));
        if sr_unique != own.len() as u64 {
            ev::machinery(format!("C25: stateright finds {sr_unique} (depth,state) pairs, the engine {}", own.len()));
        }
    }
}

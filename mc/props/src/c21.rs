//! C21 — update manifests cannot alter bound content or carry forbidden parts (S-inp, bounded exhaustive).
//!
//! (A) Update manifests made through `BuilderIntent::Update` on JPEG / PNG / MP4 (and an update on an update) must read Valid.
//! (B) Content mutations: every media byte (= every byte outside what the parent's signed hard binding declares excluded,
//!     resolved by the harness's own resolvers) x patterns, deletions, insertions, appends: never Valid/Trusted.
//! (C) Crafted rule-violating update manifests, built at store level through `c2pa::verif_hooks::update_manifest`
//!     (the public API refuses to build them): no ingredient, only non-parent ingredients, two parentOf ingredients,
//!     a hard binding, each action that is not allowed for update manifests: never Valid/Trusted. A crafted rule-abiding
//!     control built the same way must read Valid (else the crafting path is broken: machinery failure).
//! (D) The update-manifest marker is the (unsigned) JUMBF type UUID of the manifest box: relabel a standard manifest
//!     (which has a correct hard binding and, in one variant, a disallowed action) as an update manifest by
//!     rewriting that UUID: never Valid/Trusted.
//!
//! After a missed independently seeded change (update-manifest re-basing grows the exclusion that CONTAINS the store start):
//! whole units of several sizes are inserted at every unit boundary incl. directly in front of / behind the container, and the
//! harness resolver re-bases only on an exact start match. /tmp/seed-C21/OUT/patch.diff -> keys
//! `content-change-undetected datahash+update {jpeg,png} at=between-units:before-{APP11,caBX} edit=insert-new-unit`
//! (C01: `undetected datahash+update ... edit=insert-new-unit|dup-unit`).
//!
//! Mutants caught (quick tier; unchanged tree reports only `... hard-binding-datahash fmt=*`):
//!   /verif/mutants/C21-skip-binding-for-update.diff (verify_store skips the hash binding when the active manifest is an update
//!       manifest): 3 -> 1295 violations, new keys `content-change-undetected {datahash+update,bmffhash} {jpeg,png,mp4} at=... edit=...`
//!   /verif/mutants/C21-action-prefix-match.diff (allowed-action test `a.starts_with(action)` instead of equality): 3 -> 8,
//!       new keys `rule-violating-update-accepted disallowed-action=c2pa.edited fmt=*`, `... relabel=standard-edited-as-update fmt=*`

use std::io::Cursor;

use c2pa::{
    assertions::{Action, Actions, DataHash, Relationship},
    verif_hooks::{self, update_manifest as um, Claim, Store},
    ClaimGeneratorInfo, HashRange,
};
use kit::{
    assets, par, sdk,
    tamper::{self, Edit, Obs},
    Run,
};
use serde_json::{json, Value};

use super::c01::{self, Seed};

const NO_VERIFY_AFTER_SIGN: &str = r#"{"verify":{"verify_after_sign":false}}"#;
const FORMATS: [&str; 3] = ["jpeg", "png", "mp4"];

const DISALLOWED: [&str; 17] = [
    "c2pa.edited", "c2pa.cropped", "c2pa.color_adjustments", "c2pa.converted", "c2pa.created", "c2pa.drawing", "c2pa.filtered",
    "c2pa.orientation", "c2pa.placed", "c2pa.removed", "c2pa.repackaged", "c2pa.resized", "c2pa.transcoded", "c2pa.translated",
    "c2pa.unknown", "c2pa.watermarked", "com.kit.custom",
];

fn signer() -> Box<dyn c2pa::Signer + Send + Sync> {
    sdk::fixture_signer("ed25519")
}

struct Base {
    fmt: &'static str,
    mime: &'static str,
    parent: Vec<u8>,
    upd: Seed,
    upd2: Seed,
}

fn bases() -> Vec<Base> {
    FORMATS
        .iter()
        .map(|f| {
            let a = assets::by_name(f);
            let parent = sdk::sign_simple(signer().as_ref(), a.mime, &a.data, &[]);
            let u = c01::sign_update(a.mime, &parent, &[]);
            let u2 = c01::sign_update_titled(a.mime, &u, &[], "upd-second");
            Base {
                fmt: a.name,
                mime: a.mime,
                parent,
                upd: c01::finish_seed(format!("{f}/update"), &a, u, None, true),
                upd2: c01::finish_seed(format!("{f}/update2"), &a, u2, None, true),
            }
        })
        .collect()
}

// ---------------------------------------------------------------------------------------------- (B)

fn content_edits(seed: &Seed, thorough: bool) -> Vec<Edit> {
    let f = &seed.signed;
    let media: Vec<usize> = (0..f.len()).filter(|p| !seed.excl.iter().any(|(s, e)| p >= s && p < e)).collect();
    let mut v = vec![];
    for &p in &media {
        let masks: &[u8] = if thorough { &[0x01, 0x80, 0xFF] } else { &[0xFF] };
        for m in masks {
            v.push(Edit::flip(f, p, *m));
        }
        if thorough {
            v.push(Edit::delete(p));
            v.push(Edit::insert(p, 0));
        }
    }
    // content appended / inserted as whole units
    v.push(Edit::append(f, vec![0], "append-zero", "append-zero n=1".into()));
    v.push(Edit::append(f, vec![0xFF; 8], "append", "append-ff n=8".into()));
    // whole well-formed units of several sizes appended and inserted at EVERY unit boundary, including the boundaries
    // directly in front of and directly behind the manifest container
    for (name, x) in c01::extra_units(seed.family) {
        v.push(Edit::append(f, x.clone(), "append-new-unit", format!("append-new-unit {name}")));
        if let Some(units) = &seed.units {
            for (i, u) in units.iter().enumerate() {
                v.push(Edit::splice("insert-new-unit", u.start, u.start, x.clone(), format!("insert-new-unit {name} before-unit={i}")));
            }
        }
    }
    v
}

fn judge_content(run: &Run, seed: &Seed, e: &Edit, verbose: bool) -> String {
    let m = e.apply(&seed.signed);
    let obs = seed.observe(&m);
    run.eval();
    let class = obs.class();
    if verbose {
        println!("  content seed={} edit={} -> {class}", seed.id, e.to_json());
    }
    let case = json!({"kind":"content","seed": seed.id, "edit": e.to_json()});
    match &obs {
        Obs::Panic(p) => run.violation(format!("panic content {} {}", seed.keyfmt(), tamper::panic_key(p)), format!("{}: {p}", seed.id), case),
        Obs::Accepted { state, .. } => {
            // a unit edit may land inside declared-excluded bytes (e.g. an inserted box the BMFF hash excludes by xpath): not a content change
            if tamper::confined(&seed.binding, &seed.signed, &seed.excl, &seed.prot, &m) {
                return "accepted-excluded-only".into();
            }
            run.violation(
                format!("content-change-undetected {} {} at={} edit={}", seed.binding.name(), seed.keyfmt(), c01::where_of(seed, e, &m), e.kind),
                format!("{}: {} at {} changes media bytes bound by the parent manifest, the reader still reports {state}", seed.id, e.kind, e.start),
                case,
            )
        }
        Obs::Invalid => run.nontrivial(format!("{}:{}", seed.id, e.sym)),
        Obs::Err(_) => {}
    }
    class
}

// ---------------------------------------------------------------------------------------------- (C)

#[derive(Clone, Debug, PartialEq)]
enum Variant {
    Control,
    ControlNoActions,
    ControlAllowed(&'static str),
    NoIngredient,
    NoIngredientPublished,
    OnlyNonParent(&'static str),
    TwoParents,
    HardBinding,
    Disallowed(&'static str, bool),
}

impl Variant {
    fn name(&self) -> String {
        match self {
            Variant::Control => "control".into(),
            Variant::ControlNoActions => "control-no-actions".into(),
            Variant::ControlAllowed(a) => format!("control-allowed-action={a}"),
            Variant::NoIngredient => "no-ingredient".into(),
            Variant::NoIngredientPublished => "no-ingredient+published".into(),
            Variant::OnlyNonParent(r) => format!("only-{r}-ingredient"),
            Variant::TwoParents => "two-parentOf".into(),
            Variant::HardBinding => "hard-binding-datahash".into(),
            Variant::Disallowed(a, own) => format!("disallowed-action={a}{}", if *own { " (own assertion)" } else { "" }),
        }
    }
    fn abiding(&self) -> bool {
        matches!(self, Variant::Control | Variant::ControlNoActions | Variant::ControlAllowed(_))
    }
}

fn variants(thorough: bool) -> Vec<Variant> {
    let mut v = vec![
        Variant::Control,
        Variant::ControlNoActions,
        Variant::ControlAllowed("c2pa.published"),
        Variant::ControlAllowed("c2pa.edited.metadata"),
        Variant::NoIngredient,
        Variant::NoIngredientPublished,
        Variant::OnlyNonParent("componentOf"),
        Variant::OnlyNonParent("inputTo"),
        Variant::TwoParents,
        Variant::HardBinding,
    ];
    for a in DISALLOWED {
        v.push(Variant::Disallowed(a, false));
        if thorough {
            v.push(Variant::Disallowed(a, true));
        }
    }
    v
}

/// Build the crafted update manifest over `base.parent`. Err(text) = the SDK refused to build/sign it.
fn craft(base: &Base, var: &Variant) -> Result<Vec<u8>, String> {
    let ctx = sdk::ctx_with(&[NO_VERIFY_AFTER_SIGN]);
    let e = |what: &str, e: c2pa::Error| format!("{what}: {e:?}");
    // the legitimate update manifest is the template for the ingredient assertion (v3 ingredient with validation results)
    let (upd_store_bytes, _) = Store::load_jumbf_from_stream(base.mime, &mut Cursor::new(&base.upd.signed), &ctx).map_err(|x| e("load update store", x))?;
    let tmpl_store = verif_hooks::store_from_jumbf(&upd_store_bytes, &ctx).map_err(|x| e("parse update store", x))?;
    let tmpl = tmpl_store.provenance_claim().ok_or("template has no provenance claim")?;
    let (parent_store_bytes, _) = Store::load_jumbf_from_stream(base.mime, &mut Cursor::new(&base.parent), &ctx).map_err(|x| e("load parent store", x))?;

    let mut c = Claim::new("kit-crafted", Some("kit"), 2);
    c.add_claim_generator_info(ClaimGeneratorInfo::new("kit-crafted"));
    let mut st = Store::load_ingredient_to_claim(&mut c, &parent_store_bytes, None, &ctx).map_err(|x| e("load_ingredient_to_claim", x))?;

    let rel = |r: &str| match r {
        "componentOf" => Relationship::ComponentOf,
        "inputTo" => Relationship::InputTo,
        _ => Relationship::ParentOf,
    };
    let mut ing = vec![];
    match var {
        Variant::NoIngredient | Variant::NoIngredientPublished => {}
        Variant::OnlyNonParent(r) => ing.push(um::copy_ingredient_assertion(&mut c, tmpl, 0, Some(rel(r))).map_err(|x| e("copy ingredient", x))?),
        Variant::TwoParents => {
            ing.push(um::copy_ingredient_assertion(&mut c, tmpl, 0, None).map_err(|x| e("copy ingredient", x))?);
            ing.push(um::copy_ingredient_assertion(&mut c, tmpl, 0, None).map_err(|x| e("copy ingredient 2", x))?);
        }
        _ => ing.push(um::copy_ingredient_assertion(&mut c, tmpl, 0, None).map_err(|x| e("copy ingredient", x))?),
    }
    let mut actions = Actions::new();
    let mut have = false;
    if let (Some(first), false) = (ing.first(), matches!(var, Variant::ControlNoActions | Variant::OnlyNonParent(_))) {
        actions = actions.add_action(Action::new("c2pa.opened").set_parameter("ingredients", vec![first.clone()]).map_err(|x| e("opened", x))?);
        have = true;
    }
    match var {
        Variant::ControlAllowed(a) | Variant::Disallowed(a, false) => {
            actions = actions.add_action(Action::new(*a));
            have = true;
        }
        Variant::NoIngredientPublished => {
            actions = actions.add_action(Action::new("c2pa.published"));
            have = true;
        }
        _ => {}
    }
    if have {
        c.add_assertion(&actions).map_err(|x| e("add actions", x))?;
    }
    if let Variant::Disallowed(a, true) = var {
        c.add_assertion(&Actions::new().add_action(Action::new(*a))).map_err(|x| e("add second actions", x))?;
    }
    if *var == Variant::HardBinding {
        let mut dh = DataHash::new("jumbf manifest", "sha256");
        dh.add_exclusion(HashRange::new(0, base.parent.len() as u64));
        dh.set_hash(vec![7u8; 32]);
        c.add_assertion(&dh).map_err(|x| e("add data hash", x))?;
    }
    um::set_update_manifest(&mut c, true);
    st.commit_claim(c).map_err(|x| e("commit_claim", x))?;
    let (asset, _) = um::save_to_stream(&mut st, base.mime, &base.parent, signer().as_ref(), &ctx).map_err(|x| e("save_to_stream", x))?;
    Ok(asset)
}

fn judge_crafted(run: &Run, base: &Base, var: &Variant, verbose: bool) {
    run.eval();
    let name = var.name();
    let case = json!({"kind":"crafted","fmt": base.fmt, "variant": name});
    let built = match par::guard(|| craft(base, var)) {
        Err(p) => {
            run.violation(format!("panic crafting {} {name}", base.fmt), p, case);
            return;
        }
        Ok(b) => b,
    };
    let asset = match built {
        Err(why) => {
            if var.abiding() {
                kit::ev::machinery(format!("C21: rule-abiding crafted control `{name}` on {} could not be built: {why}", base.fmt));
            }
            if verbose {
                println!("  crafted {} {name}: refused while building/signing: {why}", base.fmt);
            }
            run.outcome(format!("crafted:{name}:refused-at-signing"));
            return;
        }
        Ok(a) => a,
    };
    let spec = tamper::ReadSpec { mime: base.mime.into(), settings: vec![] };
    let obs = tamper::observe(&spec, &asset);
    if verbose {
        let codes = sdk::read(sdk::ctx(), base.mime, &asset).map(|r| kit::canon::codes(&r)).unwrap_or_default();
        println!("  crafted {} {name}: {} {:?}", base.fmt, obs.class(), codes.iter().filter(|c| c.contains("failure")).collect::<Vec<_>>());
    }
    run.outcome(format!("crafted:{}:{}", if var.abiding() { "abiding" } else { "violating" }, obs.class()));
    // is the thing we built really an update manifest? (else the case says nothing)
    let is_update = asset.windows(8).filter(|w| w == b"jumdc2um").count();
    if is_update == 0 {
        kit::ev::machinery(format!("C21: crafted `{name}` on {} carries no update-manifest box (c2um)", base.fmt));
    }
    match (&obs, var.abiding()) {
        (Obs::Panic(p), _) => run.violation(format!("panic crafted {} {name}", base.fmt), p.clone(), case),
        (Obs::Accepted { .. }, true) => run.nontrivial(format!("{}/{name}", base.fmt)),
        (other, true) => kit::ev::machinery(format!("C21: rule-abiding crafted control `{name}` on {} reads {} — crafting path broken", base.fmt, other.class())),
        (Obs::Accepted { state, .. }, false) => run.violation(
            format!("rule-violating-update-accepted {name} fmt={}", base.fmt),
            format!("{}: crafted update manifest `{name}` is reported {state}", base.fmt),
            case,
        ),
        (_, false) => run.nontrivial(format!("{}/{name}", base.fmt)),
    }
}

// ---------------------------------------------------------------------------------------------- (D)

/// Offsets of the manifest-type UUID prefix (`c2ma` / `c2um`) of every manifest box, in file order.
fn manifest_type_offsets(_family: &str, asset: &[u8]) -> Vec<usize> {
    let tail = [0x00u8, 0x11, 0x00, 0x10, 0x80, 0x00, 0x00, 0xAA, 0x00, 0x38, 0x9B, 0x71];
    (4..asset.len().saturating_sub(16))
        .filter(|&p| (&asset[p..p + 4] == b"c2ma" || &asset[p..p + 4] == b"c2um") && asset[p + 4..p + 16] == tail && &asset[p - 4..p] == b"jumd")
        .collect()
}

fn judge_relabel(run: &Run, base: &Base, which: &str, verbose: bool) {
    run.eval();
    let fam = tamper::family(base.mime);
    let case = json!({"kind":"relabel","fmt": base.fmt, "which": which});
    let (src, idx_from_end, to): (Vec<u8>, usize, &[u8; 4]) = match which {
        // standard manifest (correct hard binding, c2pa.opened + parent) relabelled as an update manifest
        "standard-as-update" => (base.parent.clone(), 0, b"c2um"),
        // standard manifest with an edit action relabelled as update manifest
        "standard-edited-as-update" => {
            let a = assets::by_name(base.fmt);
            let mut b = sdk::builder(sdk::ctx(), c01::DEF);
            b.add_action(json!({"action":"c2pa.edited"})).unwrap_or_else(|e| kit::ev::machinery(format!("C21 relabel seed: {e:?}")));
            let (o, _) = sdk::sign(&mut b, signer().as_ref(), a.mime, &base.parent).unwrap_or_else(|e| kit::ev::machinery(format!("C21 relabel seed: {e:?}")));
            (o, 0, b"c2um")
        }
        // informational only: update manifest relabelled as a standard manifest
        "update-as-standard" => (base.upd.signed.clone(), 0, b"c2ma"),
        _ => kit::ev::machinery("unknown relabel"),
    };
    let offs = manifest_type_offsets(fam, &src);
    if offs.is_empty() {
        kit::ev::machinery(format!("C21 relabel: no manifest type UUID found in {} asset", base.fmt));
    }
    let p = offs[offs.len() - 1 - idx_from_end];
    let base_obs = tamper::observe(&tamper::ReadSpec { mime: base.mime.into(), settings: vec![] }, &src);
    if !matches!(base_obs, Obs::Accepted { .. }) {
        kit::ev::machinery(format!("C21 relabel seed {which} on {} does not read Valid", base.fmt));
    }
    let mut m = src.clone();
    m[p..p + 4].copy_from_slice(to);
    let obs = tamper::observe(&tamper::ReadSpec { mime: base.mime.into(), settings: vec![] }, &m);
    if verbose {
        println!("  relabel {} {which} (offset {p}): {}", base.fmt, obs.class());
    }
    run.outcome(format!("relabel:{which}:{}", obs.class()));
    if which == "update-as-standard" {
        return; // not an update manifest any more: outside the property text, recorded only
    }
    match &obs {
        Obs::Panic(pm) => run.violation(format!("panic relabel {} {which}", base.fmt), pm.clone(), case),
        Obs::Accepted { state, .. } => run.violation(
            format!("rule-violating-update-accepted relabel={which} fmt={}", base.fmt),
            format!("{}: a standard manifest (with hard binding) whose manifest box type is rewritten to the update-manifest UUID is reported {state}", base.fmt),
            case,
        ),
        _ => run.nontrivial(format!("{}/relabel/{which}", base.fmt)),
    }
}

pub fn run(run: &Run, replay: Option<&Value>) {
    run.rule("non-trivial = content mutants on which the reader reached a verdict, crafted/relabelled update manifests that were built, embedded and reached the reader (controls must read Valid)");
    run.assume("update manifests are produced by Builder with BuilderIntent::Update over kit JPEG/PNG/MP4 signed with the default binding; crafted variants are built through verif_hooks::update_manifest (Claim::set_update_manifest, Store::save_to_stream) with verify_after_sign off");
    run.assume("`media bytes` = bytes outside what the parent's signed hard binding declares excluded, by the harness's resolvers (tamper.rs)");
    run.assume("a hard binding inside an update manifest is tested with (i) a crafted DataHash whose hash is not correct and (ii) a correct one by relabelling a standard manifest; a correct hash in a crafted claim is not constructed");
    let bases = bases();
    let thorough = run.tier.is_thorough();

    if let Some(c) = replay {
        let fmt = c["fmt"].as_str().or_else(|| c["seed"].as_str().and_then(|s| s.split('/').next())).unwrap_or("");
        let base = bases.iter().find(|b| b.fmt == fmt).unwrap_or_else(|| kit::ev::machinery("replay: unknown format"));
        match c["kind"].as_str() {
            Some("content") => {
                let seed = if c["seed"].as_str().unwrap_or("").ends_with("update2") { &base.upd2 } else { &base.upd };
                let sym = c["edit"].as_str().unwrap_or("");
                let e = content_edits(seed, true)
                    .into_iter()
                    .find(|e| e.sym == sym)
                    .unwrap_or_else(|| kit::ev::machinery(format!("replay: no content edit `{sym}`")));
                println!("replay C21 content: seed {} excluded {:?}", seed.id, seed.excl);
                judge_content(run, seed, &e, true);
            }
            Some("crafted") => {
                let name = c["variant"].as_str().unwrap_or("");
                let var = variants(true).into_iter().find(|v| v.name() == name).unwrap_or_else(|| kit::ev::machinery("replay: unknown variant"));
                judge_crafted(run, base, &var, true);
            }
            Some("relabel") => judge_relabel(run, base, c["which"].as_str().unwrap_or(""), true),
            _ => kit::ev::machinery("replay: unknown kind"),
        }
        return;
    }

    // (A) is asserted by finish_seed (machinery if an Update-intent manifest does not read Valid)
    for b in &bases {
        run.sample(json!({"seed": b.upd.id, "len": b.upd.signed.len(), "binding": b.upd.binding.name(), "declared_excluded": b.upd.excl,
            "media_bytes": b.upd.signed.len() - b.upd.excl.iter().map(|(s, e)| e - s).sum::<usize>()}));
    }
    // (B)
    for b in &bases {
        for seed in [&b.upd, &b.upd2] {
            let ed = content_edits(seed, thorough);
            run.space(&format!("content mutations of {} ({} media bytes outside {:?})", seed.id, seed.prot.len(), seed.excl), ed.len() as u64, true);
            let counts = std::sync::Mutex::new(std::collections::BTreeMap::<String, u64>::new());
            par::for_each(&ed, |e| {
                let c = judge_content(run, seed, e, false);
                *counts.lock().unwrap().entry(c).or_insert(0) += 1;
            });
            for (k, n) in counts.into_inner().unwrap() {
                run.outcome_n(format!("content:{k}"), n);
            }
        }
    }
    // (C)
    let vars = variants(thorough);
    run.space(&format!("crafted update manifests: {} variants x {} formats", vars.len(), bases.len()), (vars.len() * bases.len()) as u64, true);
    for b in &bases {
        for v in &vars {
            judge_crafted(run, b, v, false);
        }
    }
    // (D)
    let rel = ["standard-as-update", "standard-edited-as-update", "update-as-standard"];
    run.space("manifest box type relabelling", (rel.len() * bases.len()) as u64, true);
    for b in &bases {
        for w in rel {
            judge_relabel(run, b, w, false);
        }
    }
    run.extra("crafted_variants", json!(vars.iter().map(|v| v.name()).collect::<Vec<_>>()));
}

//! C01 — tamper evidence of asset content (S-inp, bounded exhaustive).
//!
//! Seeds: tiny asset of every writable format x hard-binding kind (data hash, box hash through
//! `core.prefer_compress_manifests`, BMFF hash with and without Merkle, update manifests through
//! `BuilderIntent::Update`, detached manifest = sidecar). Every seed must read back Valid.
//! Alphabet: ONE contiguous edit of the signed file F: overwrite / delete / insert / truncate at every position of
//! a stated position set, appends, and whole-unit edits (duplicate, delete, swap, append) at every structural boundary
//! found by the harness's own container walkers.
//! Oracle (property text): the read is Err, or Invalid, or (Valid|Trusted AND the canonical report equals the seed's AND
//! the mutant is byte-identical to F outside what the SIGNED hard binding declares excluded, resolved by the harness's
//! own resolvers: DataHash ranges / the C2PA box / BMFF exclusion xpaths). A panic is neither Err nor Invalid.
//!
//! Structural variants (added after an independently seeded change was missed: jpeg_io `in_entropy` RST0..=RST7 -> RST0..RST7,
//! which ends the SOS box at the first RST7): quick includes jpeg-rst-many (ten restart intervals, box + data hash),
//! jpeg-segs, png-multi-idat, gif-multi (box hash). With them `/tmp/seed-C01/OUT/patch.diff` gives the new keys
//! `undetected boxhash jpeg at=SOS edit=flip|delete` (40 cases); the unchanged tree has only known findings.
//!
//! Mutants caught (quick tier; the unchanged tree already reports the box-hash findings, so "caught" = NEW violation keys):
//!   /verif/mutants/C01-exclusion-off-by-one.diff  (hash_utils: exclusion end without the -1, at signing and validation):
//!       321 -> 353 violations; new keys `undetected datahash {flac,mp3} at=content edit=flip`,
//!       `undetected datahash {wav,avi,tiff} at=... edit=append*`, `undetected datahash webp at=C2PA ...`
//!   /verif/mutants/C01-inclusion-off-by-one.diff  (hash_utils: inclusion end one byte short): 321 -> 424 violations;
//!       new keys `undetected boxhash gif at=LSD edit=flip`, `undetected boxhash jxl at=jxlc edit=flip`,
//!       `undetected bmffhash+merkle mp4 at=mdat edit=flip`

use std::{
    collections::hash_map::DefaultHasher,
    hash::{Hash, Hasher},
    io::Cursor,
};

use c2pa::{Builder, BuilderIntent, Reader};
use kit::{
    assets::{self, Asset},
    par, sdk,
    tamper::{self, Binding, Edit, Obs, ReadSpec, Unit},
    Run,
};
use serde_json::{json, Value};

pub const DEF: &str = r#"{"title":"t","claim_generator_info":[{"name":"kit","version":"1"}]}"#;
pub const COMPRESS: &str = r#"{"core":{"prefer_compress_manifests":true}}"#;
pub const MERKLE: &str = r#"{"core":{"merkle_tree_chunk_size_in_kb":1}}"#;

pub struct Seed {
    pub id: String,
    pub fmt: &'static str,
    pub family: &'static str,
    pub spec: ReadSpec,
    /// the signed file (for detached seeds: the unchanged asset)
    pub signed: Vec<u8>,
    /// detached manifest store (sidecar flow)
    pub detached: Option<Vec<u8>>,
    pub binding: Binding,
    pub canon: String,
    pub excl: Vec<(usize, usize)>,
    pub prot: Vec<u8>,
    pub units: Option<Vec<Unit>>,
}

impl Seed {
    /// Format name used in violation keys: the base format of the asset ("jpeg-rst-many" -> "jpeg"), because a defect
    /// of a format's handler shows on every structural variant of that format.
    pub fn keyfmt(&self) -> &'static str {
        self.fmt.split('-').next().unwrap_or(self.fmt)
    }

    pub fn observe(&self, m: &[u8]) -> Obs {
        match &self.detached {
            None => tamper::observe(&self.spec, m),
            Some(man) => tamper::observe_detached(&self.spec, man, m),
        }
    }
}

fn signer() -> Box<dyn c2pa::Signer + Send + Sync> {
    sdk::fixture_signer("ed25519")
}

/// Sign with Update intent on top of an already signed asset.
pub fn sign_update(mime: &str, signed: &[u8], settings: &[&str]) -> Vec<u8> {
    sign_update_titled(mime, signed, settings, "upd")
}

pub fn sign_update_titled(mime: &str, signed: &[u8], settings: &[&str], title: &str) -> Vec<u8> {
    let mut b = Builder::from_context(sdk::ctx_with(settings))
        .with_definition(format!(r#"{{"title":"{title}","claim_generator_info":[{{"name":"kit","version":"1"}}]}}"#))
        .unwrap_or_else(|e| kit::ev::machinery(format!("update definition: {e:?}")));
    b.set_intent(BuilderIntent::Update);
    match sdk::sign(&mut b, signer().as_ref(), mime, signed) {
        Ok((o, _)) => o,
        Err(e) => kit::ev::machinery(format!("update-manifest seed signing failed for {mime}: {e:?}")),
    }
}

pub const PREFER_BOX_HASH: &str = r#"{"builder":{"prefer_box_hash":true}}"#;

/// `builder.prefer_box_hash` flow: update_hash_from_stream -> sign_embeddable -> splice at the C2PA slot of the box map.
pub fn sign_box_embeddable(a: &Asset) -> Result<Vec<u8>, String> {
    let ctx = sdk::ctx_with(&[PREFER_BOX_HASH]).with_signer(sdk::SendSigner(signer()));
    let def = r#"{"title":"t","claim_generator_info":[{"name":"kit","version":"1"}],"assertions":[{"label":"c2pa.actions","data":{"actions":[{"action":"c2pa.created","digitalSourceType":"http://cv.iptc.org/newscodes/digitalsourcetype/digitalCapture"}]}}]}"#;
    let mut b = Builder::from_context(ctx).with_definition(def).map_err(|e| format!("definition: {e:?}"))?;
    if b.needs_placeholder(a.mime) {
        return Err("needs_placeholder is true although prefer_box_hash is set".into());
    }
    b.update_hash_from_stream(a.mime, &mut Cursor::new(&a.data)).map_err(|e| format!("update_hash_from_stream: {e:?}"))?;
    let composed = b.sign_embeddable(a.mime).map_err(|e| format!("sign_embeddable: {e:?}"))?;
    let map = c2pa::verif_hooks::box_map(a.mime, &a.data).ok_or("no box map")?.map_err(|e| format!("box map: {e:?}"))?;
    let slot = map.iter().find(|m| m.names.first().map(|n| n == "C2PA").unwrap_or(false)).ok_or("box map has no C2PA slot")?;
    let (s, l) = (slot.range_start as usize, slot.range_len as usize);
    let mut out = a.data[..s].to_vec();
    out.extend_from_slice(&composed);
    out.extend_from_slice(&a.data[s + l..]);
    Ok(out)
}

/// Finish a seed: read it back, require Valid, extract the signed binding and resolve it on F.
pub fn finish_seed(id: String, a: &Asset, signed: Vec<u8>, detached: Option<Vec<u8>>, update: bool) -> Seed {
    let family = tamper::family(a.mime);
    let spec = ReadSpec { mime: a.mime.to_string(), settings: vec![] };
    let ctx = tamper::ctx_for(&spec.settings);
    let rd = match &detached {
        None => Reader::from_shared_context(&ctx).with_stream(a.mime, Cursor::new(&signed)),
        Some(m) => Reader::from_shared_context(&ctx).with_manifest_data_and_stream(m, a.mime, Cursor::new(&signed)),
    };
    let rd = rd.unwrap_or_else(|e| kit::ev::machinery(format!("seed {id} does not read back: {e:?}")));
    let st = sdk::state_name(rd.validation_state());
    if st == "Invalid" {
        kit::ev::machinery(format!("seed {id} reads back Invalid: {:?}", kit::canon::codes(&rd)));
    }
    let detailed: Value = serde_json::from_str(&rd.detailed_json()).unwrap_or(Value::Null);
    // the manifest that carries the hard binding: the active one, or (update manifests) the only one that has one
    let labels: Vec<String> = detailed["manifests"].as_object().map(|m| m.keys().cloned().collect()).unwrap_or_default();
    let mut found: Vec<Binding> = vec![];
    let mut errs = vec![];
    if std::env::var("VERIF_DEBUG").is_ok() {
        for l in &labels {
            if let Some(o) = detailed["manifests"][l]["assertion_store"].as_object() {
                for (k, v) in o {
                    if k.starts_with("c2pa.hash") {
                        let mut t = v.to_string();
                        t.truncate(1500);
                        eprintln!("DEBUG seed {id} manifest {l} {k}: {t}");
                    }
                }
            }
        }
    }
    for l in &labels {
        match tamper::binding_from_report(&detailed, l, family) {
            Ok(b) => found.push(b),
            Err(e) => errs.push(e),
        }
    }
    if found.len() != 1 {
        kit::ev::machinery(format!("seed {id}: expected exactly one manifest with one hard binding, found {} ({errs:?})", found.len()));
    }
    let mut binding = found.pop().unwrap();
    let active = rd.active_label().unwrap_or("").to_string();
    let active_has = tamper::binding_from_report(&detailed, &active, family).is_ok();
    if update == active_has {
        kit::ev::machinery(format!("seed {id}: update={update} but active manifest has hard binding = {active_has}"));
    }
    if update {
        if let Binding::Data { ranges, .. } = &binding {
            binding = Binding::Data { ranges: ranges.clone(), rebase: Some(family) };
        }
    }
    if detached.is_some() {
        if let Binding::Data { ranges, .. } = &binding {
            if !ranges.is_empty() {
                kit::ev::machinery(format!("seed {id}: detached manifest with exclusions {ranges:?}"));
            }
        }
    }
    let excl = binding
        .excluded(&signed)
        .unwrap_or_else(|| kit::ev::machinery(format!("seed {id}: harness resolver cannot interpret the signed exclusions {binding:?}")));
    let prot = binding.protected(&signed).unwrap();
    let canon = tamper::canon_report(&rd);
    let units = tamper::walk(family, &signed);
    if matches!(family, "jpeg" | "png" | "gif" | "bmff" | "jxl" | "riff") && units.is_none() {
        kit::ev::machinery(format!("seed {id}: independent {family} walker cannot parse the signed file"));
    }
    Seed { id, fmt: a.name, family, spec, signed, detached, binding, canon, excl, prot, units }
}

pub fn build_seeds(thorough: bool) -> Vec<Seed> {
    let s = signer();
    // quick: one asset per format, plus the structural-repetition variants (restart-marker wrap-around, many marker
    // kinds, several IDAT chunks, several GIF frames / sub-blocks) under the box hash, whose per-box maps they exercise;
    // the data-hashed twin (positional hash, insensitive to structure) only for jpeg-rst-many. thorough: every variant x every binding.
    let mut list: Vec<(Asset, bool)> = if thorough { assets::all().into_iter().map(|a| (a, true)).collect() } else { assets::base().into_iter().map(|a| (a, true)).collect() };
    if !thorough {
        list.push((assets::by_name("jpeg-rst-many"), true));
    }
    for a in assets::structural() {
        if thorough || a.name != "wav-list" {
            list.push((a, thorough));
        }
    }
    let mut seeds = vec![];
    for (a, with_default) in &list {
        let bmff = tamper::family(a.mime) == "bmff";
        // default binding: data hash, or BMFF hash for BMFF
        let signed = sdk::sign_simple(s.as_ref(), a.mime, &a.data, &[]);
        if *with_default {
            seeds.push(finish_seed(format!("{}/{}", a.name, if bmff { "bmff" } else { "data" }), a, signed.clone(), None, false));
        }
        if bmff {
            let m = sdk::sign_simple(s.as_ref(), a.mime, &a.data, &[MERKLE]);
            seeds.push(finish_seed(format!("{}/bmff-merkle", a.name), a, m, None, false));
        }
        if matches!(tamper::family(a.mime), "jpeg" | "png" | "gif" | "jxl") {
            let b = sdk::sign_simple(s.as_ref(), a.mime, &a.data, &[COMPRESS]);
            seeds.push(finish_seed(format!("{}/box", a.name), a, b, None, false));
        }
        if matches!(a.name, "jpeg" | "png" | "gif" | "jxl") {
            // box hash through the embeddable workflow (builder.prefer_box_hash): hash, sign, splice the composed manifest
            // where the handler's box map puts the C2PA entry
            match sign_box_embeddable(a) {
                Ok(b) => seeds.push(finish_seed(format!("{}/box-embeddable", a.name), a, b, None, false)),
                Err(e) => kit::ev::machinery(format!("prefer_box_hash seed for {}: {e}", a.name)),
            }
        }
        if matches!(a.name, "jpeg" | "png" | "mp4") {
            let u = sign_update(a.mime, &signed, &[]);
            seeds.push(finish_seed(format!("{}/update", a.name), a, u, None, true));
        }
        if matches!(a.name, "jpeg" | "png") {
            // sidecar flow: asset unchanged, manifest detached
            let mut b = sdk::builder(sdk::ctx(), DEF);
            b.set_no_embed(true);
            let (out, man) = sdk::sign(&mut b, s.as_ref(), a.mime, &a.data)
                .unwrap_or_else(|e| kit::ev::machinery(format!("sidecar seed {}: {e:?}", a.name)));
            if out != a.data {
                kit::ev::machinery(format!("sidecar seed {}: no_embed output differs from the input asset", a.name));
            }
            seeds.push(finish_seed(format!("{}/detached", a.name), a, out, Some(man), false));
        }
    }
    seeds
}

/// Is `p` in the interior of a large excluded range (= manifest store bytes, C02's subject), i.e. not within the
/// first 64 / last 32 bytes (the container framing)?
fn store_interior(seed: &Seed, p: usize) -> bool {
    seed.excl.iter().any(|&(s, e)| e - s > 128 && p >= s + 64 && p < e - 32)
}

/// Positions swept per seed. thorough: every position. quick: every position outside the manifest container(s), the
/// first 64 and last 32 bytes of each container (its framing) and every 16th byte of its interior.
fn positions(seed: &Seed, thorough: bool) -> Vec<usize> {
    let n = seed.signed.len();
    (0..n).filter(|&p| thorough || !store_interior(seed, p) || p % 16 == 0).collect()
}

/// Well-formed new units of several sizes for a container family: (name, bytes). They are inserted at EVERY unit
/// boundary (so also directly in front of and directly behind the manifest container) and appended.
pub fn extra_units(family: &str) -> Vec<(String, Vec<u8>)> {
    let fill = |n: usize| -> Vec<u8> { (0..n).map(|i| b'a' + (i % 26) as u8).collect() };
    let mut v = vec![];
    match family {
        "jpeg" => {
            let seg = |m: u8, d: &[u8]| -> Vec<u8> {
                let mut s = vec![0xFF, m];
                s.extend_from_slice(&((d.len() + 2) as u16).to_be_bytes());
                s.extend_from_slice(d);
                s
            };
            for n in [1usize, 40, 400, 4000] {
                v.push((format!("COM{n}"), seg(0xFE, &fill(n))));
            }
            v.push(("APP1-40".into(), seg(0xE1, &fill(40))));
            v.push(("APP13-400".into(), seg(0xED, &fill(400))));
        }
        "png" => {
            for n in [1usize, 40, 400, 4000] {
                let mut d = b"Comment\0".to_vec();
                d.extend(fill(n));
                v.push((format!("tEXt{n}"), assets::png_chunk(b"tEXt", &d)));
            }
            v.push(("prVt40".into(), assets::png_chunk(b"prVt", &fill(40))));
        }
        "gif" => {
            for n in [1usize, 40, 400] {
                let mut b = vec![0x21, 0xFE];
                for c in fill(n).chunks(255) {
                    b.push(c.len() as u8);
                    b.extend_from_slice(c);
                }
                b.push(0);
                v.push((format!("comment{n}"), b));
            }
        }
        "bmff" | "jxl" => {
            for n in [4usize, 40, 400] {
                v.push((format!("abcd{n}"), assets::bx(b"abcd", &fill(n))));
            }
            if family == "bmff" {
                // a box kind the BMFF hash declares excluded by xpath
                for n in [1usize, 40, 400, 4000] {
                    v.push((format!("free{n}"), assets::bx(b"free", &fill(n))));
                }
            }
        }
        "riff" => {
            for n in [4usize, 40] {
                let mut c = b"evil".to_vec();
                c.extend_from_slice(&(n as u32).to_le_bytes());
                c.extend(fill(n));
                v.push((format!("evil{n}"), c));
            }
        }
        _ => {}
    }
    v
}

pub fn edits(seed: &Seed, thorough: bool) -> Vec<Edit> {
    let f = &seed.signed;
    let n = f.len();
    let pos = positions(seed, thorough);
    // positions that get all 255 values in thorough: everything except the interior of the manifest store
    let dense: Vec<bool> = (0..n).map(|p| !store_interior(seed, p)).collect();
    let mut v = vec![];
    for &p in &pos {
        if thorough && dense[p] {
            for m in 1..=255u8 {
                v.push(Edit::flip(f, p, m));
            }
        } else {
            for m in [0x01u8, 0x80, 0xFF] {
                v.push(Edit::flip(f, p, m));
            }
        }
        v.push(Edit::delete(p));
        v.push(Edit::insert(p, 0x00));
        v.push(Edit::insert(p, 0xFF));
        if f[p] != 0 && f[p] != 0xFF {
            v.push(Edit::insert_copy(f, p));
        }
        v.push(Edit::truncate(f, p));
    }
    // appends
    for k in [1usize, 2, 8, 64] {
        v.push(Edit::append(f, vec![0u8; k], "append-zero", format!("append-zero n={k}")));
        v.push(Edit::append(f, vec![0xFFu8; k], "append", format!("append-ff n={k}")));
    }
    if let Some(units) = &seed.units {
        if let Some((i, last)) = units.iter().enumerate().rev().find(|(_, u)| u.name != "trailing") {
            v.push(Edit::append(f, f[last.start..last.end].to_vec(), "append-unit", format!("append-copy-of unit={i}")));
        }
        for (name, x) in extra_units(seed.family) {
            let free = name.starts_with("free");
            let (ka, ki) = if free { ("append-free-box", "insert-free-box") } else { ("append-new-unit", "insert-new-unit") };
            v.push(Edit::append(f, x.clone(), ka, format!("append-new-unit {name}")));
            // ... and the same new unit inserted at every structural boundary
            for (i, u) in units.iter().enumerate() {
                v.push(Edit::splice(ki, u.start, u.start, x.clone(), format!("insert-new-unit {name} before-unit={i}")));
            }
        }
        for (i, u) in units.iter().enumerate() {
            v.push(Edit::splice("dup-unit", u.end, u.end, f[u.start..u.end].to_vec(), format!("dup-unit unit={i}")));
            v.push(Edit::splice("del-unit", u.start, u.end, vec![], format!("del-unit unit={i}")));
            if let Some(w) = units.get(i + 1) {
                let mut r = f[w.start..w.end].to_vec();
                r.extend_from_slice(&f[u.start..u.end]);
                v.push(Edit::splice("swap-units", u.start, w.end, r, format!("swap-units unit={i}")));
            }
        }
    }
    v
}

pub fn diff_hint(a: &str, b: &str) -> String {
    let p = a.bytes().zip(b.bytes()).position(|(x, y)| x != y).unwrap_or(a.len().min(b.len()));
    let lo = p.saturating_sub(80);
    let cut = |s: &str| -> String { s.chars().skip(lo).take(200).collect() };
    format!("seed report ...{}... vs mutant report ...{}...", cut(a), cut(b))
}

/// Where the edit lands, in terms of the structure of the signed file (for violation keys).
pub fn where_of(seed: &Seed, e: &Edit, m: &[u8]) -> String {
    let p = tamper::first_diff(&seed.signed, m);
    match &seed.units {
        Some(u) => {
            let last_end = u.iter().rev().find(|x| x.name != "trailing").map(|x| x.end).unwrap_or(seed.signed.len());
            // an inserted byte gives the same mutant at every position of the run of equal bytes it joins: use the leftmost
            // (leftmost or rightmost) position that is a unit boundary, if any
            let mut ins = e.start;
            if e.start == e.end && e.rep.len() == 1 {
                let (mut l, mut r) = (e.start, e.start);
                while l > 0 && seed.signed[l - 1] == e.rep[0] {
                    l -= 1;
                }
                while r < seed.signed.len() && seed.signed[r] == e.rep[0] {
                    r += 1;
                }
                if u.iter().any(|x| x.start == l) {
                    ins = l;
                } else if u.iter().any(|x| x.start == r) {
                    ins = r;
                }
            }
            if p >= last_end {
                "after-last-unit".into()
            } else if e.start == e.end && u.iter().any(|x| x.start == ins) {
                format!("between-units:before-{}", tamper::unit_at(u, ins))
            } else if e.start == e.end && u.iter().any(|x| x.start == e.start) {
                format!("between-units:before-{}", tamper::unit_at(u, e.start))
            } else {
                tamper::unit_at(u, p)
            }
        }
        None => {
            if seed.excl.iter().any(|(s, t)| p >= *s && p < *t) {
                "excluded".into()
            } else if p >= seed.signed.len() {
                "eof".into()
            } else {
                "content".into()
            }
        }
    }
}

/// Judge one mutant. Returns the outcome class.
pub fn judge(run: &Run, seed: &Seed, e: &Edit, verbose: bool) -> String {
    let m = e.apply(&seed.signed);
    if m == seed.signed {
        return "identity".into();
    }
    let obs = seed.observe(&m);
    run.eval();
    if verbose && std::env::var("VERIF_DEBUG").is_ok() {
        let _ = std::fs::write(kit::ev::out_root().join("debug-seed.bin"), &seed.signed);
        let _ = std::fs::write(kit::ev::out_root().join("debug-mutant.bin"), &m);
    }
    // the exact seed bytes are recorded: labels, hashes and (for compressed stores) the byte layout differ between signings
    let case = json!({"seed": seed.id, "edit": e.to_json(), "signed_hex": kit::ev::hex(&seed.signed), "detached_hex": seed.detached.as_ref().map(|d| kit::ev::hex(d))});
    let bname = seed.binding.name();
    let class = obs.class();
    if verbose {
        println!("  seed={} edit={} -> {}", seed.id, e.to_json(), class);
    }
    match &obs {
        Obs::Panic(p) => {
            run.violation(
                format!("panic {bname} {} {}", seed.keyfmt(), tamper::panic_key(p)),
                format!("reader panicked on a {} mutant of {} at {}: {p}", e.kind, seed.id, where_of(seed, e, &m)),
                case,
            );
        }
        Obs::Err(_) => {}
        Obs::Invalid => {
            let mut h = DefaultHasher::new();
            m.hash(&mut h);
            run.nontrivial(format!("{}:{:x}", seed.id, h.finish()));
        }
        Obs::Accepted { state, canon } => {
            let mut h = DefaultHasher::new();
            m.hash(&mut h);
            run.nontrivial(format!("{}:{:x}", seed.id, h.finish()));
            let conf = tamper::confined(&seed.binding, &seed.signed, &seed.excl, &seed.prot, &m);
            if !conf {
                run.violation(
                    format!("undetected {bname} {} at={} edit={}", seed.keyfmt(), where_of(seed, e, &m), e.kind),
                    format!(
                        "seed {}: `{}` (replaces [{}..{}) by {} byte(s)) changes bytes the signed {bname} binding does not declare excluded (declared excluded in the signed file: {:?}), yet the reader reports {state}",
                        seed.id, e.sym, e.start, e.end, e.rep.len(), seed.excl
                    ),
                    case,
                );
                return format!("VIOLATION-undetected");
            } else if *canon != seed.canon {
                if verbose && std::env::var("VERIF_DEBUG").is_ok() {
                    let _ = std::fs::write(kit::ev::out_root().join("debug-canon-seed.json"), &seed.canon);
                    let _ = std::fs::write(kit::ev::out_root().join("debug-canon-mutant.json"), canon);
                }
                run.violation(
                    format!("report-changed {bname} {} at={} edit={}", seed.keyfmt(), where_of(seed, e, &m), e.kind),
                    format!("seed {}: `{}` is confined to excluded bytes and reads {state}, but the reported manifest content differs from the seed's: {}", seed.id, e.sym, diff_hint(&seed.canon, canon)),
                    case,
                );
                return format!("VIOLATION-report-changed");
            }
        }
    }
    class
}

pub fn run(run: &Run, replay: Option<&Value>) {
    run.rule("one contiguous edit of the signed file per case; non-trivial = distinct mutant byte strings (per seed) on which the reader reached a validation verdict (Invalid, Valid or Trusted) instead of a parse error");
    run.assume("assets are the kit's tiny assets (35-860 bytes, signed 4-9 KB): size dependent paths (large hash chunks, multi-segment JPEG stores) are not reached");
    run.assume("single contiguous edits only; compensating multi-site edits are outside the bound");
    run.assume("signer: repository Ed25519 test credentials, no time-stamp; trust lists not configured, so accepted seeds read Valid");
    run.assume("harness-side resolvers (tamper.rs) define which bytes the signed binding declares excluded; with Merkle BMFF hashes the /mdat exclusion of the flat hash is NOT treated as unprotected because the Merkle rows bind those bytes");
    run.assume("hostile bytes are read in-process under catch_unwind; a stack overflow/abort inside the SDK would end the run as a machinery failure instead of being attributed to a case");
    // replays always build the thorough seed list so that any recorded seed id can be found
    let seeds = build_seeds(run.tier.is_thorough() || replay.is_some());

    if let Some(c) = replay {
        let id = c["seed"].as_str().unwrap_or("");
        let seed = seeds.iter().find(|s| s.id == id).unwrap_or_else(|| kit::ev::machinery(format!("replay: unknown seed {id}")));
        // re-create the seed from the recorded bytes when the case carries them (exact replay)
        let recorded;
        let seed = match c["signed_hex"].as_str() {
            Some(h) => {
                let a = assets::by_name(seed.fmt);
                recorded = finish_seed(seed.id.clone(), &a, kit::ev::unhex(h), c["detached_hex"].as_str().map(kit::ev::unhex), seed.id.ends_with("/update"));
                &recorded
            }
            None => seed,
        };
        if std::env::var("VERIF_DEBUG").is_ok() {
            std::panic::set_hook(Box::new(|i| eprintln!("panic: {i}\n{}", std::backtrace::Backtrace::force_capture())));
        }
        let sym = c["edit"].as_str().unwrap_or("");
        let e = edits(seed, false)
            .into_iter()
            .find(|e| e.sym == sym)
            .or_else(|| edits(seed, true).into_iter().find(|e| e.sym == sym))
            .unwrap_or_else(|| kit::ev::machinery(format!("replay: seed {id} has no edit `{sym}`")));
        println!("replay C01: seed {} ({} bytes, binding {}, excluded {:?})", seed.id, seed.signed.len(), seed.binding.name(), seed.excl);
        let r = judge(run, seed, &e, true);
        println!("  outcome: {r}");
        return;
    }

    // own the nondeterminism: the same bytes must give the same canonical report twice
    for s in seeds.iter().take(3) {
        let a = s.observe(&s.signed);
        let b = s.observe(&s.signed);
        match (&a, &b) {
            (Obs::Accepted { canon: ca, .. }, Obs::Accepted { canon: cb, .. }) if ca == cb && *ca == s.canon => {}
            _ => kit::ev::machinery(format!("seed {}: two reads of the same bytes differ ({} vs {})", s.id, a.class(), b.class())),
        }
    }

    let mut per_seed = vec![];
    for s in &seeds {
        let ed = edits(s, run.tier.is_thorough());
        run.space(
            &format!(
                "{} ({} bytes, {}, excluded {:?}): {} edits = flips{}/delete/insert/truncate at {} positions + appends + unit edits",
                s.id,
                s.signed.len(),
                s.binding.name(),
                s.excl,
                ed.len(),
                if run.tier.is_thorough() { "(255 values outside the store interior, 3 inside)" } else { "{01,80,FF}" },
                positions(s, run.tier.is_thorough()).len()
            ),
            ed.len() as u64,
            true,
        );
        let counts = std::sync::Mutex::new(std::collections::BTreeMap::<String, u64>::new());
        if std::env::var("VERIF_DRY").is_ok() {
            println!("dry: {} edits for {}", ed.len(), s.id);
            continue;
        }
        par::for_each(&ed, |e| {
            let c = judge(run, s, e, false);
            *counts.lock().unwrap().entry(c).or_insert(0) += 1;
        });
        let counts = counts.into_inner().unwrap();
        for (k, n) in &counts {
            if k != "identity" {
                run.outcome_n(format!("{}:{}", s.binding.name(), k), *n);
            }
        }
        let accepted = counts.get("Valid").copied().unwrap_or(0) + counts.get("Trusted").copied().unwrap_or(0);
        if per_seed.len() < 40 {
            per_seed.push(json!({"seed": s.id, "edits": ed.len(), "accepted_unchanged": accepted, "invalid": counts.get("Invalid").copied().unwrap_or(0)}));
        }
        if s.id == "png/data" || s.id == "mp4/bmff" {
            run.sample(json!({"seed": s.id, "signed_len": s.signed.len(), "declared_excluded": s.excl, "outcomes": counts}));
        }
        if let Some(e) = ed.first() {
            if s.id.ends_with("/box") || s.id.ends_with("/update") {
                run.sample(json!({"seed": s.id, "first_edit": e.to_json(), "outcomes": counts}));
            }
        }
    }
    if !run.tier.is_thorough() {
        run.assume("quick tier: inside the manifest container only the first 64 / last 32 bytes and every 16th interior byte are edited (stated per seed); thorough edits every byte of the file");
    }
    run.extra("per_seed", json!(per_seed));
    run.extra("seeds", json!(seeds.len()));
}

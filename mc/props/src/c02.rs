//! C02 — tamper evidence of manifest store bytes (S-inp, bounded exhaustive).
//!
//! Seeds: manifest shapes {single, ingredient chain of depth 2 (parent + component), depth 3, chain with a redaction,
//! compressed (brob) manifest} x carriers {embedded in a JPEG (data hash / box hash), detached store validated against
//! the unchanged asset}. Every seed must read back Valid.
//! Alphabet: every byte of the store (embedded: of the whole C2PA container incl. its framing) x bit patterns, and
//! JUMBF structure edits from the harness's own box walker on the detached stores: duplicate / delete every box,
//! swap every pair of adjacent siblings, rewrite every label byte, move every assertion box of an ingredient manifest
//! into the active manifest's assertion store (ancestor LBox fields are fixed up so the tree stays well formed).
//! Oracle (property text): Err | Invalid | (Valid/Trusted AND canonical report — manifest content, signature
//! information, validation codes — exactly the seed's). A panic is neither.
//!
//! After a missed independently seeded change (redaction skip of the hashed-URI check keyed on label+instance only):
//! seeds redact-collide/{embedded,detached}, where the active manifest redacts labels from its parent and carries its own
//! assertions with the same labels; their boxes are swept with 3 masks in quick. /tmp/seed-C02/OUT/patch.diff -> 226 new
//! violations, keys `changed-but-accepted redact-collide/* flip at={org.kit.secret,stds.schema-org.CreativeWork}/*`.
//!
//! Mutants caught (quick tier; "caught" = NEW violation keys besides the update-mp4 finding of the unchanged tree):
//!   /verif/mutants/C02-skip-assertion-hash.diff (verify_internal skips the hashed-URI comparison for c2pa.actions*):
//!       60 -> 506 violations, new keys `changed-but-accepted <every seed> flip at=c2pa.actions.v2/cbor`
//!   /verif/mutants/C02-ingredient-hash-mismatch-accepted.diff (ingredient manifest hash mismatch only informational):
//!       60 -> 2000+ violations, new keys `changed-but-accepted chain2/detached flip at=c2pa.signature/cbor`, `... swap-boxes ...`, `... dup-box ...`

use std::{
    collections::hash_map::DefaultHasher,
    hash::{Hash, Hasher},
    io::Cursor,
};

use c2pa::Reader;
use kit::{
    assets, par, sdk,
    tamper::{self, Edit, JBox, Obs, ReadSpec},
    Run,
};
use serde_json::{json, Value};

pub struct Seed {
    pub id: String,
    pub spec: ReadSpec,
    /// embedded: the signed asset; detached: the raw manifest store
    pub bytes: Vec<u8>,
    /// detached: the asset the store is validated against
    pub asset: Option<Vec<u8>>,
    /// the byte range of `bytes` that is swept
    pub range: (usize, usize),
    pub canon: String,
    pub chain: bool,
    /// what the quick tier sweeps: "full3" = every byte x {01,80,FF}; "full2" = x {01,FF}; "fullFF" = every byte x {FF};
    /// "activeFF" = every byte of the active (last) manifest box x {FF}; "hot" = only the `hot` ranges;
    /// "skip" = byte sweep in the thorough tier only (detached stores still get the JUMBF structure edits)
    pub quick: &'static str,
    /// byte ranges (of `bytes`) that get {01,80,FF} in the quick tier whatever the plan, and all 255 values in thorough:
    /// assertion boxes whose label collides with a redacted assertion of another manifest; manifest box headers
    pub hot: Vec<(usize, usize)>,
}

impl Seed {
    pub fn observe(&self, m: &[u8]) -> Obs {
        match &self.asset {
            None => tamper::observe(&self.spec, m),
            Some(a) => tamper::observe_detached(&self.spec, m, a),
        }
    }
}

fn signer() -> Box<dyn c2pa::Signer + Send + Sync> {
    sdk::fixture_signer("ed25519")
}

const JPEG: &str = "image/jpeg";

fn def(title: &str, extra: &str) -> String {
    format!(r#"{{"title":"{title}","claim_generator_info":[{{"name":"kit","version":"1"}}]{extra}}}"#)
}

/// Build a manifest over `src` (a possibly signed JPEG, which becomes the parent) with optional component ingredient,
/// optional redaction and user assertion; embedded or detached.
const SECRET: &str = r#"{"label":"org.kit.secret","data":{"who":"marker-7f3a"}}"#;
const CREATIVE: &str = r#"{"label":"stds.schema-org.CreativeWork","kind":"Json","data":{"@context":"http://schema.org/","@type":"CreativeWork","author":[{"@type":"Person","name":"kit-author"}]}}"#;
const COLLIDING: [&str; 2] = ["org.kit.secret", "stds.schema-org.CreativeWork"];

fn make(title: &str, src: &[u8], component: Option<&[u8]>, redact: Option<&str>, secret: bool, settings: &[&str], detached: bool) -> (Vec<u8>, Vec<u8>) {
    let red: Vec<&str> = redact.into_iter().collect();
    make_ext(title, src, component, &red, if secret { &[SECRET] } else { &[] }, settings, detached)
}

/// Build a manifest over `src` (a possibly signed JPEG, which becomes the parent) with optional component ingredient,
/// redactions and user assertions; embedded or detached.
fn make_ext(title: &str, src: &[u8], component: Option<&[u8]>, redact: &[&str], assertions: &[&str], settings: &[&str], detached: bool) -> (Vec<u8>, Vec<u8>) {
    let mut extra = String::new();
    if !assertions.is_empty() {
        extra.push_str(&format!(r#","assertions":[{}]"#, assertions.join(",")));
    }
    if !redact.is_empty() {
        extra.push_str(&format!(r#","redactions":[{}]"#, redact.iter().map(|u| format!("\"{u}\"")).collect::<Vec<_>>().join(",")));
    }
    let mut b = sdk::builder(sdk::ctx_with(settings), &def(title, &extra));
    if let Some(c) = component {
        b.add_ingredient_from_stream(r#"{"title":"component","relationship":"componentOf"}"#, "image/png", &mut Cursor::new(c))
            .unwrap_or_else(|e| kit::ev::machinery(format!("C02 seed {title}: component ingredient: {e:?}")));
    }
    for uri in redact {
        b.add_action(json!({"action":"c2pa.redacted","reason":"c2pa.PII.present","parameters":{"redacted": uri}}))
            .unwrap_or_else(|e| kit::ev::machinery(format!("C02 seed {title}: redacted action: {e:?}")));
    }
    b.set_no_embed(detached);
    sdk::sign(&mut b, signer().as_ref(), JPEG, src).unwrap_or_else(|e| kit::ev::machinery(format!("C02 seed {title}: {e:?}")))
}

/// Ranges (in seed.bytes) of every assertion box, in any manifest, whose label is one of `labels`.
fn boxes_labelled(seed: &Seed, labels: &[&str]) -> Vec<(usize, usize)> {
    let (bx, base) = store_boxes(seed);
    let bx = bx.unwrap_or_else(|| kit::ev::machinery(format!("C02 seed {}: JUMBF walker cannot parse the store", seed.id)));
    bx.iter().filter(|b| b.label.as_deref().map(|l| labels.contains(&l)).unwrap_or(false)).map(|b| (base + b.start, base + b.end)).collect()
}

fn finish(id: &str, bytes: Vec<u8>, asset: Option<Vec<u8>>, chain: bool, quick: &'static str) -> Seed {
    finish_mime(id, JPEG, bytes, asset, chain, quick)
}

fn finish_mime(id: &str, mime: &str, bytes: Vec<u8>, asset: Option<Vec<u8>>, chain: bool, quick: &'static str) -> Seed {
    let spec = ReadSpec { mime: mime.into(), settings: vec![] };
    let ctx = tamper::ctx_for(&spec.settings);
    let rd = match &asset {
        None => Reader::from_shared_context(&ctx).with_stream(mime, Cursor::new(&bytes)),
        Some(a) => Reader::from_shared_context(&ctx).with_manifest_data_and_stream(&bytes, mime, Cursor::new(a)),
    }
    .unwrap_or_else(|e| kit::ev::machinery(format!("C02 seed {id} does not read back: {e:?}")));
    if sdk::state_name(rd.validation_state()) == "Invalid" {
        kit::ev::machinery(format!("C02 seed {id} reads back Invalid: {:?}", kit::canon::codes(&rd)));
    }
    let range = match &asset {
        Some(_) => (0, bytes.len()),
        None if tamper::family(mime) == "bmff" => {
            // BMFF keeps an update manifest in a C2PA box of its own (purpose "update") behind the media: sweep that box
            let bx = tamper::bmff_c2pa_boxes(&bytes).unwrap_or_default();
            match bx.last() {
                Some((s, e, _)) if bx.len() == 2 => (*s, *e),
                _ => kit::ev::machinery(format!("C02 seed {id}: expected an original and an update C2PA box, found {}", bx.len())),
            }
        }
        None => tamper::c2pa_container("jpeg", &bytes).unwrap_or_else(|| kit::ev::machinery(format!("C02 seed {id}: walker cannot find the C2PA container"))),
    };
    Seed { id: id.into(), spec, bytes, asset, range, canon: tamper::canon_report(&rd), chain, quick, hot: vec![] }
}

pub fn build_seeds() -> Vec<Seed> {
    let s = signer();
    let jpeg = assets::jpeg();
    let png_signed = sdk::sign_simple(s.as_ref(), "image/png", &assets::png(), &[]);
    let mut v = vec![];
    // single
    let (e, _) = make("single", &jpeg, None, None, false, &[], false);
    v.push(finish("single/embedded", e, None, false, "full3"));
    let (a, m) = make("single", &jpeg, None, None, false, &[], true);
    v.push(finish("single/detached", m, Some(a), false, "fullFF"));
    // compressed
    let (e, _) = make("compressed", &jpeg, None, None, false, &[super::c01::COMPRESS], false);
    v.push(finish("compressed/embedded", e, None, false, "full2"));
    // chain: A (signed, with a redactable assertion) <- B (parentOf A, componentOf signed PNG) <- C
    let (a_signed, _) = make("A", &jpeg, None, None, true, &[], false);
    let (b_signed, _) = make("B", &a_signed, Some(&png_signed), None, false, &[], false);
    v.push(finish("chain2/embedded", b_signed.clone(), None, true, "skip"));
    let (ast, m) = make("B", &a_signed, Some(&png_signed), None, false, &[], true);
    v.push(finish("chain2/detached", m, Some(ast), true, "skip"));
    let (c_signed, _) = make("C", &b_signed, None, None, false, &[], false);
    v.push(finish("chain3/embedded", c_signed, None, true, "skip"));
    let (ast, m) = make("C", &b_signed, None, None, false, &[], true);
    v.push(finish("chain3/detached", m, Some(ast), true, "skip"));
    // redaction: R edits A and redacts A's org.kit.secret
    let a_label = {
        let rd = sdk::read(sdk::ctx(), JPEG, &a_signed).unwrap_or_else(|e| kit::ev::machinery(format!("C02: A: {e:?}")));
        rd.active_label().unwrap_or("").to_string()
    };
    let uri = format!("self#jumbf=/c2pa/{a_label}/c2pa.assertions/org.kit.secret");
    let (r_signed, _) = make("R", &a_signed, None, Some(&uri), false, &[], false);
    let sd = finish("redaction/embedded", r_signed.clone(), None, true, "skip");
    if r_signed.windows(11).any(|w| w == b"marker-7f3a") {
        eprintln!("note: C02 redaction seed still contains the redacted payload (C20 territory)");
    }
    v.push(sd);
    let (ast, m) = make("R", &a_signed, None, Some(&uri), false, &[], true);
    v.push(finish("redaction/detached", m, Some(ast), true, "skip"));
    // redaction with label collisions: A2 carries org.kit.secret and a CreativeWork; the component PNG carries org.kit.secret too;
    // RC (active) redacts BOTH from A2 and carries its own assertions with the SAME labels and instance.
    let (a2_signed, _) = make_ext("A2", &jpeg, None, &[], &[SECRET, CREATIVE], &[], false);
    let a2_label = {
        let rd = sdk::read(sdk::ctx(), JPEG, &a2_signed).unwrap_or_else(|e| kit::ev::machinery(format!("C02: A2: {e:?}")));
        rd.active_label().unwrap_or("").to_string()
    };
    let png_secret = {
        let mut b = sdk::builder(sdk::ctx(), &def("P2", &format!(r#","assertions":[{SECRET}]"#)));
        sdk::sign(&mut b, s.as_ref(), "image/png", &assets::png()).unwrap_or_else(|e| kit::ev::machinery(format!("C02 seed P2: {e:?}"))).0
    };
    let uris: Vec<String> = COLLIDING.iter().map(|l| format!("self#jumbf=/c2pa/{a2_label}/c2pa.assertions/{l}")).collect();
    let uri_refs: Vec<&str> = uris.iter().map(|u| u.as_str()).collect();
    for detached in [false, true] {
        let (x, m) = make_ext("RC", &a2_signed, Some(&png_secret), &uri_refs, &[SECRET, CREATIVE], &[], detached);
        let mut sd = if detached { finish("redact-collide/detached", m, Some(x), true, "activeFF") } else { finish("redact-collide/embedded", x, None, true, "hot") };
        sd.hot = boxes_labelled(&sd, &COLLIDING);
        if sd.hot.len() < 3 {
            kit::ev::machinery(format!("C02 seed {}: expected >= 3 assertion boxes with colliding labels (active x2, component x1), found {}", sd.id, sd.hot.len()));
        }
        v.push(sd);
    }
    // update manifest on BMFF: lives in a second C2PA box (purpose "update"); chain U <- P
    let mp4 = assets::by_name("mp4");
    let p_signed = sdk::sign_simple(s.as_ref(), mp4.mime, &mp4.data, &[]);
    let u_signed = super::c01::sign_update(mp4.mime, &p_signed, &[]);
    let mut sd = finish_mime("update-mp4/embedded", mp4.mime, u_signed, None, true, "fullFF");
    sd.hot = vec![(sd.range.0, (sd.range.0 + 256).min(sd.range.1))]; // C2PA box header, store and manifest box headers
    v.push(sd);
    v
}

fn byte_edits(seed: &Seed, thorough: bool) -> (Vec<Edit>, String) {
    let f = &seed.bytes;
    let mut range = seed.range;
    let masks: Vec<u8> = if thorough {
        if seed.chain {
            vec![0x01, 0x02, 0x04, 0x08, 0x10, 0x20, 0x40, 0x80, 0xFF]
        } else {
            (1..=255).collect()
        }
    } else {
        match seed.quick {
            "full3" => vec![0x01, 0x80, 0xFF],
            "full2" => vec![0x01, 0xFF],
            "fullFF" => vec![0xFF],
            "activeFF" => {
                // the active manifest = last child box of the store's root superbox
                let bx = tamper::walk_jumbf(f).unwrap_or_else(|| kit::ev::machinery(format!("C02 seed {}: JUMBF walker cannot parse the store", seed.id)));
                let last = bx.iter().filter(|b| b.depth == 1 && b.typ == "jumb").last().unwrap_or_else(|| kit::ev::machinery("C02: store without manifest box"));
                range = (last.start, last.end);
                vec![0xFF]
            }
            _ => vec![],
        }
    };
    let hot_masks: Vec<u8> = if thorough { (1..=255).collect() } else { vec![0x01, 0x80, 0xFF] };
    let in_hot = |p: usize| seed.hot.iter().any(|(s, e)| p >= *s && p < *e);
    let mut v = vec![];
    for p in seed.range.0..seed.range.1 {
        let ms: &[u8] = if in_hot(p) {
            &hot_masks
        } else if p >= range.0 && p < range.1 {
            &masks
        } else {
            &[]
        };
        for m in ms {
            v.push(Edit::flip(f, p, *m));
        }
    }
    let render = |m: &[u8]| if m.len() > 9 { "01..ff (all 255)".to_string() } else { format!("{m:02x?}") };
    let mut what = if masks.is_empty() { "main sweep: none in the quick tier".to_string() } else { format!("every byte of [{}, {}) x xor masks {}", range.0, range.1, render(&masks)) };
    if !seed.hot.is_empty() {
        what.push_str(&format!("; every byte of {:?} (colliding-label assertion boxes / box headers) x {}", seed.hot, render(&hot_masks)));
    }
    (v, what)
}

/// Structure edits on a detached store. Each is realised as a replacement of the whole store; `sym` names the box by its
/// pre-order index in the harness's JUMBF walk, which is stable across re-signing.
fn structure_edits(seed: &Seed) -> Vec<Edit> {
    let s = &seed.bytes;
    let Some(boxes) = tamper::walk_jumbf(s) else {
        kit::ev::machinery(format!("C02 seed {}: JUMBF walker cannot parse the store", seed.id));
    };
    let whole = |kind: &'static str, v: Vec<u8>, sym: String| Edit::splice(kind, 0, s.len(), v, sym);
    let raw = |start: usize, end: usize, rep: Vec<u8>| Edit::splice("edit", start, end, rep, String::new()).apply(s);
    let mut out = vec![];
    for (i, b) in boxes.iter().enumerate() {
        if b.depth == 0 {
            continue; // the root superbox: duplicating it is "append a second store", covered by C01 appends
        }
        let body = s[b.start..b.end].to_vec();
        let len = body.len() as i64;
        // duplicate
        let mut d = raw(b.end, b.end, body.clone());
        if tamper::fix_ancestor_sizes(&mut d, &boxes, b.parent, len).is_some() {
            out.push(whole("dup-box", d, format!("jumbf dup box={i}")));
        }
        // delete
        let mut d = raw(b.start, b.end, vec![]);
        if tamper::fix_ancestor_sizes(&mut d, &boxes, b.parent, -len).is_some() {
            out.push(whole("del-box", d, format!("jumbf del box={i}")));
        }
        // swap with next sibling
        if let Some(n) = boxes.iter().skip(i + 1).find(|n| n.parent == b.parent && n.start == b.end) {
            let mut r = s[n.start..n.end].to_vec();
            r.extend_from_slice(&body);
            out.push(whole("swap-boxes", raw(b.start, n.end, r), format!("jumbf swap box={i} with next sibling")));
        }
        // label: a two-byte UTF-8 character at the start of the label / of its last dot-separated component
        // (a single-byte edit can never produce valid multi-byte UTF-8, a hostile writer can)
        if let Some((ls, le)) = b.label_range {
            let last = s[ls..le].iter().rposition(|c| *c == b'.').map(|d| ls + d + 1).unwrap_or(ls);
            for (what, p) in [("first", ls), ("last-component", last)] {
                if p + 2 <= le && !(what == "last-component" && last == ls) {
                    out.push(whole("label-utf8", raw(p, p + 2, vec![0xC3, 0xA9]), format!("jumbf label box={i} two-byte utf8 char at {what}")));
                }
            }
        }
        // label bytes
        if let Some((ls, le)) = b.label_range {
            for p in ls..le {
                for (mode, c) in [("x", b'x'), ("case", s[p] ^ 0x20), ("inc", s[p].wrapping_add(1))] {
                    if c != s[p] && c != 0 {
                        out.push(whole("label", raw(p, p + 1, vec![c]), format!("jumbf label box={i} byte={} mode={mode}", p - ls)));
                    }
                }
            }
        }
    }
    // move / copy assertion boxes of ingredient manifests into the active (= last) manifest's assertion store
    let manifests: Vec<usize> = boxes.iter().enumerate().filter(|(_, b)| b.depth == 1 && b.typ == "jumb").map(|(i, _)| i).collect();
    if manifests.len() >= 2 {
        let active = *manifests.last().unwrap();
        let astore = |m: usize, bx: &[JBox]| bx.iter().position(|b| b.parent == Some(m) && b.label.as_deref() == Some("c2pa.assertions"));
        for &m in &manifests[..manifests.len() - 1] {
            let Some(src_store) = astore(m, &boxes) else { continue };
            for (ai, a) in boxes.iter().enumerate().filter(|(_, b)| b.parent == Some(src_store) && b.typ == "jumb") {
                let body = s[a.start..a.end].to_vec();
                // move: delete at the source, re-walk (offsets moved), insert at the end of the active assertion store
                let mut d = raw(a.start, a.end, vec![]);
                if tamper::fix_ancestor_sizes(&mut d, &boxes, a.parent, -(body.len() as i64)).is_some() {
                    if let Some(b2) = tamper::walk_jumbf(&d) {
                        let m2: Vec<usize> = b2.iter().enumerate().filter(|(_, b)| b.depth == 1 && b.typ == "jumb").map(|(i, _)| i).collect();
                        if let Some(dst) = m2.last().and_then(|l| astore(*l, &b2)) {
                            let at = b2[dst].end;
                            let mut d2 = Edit::splice("edit", at, at, body.clone(), String::new()).apply(&d);
                            if tamper::fix_ancestor_sizes(&mut d2, &b2, Some(dst), body.len() as i64).is_some() {
                                out.push(whole("move-box", d2, format!("jumbf move assertion box={ai} into active assertion store")));
                            }
                        }
                    }
                }
                // copy (source kept)
                if let Some(dst0) = astore(active, &boxes) {
                    let at0 = boxes[dst0].end;
                    let mut d3 = raw(at0, at0, body.clone());
                    if tamper::fix_ancestor_sizes(&mut d3, &boxes, Some(dst0), body.len() as i64).is_some() {
                        out.push(whole("copy-box", d3, format!("jumbf copy assertion box={ai} into active assertion store")));
                    }
                }
            }
        }
    }
    out
}

fn region_of(seed: &Seed, boxes: &Option<Vec<JBox>>, base: usize, p: usize) -> String {
    // innermost JUMBF box path by type/label, for violation keys
    let Some(bx) = boxes else { return "container".into() };
    if p < base {
        return "framing".into();
    }
    let q = p - base;
    let mut best: Option<&JBox> = None;
    for b in bx {
        if q >= b.start && q < b.end && best.map(|x| b.depth >= x.depth).unwrap_or(true) {
            best = Some(b);
        }
    }
    let _ = seed;
    match best {
        None => "outside-boxes".into(),
        Some(b) => {
            // name = label of nearest labelled ancestor + box type
            let mut cur = Some(b);
            let mut lab = None;
            while let Some(c) = cur {
                if let Some(l) = &c.label {
                    lab = Some(l.clone());
                    break;
                }
                cur = c.parent.map(|i| &bx[i]);
            }
            let lab = lab.unwrap_or_default();
            let lab = if lab.starts_with("urn:") { "manifest".to_string() } else { lab };
            format!("{}/{}", lab, b.typ)
        }
    }
}

pub fn judge(run: &Run, seed: &Seed, e: &Edit, boxes: &Option<Vec<JBox>>, base: usize, verbose: bool) -> String {
    let m = e.apply(&seed.bytes);
    if m == seed.bytes {
        return "identity".into();
    }
    let obs = seed.observe(&m);
    run.eval();
    let class = obs.class();
    // the case stores the edit compactly; whole-store structure edits are stored as the diff region only
    // the exact seed bytes are recorded: labels, hashes and (for compressed stores) the byte layout differ between signings
    let case = json!({"seed": seed.id, "edit": e.to_json(), "bytes_hex": kit::ev::hex(&seed.bytes), "asset_hex": seed.asset.as_ref().map(|a| kit::ev::hex(a))});
    if verbose {
        println!("  seed={} edit kind={} -> {}", seed.id, e.kind, class);
    }
    let shape = seed.id.as_str();
    match &obs {
        Obs::Panic(p) => {
            run.violation(format!("panic {shape} {}", tamper::panic_key(p)), format!("reader panicked on a {} mutant of {}: {p}", e.kind, seed.id), case);
        }
        Obs::Err(_) => {}
        Obs::Invalid => {
            let mut h = DefaultHasher::new();
            m.hash(&mut h);
            run.nontrivial(format!("{}:{:x}", seed.id, h.finish()));
        }
        Obs::Accepted { state, canon } => {
            let mut h = DefaultHasher::new();
            m.hash(&mut h);
            run.nontrivial(format!("{}:{:x}", seed.id, h.finish()));
            if *canon != seed.canon {
                if verbose && std::env::var("VERIF_DEBUG").is_ok() {
                    let _ = std::fs::write(kit::ev::out_root().join("debug-canon-seed.json"), &seed.canon);
                    let _ = std::fs::write(kit::ev::out_root().join("debug-canon-mutant.json"), canon);
                }
                let first = tamper::first_diff(&seed.bytes, &m);
                if std::env::var("VERIF_LIST_VIOLATIONS").is_ok() {
                    eprintln!("VIOL {} {}", seed.id, e.sym);
                }
                let at = region_of(seed, boxes, base, first);
                run.violation(
                    format!("changed-but-accepted {shape} {} at={at}", e.kind),
                    format!(
                        "seed {}: `{}` (first differing store byte {first}, in {at}) is read as {state} but the report differs from the seed's: {}",
                        seed.id,
                        e.sym,
                        diff_hint(&seed.canon, canon)
                    ),
                    case,
                );
                return "VIOLATION".into();
            }
        }
    }
    class
}

fn diff_hint(a: &str, b: &str) -> String {
    let p = a.bytes().zip(b.bytes()).position(|(x, y)| x != y).unwrap_or(a.len().min(b.len()));
    let lo = p.saturating_sub(60);
    let cut = |s: &str| -> String { s.chars().skip(lo).take(160).collect() };
    format!("seed report ...{}... vs mutant report ...{}...", cut(a), cut(b))
}

fn store_boxes(seed: &Seed) -> (Option<Vec<JBox>>, usize) {
    match &seed.asset {
        Some(_) => (tamper::walk_jumbf(&seed.bytes), 0),
        None if tamper::family(&seed.spec.mime) == "bmff" => match tamper::bmff_c2pa_boxes(&seed.bytes).and_then(|b| b.last().copied()) {
            Some((_, e, j)) => (tamper::walk_jumbf(&seed.bytes[j..e]), j),
            None => (None, 0),
        },
        None => match tamper::jumbf_payload("jpeg", &seed.bytes) {
            Some((s, e)) => (tamper::walk_jumbf(&seed.bytes[s..e]), s),
            None => (None, 0),
        },
    }
}

pub fn run(run: &Run, replay: Option<&Value>) {
    run.rule("one edit of the manifest store per case; non-trivial = distinct mutant byte strings on which the reader reached a validation verdict (Invalid, Valid or Trusted) rather than a parse error");
    run.assume("carrier is the kit's 161-byte JPEG; stores are 4-16 KB and sit in one APP11 segment; repository Ed25519 test credentials; no time-stamp, so unprotected COSE header token bytes are not in play (C36)");
    run.assume("single edits only; structure edits keep the box tree well formed by fixing the 32-bit LBox of every ancestor");
    run.assume("hostile bytes are read in-process under catch_unwind");
    run.assume("report equality is taken after canonicalisation (tamper::canon_report): random labels / instance ids renamed, validation time dropped, lists of validation statuses and of ingredient deltas compared as unordered collections");
    let seeds = build_seeds();
    if let Some(c) = replay {
        let id = c["seed"].as_str().unwrap_or("");
        let seed = seeds.iter().find(|s| s.id == id).unwrap_or_else(|| kit::ev::machinery(format!("replay: unknown seed {id}")));
        // re-create the seed from the recorded bytes when the case carries them (exact replay)
        let recorded;
        let seed = match c["bytes_hex"].as_str() {
            Some(h) => {
                recorded = finish_mime(&seed.id, &seed.spec.mime, kit::ev::unhex(h), c["asset_hex"].as_str().map(kit::ev::unhex), seed.chain, seed.quick);
                &recorded
            }
            None => seed,
        };
        if std::env::var("VERIF_DEBUG").is_ok() {
            std::panic::set_hook(Box::new(|i| eprintln!("panic: {i}\n{}", std::backtrace::Backtrace::force_capture())));
        }
        let sym = c["edit"].as_str().unwrap_or("");
        let mut all = byte_edits(seed, false).0;
        all.extend(byte_edits(seed, true).0);
        if seed.asset.is_some() {
            all.extend(structure_edits(seed));
        }
        let e = all.into_iter().find(|e| e.sym == sym).unwrap_or_else(|| kit::ev::machinery(format!("replay: seed {id} has no edit `{sym}`")));
        let (bx, base) = store_boxes(seed);
        println!("replay C02: seed {} ({} bytes, swept range {:?})", seed.id, seed.bytes.len(), seed.range);
        println!("  outcome: {}", judge(run, seed, &e, &bx, base, true));
        return;
    }
    for s in seeds.iter().take(2) {
        let (a, b) = (s.observe(&s.bytes), s.observe(&s.bytes));
        match (&a, &b) {
            (Obs::Accepted { canon: ca, .. }, Obs::Accepted { canon: cb, .. }) if ca == cb && *ca == s.canon => {}
            _ => kit::ev::machinery(format!("C02 seed {}: two reads of the same bytes differ", s.id)),
        }
    }
    let mut per_seed = vec![];
    for s in &seeds {
        if std::env::var("VERIF_ONLY_SEED").map(|o| o != s.id).unwrap_or(false) {
            continue;
        }
        let (bx, base) = store_boxes(s);
        let (mut ed, what) = byte_edits(s, run.tier.is_thorough());
        if ed.is_empty() && s.asset.is_none() {
            continue; // embedded chain carriers: thorough tier only
        }
        let nbytes = ed.len();
        let mut nstruct = 0;
        if s.asset.is_some() {
            let st = structure_edits(s);
            nstruct = st.len();
            ed.extend(st);
        }
        run.space(
            &format!("{} ({} store bytes): {what} = {nbytes} edits + {nstruct} JUMBF structure edits", s.id, s.range.1 - s.range.0),
            ed.len() as u64,
            true,
        );
        let counts = std::sync::Mutex::new(std::collections::BTreeMap::<String, u64>::new());
        if std::env::var("VERIF_DRY").is_ok() {
            println!("dry: {} edits for {}", ed.len(), s.id);
            continue;
        }
        par::for_each(&ed, |e| {
            let c = judge(run, s, e, &bx, base, false);
            *counts.lock().unwrap().entry(format!("{}:{}", if e.kind == "flip" { "byte" } else { "struct" }, c)).or_insert(0) += 1;
        });
        let counts = counts.into_inner().unwrap();
        if std::env::var("VERIF_TIMING").is_ok() {
            eprintln!("timing: {} done at {:.1}s ({} edits)", s.id, run.elapsed(), ed.len());
        }
        for (k, n) in &counts {
            if !k.ends_with("identity") {
                run.outcome_n(k.clone(), *n);
            }
        }
        per_seed.push(json!({"seed": s.id, "store_bytes": s.range.1 - s.range.0, "boxes": bx.as_ref().map(|b| b.len()), "outcomes": counts}));
        if per_seed.len() <= 3 {
            run.sample(json!({"seed": s.id, "swept": [s.range.0, s.range.1], "first_edit": ed.first().map(|e| e.to_json()), "outcomes": counts}));
        }
    }
    run.extra("per_seed", json!(per_seed));
}

//! C30 — remote manifest references round-trip through XMP; embedding preserves pre-existing XMP properties.
//!
//! S-inp, level exploration. For every kit asset whose handler supports remote references
//! (`verif_hooks::supports_remote_ref`), with and without pre-existing XMP (kit jpeg/png XMP variants plus a JPEG with a
//! rich packet: entities, numeric character references, non-ASCII, nested elements, comment, CDATA, an existing
//! dcterms:provenance; and a JPEG whose packet has a single-quoted attribute containing a double quote), and for every URL
//! of the grammar path x query x fragment (query strings, fragments, percent escapes, each of & < > " ' and non-ASCII in
//! every position; thorough adds host / port / userinfo / scheme variants): sign with Builder::set_remote_url +
//! set_no_embed(true), then read with remote fetching disabled.
//!
//! Oracle: when signing succeeds the read must fail with Error::RemoteManifestUrl(u) and u must equal the input URL.
//! Because the SDK stores `url::Url::parse(input).to_string()`, a `u` that differs from the input only by URL
//! normalisation (percent-encoding of characters, host case, default port, empty path) is accepted and counted as
//! `normalised-equivalent`; anything else (e.g. XML entities left in the value) is a violation. Every property
//! (attribute or child element of rdf:Description) of the original packet, extracted by the harness's own tiny XMP
//! parser, must be present with the same value in the packet read back from the signed asset (dcterms:provenance itself
//! excepted).
//!
//! Mutants caught (tools/mutant_run.sh D <patch> C30 quick):
//!   C30-drop-existing-attrs.diff   (add_xmp_key no longer copies the other attributes of rdf:Description)
//!   C30-strip-fragment.diff        (the stored remote URL loses its fragment)

use std::collections::BTreeMap;

use kit::{assets, par, sdk, Run};
use serde_json::{json, Value};

static CAP: kit::net::KeyCap = kit::net::KeyCap::new(40);
const DEF: &str = r#"{"title":"t","claim_generator_info":[{"name":"verif","version":"1"}]}"#;

// ---------------------------------------------------------------------------------------------
// URL grammar
// ---------------------------------------------------------------------------------------------

fn urls(thorough: bool) -> Vec<String> {
    let mut paths = vec!["m.c2pa", "a%20b/m%2Fn", "p&q/m", "it's/m;v=1,2"];
    let mut queries = vec!["", "?a=1", "?a=1&b=2", "?x='y'", "?q=%26%3C%3E%22%27", "?x=\"y\"&z=<w>", "?k=ü&j=日本"];
    let mut frags = vec!["", "#f", "#a&b='c'", "#<t>\"q\"ü"];
    if thorough {
        paths.extend(["<p>/\"q\"/m", "ü/日本/m", "(x)!*$:@+~/m", "a&amp;b/m"]);
        queries.extend(["?a=1&amp;b=2", "?a=&lt;&gt;&quot;&apos;", "?&&", "?x=%", "?a=1;b=2", "?a[]=1&a[]=2"]);
        frags.extend(["#%23", "#&amp;", "#a=1&b=2"]);
    }
    let mut v = vec![];
    for p in &paths {
        for q in &queries {
            for f in &frags {
                v.push(format!("https://h.example/{p}{q}{f}"));
            }
        }
    }
    if thorough {
        for auth in ["H.Example", "bücher.example", "h.example:8443", "h.example:443", "u:p@h.example", "[2001:db8::1]", "h.example."] {
            for tail in ["/m?a=1&b=2#f", "", "/"] {
                v.push(format!("https://{auth}{tail}"));
                v.push(format!("http://{auth}{tail}"));
            }
        }
    }
    v
}

// ---------------------------------------------------------------------------------------------
// URL equivalence modulo normalisation (harness side, independent of the `url` crate)
// ---------------------------------------------------------------------------------------------

fn pct_decode(s: &str) -> Vec<u8> {
    let b = s.as_bytes();
    let mut out = vec![];
    let mut i = 0;
    while i < b.len() {
        if b[i] == b'%' && i + 2 < b.len() {
            if let (Some(h), Some(l)) = ((b[i + 1] as char).to_digit(16), (b[i + 2] as char).to_digit(16)) {
                out.push((h * 16 + l) as u8);
                i += 3;
                continue;
            }
        }
        out.push(b[i]);
        i += 1;
    }
    out
}

/// (scheme, authority, rest) with scheme/authority lower-cased, default port dropped, empty path -> "/".
fn url_parts(u: &str) -> Option<(String, String, Vec<u8>)> {
    let i = u.find("://")?;
    let scheme = u[..i].to_ascii_lowercase();
    let rest = &u[i + 3..];
    let end = rest.find(['/', '?', '#']).unwrap_or(rest.len());
    let mut auth = rest[..end].to_lowercase();
    let dflt = if scheme == "https" { ":443" } else { ":80" };
    if let Some(a) = auth.strip_suffix(dflt) {
        auth = a.to_string();
    }
    let mut tail = rest[end..].to_string();
    if !tail.starts_with('/') {
        tail = format!("/{tail}");
    }
    Some((scheme, auth, pct_decode(&tail)))
}

#[derive(PartialEq, Debug)]
enum UrlCmp {
    Identical,
    NormalisedEquivalent,
    Different,
}

fn compare_urls(got: &str, input: &str) -> UrlCmp {
    if got == input {
        return UrlCmp::Identical;
    }
    match (url_parts(got), url_parts(input)) {
        (Some((s1, a1, t1)), Some((s2, a2, t2))) => {
            let auth_ok = a1 == a2 || (!a2.is_ascii() && a1.contains("xn--")); // IDNA ToASCII of a non-ASCII host
            if s1 == s2 && auth_ok && t1 == t2 {
                UrlCmp::NormalisedEquivalent
            } else {
                UrlCmp::Different
            }
        }
        _ => UrlCmp::Different,
    }
}

fn xml_unescape(s: &str) -> Option<String> {
    let mut out = String::new();
    let mut rest = s;
    while let Some(i) = rest.find('&') {
        out.push_str(&rest[..i]);
        let after = &rest[i + 1..];
        let semi = after.find(';')?;
        let ent = &after[..semi];
        let ch = match ent {
            "amp" => '&',
            "lt" => '<',
            "gt" => '>',
            "quot" => '"',
            "apos" => '\'',
            _ if ent.starts_with("#x") || ent.starts_with("#X") => char::from_u32(u32::from_str_radix(&ent[2..], 16).ok()?)?,
            _ if ent.starts_with('#') => char::from_u32(ent[1..].parse().ok()?)?,
            _ => return None,
        };
        out.push(ch);
        rest = &after[semi + 1..];
    }
    out.push_str(rest);
    Some(out)
}

// ---------------------------------------------------------------------------------------------
// tiny XMP property extractor (harness side)
// ---------------------------------------------------------------------------------------------

/// Properties of every rdf:Description: "@name" -> unescaped attribute value, "name" -> raw inner XML of a child element.
fn xmp_props(xmp: &str) -> Result<BTreeMap<String, String>, String> {
    let mut props = BTreeMap::new();
    let mut pos = 0;
    let mut found = false;
    while let Some(i) = xmp[pos..].find("<rdf:Description") {
        found = true;
        let start = pos + i + "<rdf:Description".len();
        // attributes
        let b = xmp.as_bytes();
        let mut j = start;
        let self_closing;
        loop {
            while j < b.len() && (b[j] as char).is_ascii_whitespace() {
                j += 1;
            }
            if j >= b.len() {
                return Err("unterminated rdf:Description start tag".into());
            }
            if b[j] == b'>' {
                self_closing = false;
                j += 1;
                break;
            }
            if b[j] == b'/' && b.get(j + 1) == Some(&b'>') {
                self_closing = true;
                j += 2;
                break;
            }
            let name_start = j;
            while j < b.len() && b[j] != b'=' && !(b[j] as char).is_ascii_whitespace() && b[j] != b'>' && b[j] != b'/' {
                j += 1;
            }
            let name = &xmp[name_start..j];
            if name.is_empty() || name.contains(['"', '\'', '<']) {
                return Err(format!("malformed attribute name near byte {name_start}: {:?}", &xmp[name_start..(name_start + 24).min(xmp.len())]));
            }
            while j < b.len() && (b[j] as char).is_ascii_whitespace() {
                j += 1;
            }
            if b.get(j) != Some(&b'=') {
                return Err(format!("attribute {name} has no value"));
            }
            j += 1;
            while j < b.len() && (b[j] as char).is_ascii_whitespace() {
                j += 1;
            }
            let q = *b.get(j).ok_or("eof in attribute")?;
            if q != b'"' && q != b'\'' {
                return Err(format!("attribute {name} value is not quoted"));
            }
            j += 1;
            let vstart = j;
            while j < b.len() && b[j] != q {
                j += 1;
            }
            if j >= b.len() {
                return Err(format!("attribute {name} value is not terminated"));
            }
            let raw = &xmp[vstart..j];
            j += 1;
            // after a value there must be whitespace, '>' or '/>'
            match b.get(j) {
                Some(c) if (*c as char).is_ascii_whitespace() || *c == b'>' || *c == b'/' => {}
                _ => return Err(format!("garbage after the value of attribute {name}")),
            }
            if raw.contains('<') {
                return Err(format!("attribute {name} value contains '<'"));
            }
            let val = xml_unescape(raw).ok_or(format!("attribute {name} has a malformed entity: {raw}"))?;
            props.insert(format!("@{name}"), val);
        }
        pos = j;
        if self_closing {
            continue;
        }
        // child elements until </rdf:Description>
        let end = xmp[pos..].find("</rdf:Description>").ok_or("rdf:Description not closed")? + pos;
        let body = &xmp[pos..end];
        let mut k = 0;
        while let Some(lt) = body[k..].find('<') {
            let s = k + lt;
            if body[s..].starts_with("<!--") {
                k = s + body[s..].find("-->").ok_or("comment not closed")? + 3;
                continue;
            }
            if body[s..].starts_with("<?") {
                k = s + body[s..].find("?>").ok_or("PI not closed")? + 2;
                continue;
            }
            let name_end = body[s + 1..].find(|c: char| c.is_ascii_whitespace() || c == '>' || c == '/').ok_or("child start tag")? + s + 1;
            let name = &body[s + 1..name_end];
            let tag_end = body[s..].find('>').ok_or("child start tag not closed")? + s;
            if body[..tag_end].ends_with('/') {
                props.insert(name.to_string(), String::new());
                k = tag_end + 1;
                continue;
            }
            let close = format!("</{name}>");
            let c = body[tag_end..].find(&close).ok_or(format!("child {name} not closed"))? + tag_end;
            props.insert(name.to_string(), body[tag_end + 1..c].trim().to_string());
            k = c + close.len();
        }
        pos = end;
    }
    if !found {
        return Err("no rdf:Description".into());
    }
    Ok(props)
}

// ---------------------------------------------------------------------------------------------
// assets
// ---------------------------------------------------------------------------------------------

fn jpeg_with_packet(xmp: &str) -> Vec<u8> {
    let base = assets::jpeg();
    let mut seg = b"http://ns.adobe.com/xap/1.0/\0".to_vec();
    seg.extend_from_slice(xmp.as_bytes());
    let mut v = base[..20].to_vec();
    v.extend_from_slice(&[0xFF, 0xE1]);
    v.extend_from_slice(&((seg.len() + 2) as u16).to_be_bytes());
    v.extend(seg);
    v.extend_from_slice(&base[20..]);
    v
}

fn rich_packet() -> String {
    "<?xpacket begin=\"\u{feff}\" id=\"W5M0MpCehiHzreSzNTczkc9d\"?>\n<x:xmpmeta xmlns:x=\"adobe:ns:meta/\" x:xmptk=\"verif\">\n <rdf:RDF xmlns:rdf=\"http://www.w3.org/1999/02/22-rdf-syntax-ns#\">\n  <rdf:Description rdf:about=\"\"\n    xmlns:dc=\"http://purl.org/dc/elements/1.1/\" xmlns:xmp=\"http://ns.adobe.com/xap/1.0/\"\n    xmlns:dcterms=\"http://purl.org/dc/terms/\" xmlns:v=\"http://verif.example/ns/\"\n    xmp:CreatorTool=\"kit &amp; co &lt;1&gt;\" v:apos=\"it&apos;s\" v:quot=\"say &quot;hi&quot;\" v:num=\"&#x41;&#66;\" v:uni=\"größe ✓\" v:ws=\"  two  spaces  \"\n    dcterms:provenance=\"https://old.example/old?x=1&amp;y=2\">\n   <dc:title><rdf:Alt><rdf:li xml:lang=\"x-default\">T &amp; t</rdf:li></rdf:Alt></dc:title>\n   <xmp:Rating>3</xmp:Rating>\n   <v:empty/>\n   <!-- a comment -->\n   <v:cdata><![CDATA[a < b & c]]></v:cdata>\n  </rdf:Description>\n </rdf:RDF>\n</x:xmpmeta>\n<?xpacket end=\"w\"?>"
        .to_string()
}

fn squote_packet() -> String {
    assets::xmp_packet(" xmlns:v=\"http://verif.example/ns/\" v:quote='say \"hi\"'")
}

struct Subject {
    name: String,
    mime: &'static str,
    data: Vec<u8>,
    /// the XMP packet the asset carries before signing
    xmp: Option<String>,
}

fn subjects() -> Vec<Subject> {
    let mut v = vec![];
    for a in assets::all() {
        if !c2pa::verif_hooks::supports_remote_ref(a.mime) {
            continue;
        }
        if ["jpeg-rst", "gif-ext", "mp3-bare", "mp4-mdat-first"].contains(&a.name) {
            continue; // structural variants without XMP relevance
        }
        let xmp = if a.name.ends_with("-xmp") { Some(assets::xmp_packet("")) } else { None };
        v.push(Subject { name: a.name.to_string(), mime: a.mime, data: a.data, xmp });
    }
    v.push(Subject { name: "jpeg-xmp-rich".into(), mime: "image/jpeg", data: jpeg_with_packet(&rich_packet()), xmp: Some(rich_packet()) });
    v.push(Subject { name: "jpeg-xmp-squote".into(), mime: "image/jpeg", data: jpeg_with_packet(&squote_packet()), xmp: Some(squote_packet()) });
    v
}

// ---------------------------------------------------------------------------------------------

#[derive(Debug)]
enum Outcome {
    SignRefused(String),
    Done { read: String, url: Option<String>, xmp_after: Option<String> },
    Panic(String),
}

/// Remote fetching off and, should the tree under test ask anyway, a transport that answers 404 instead of the real network.
fn offline_ctx() -> c2pa::Context {
    let t = kit::net::Transport::new(|_, _| kit::net::Answer::status(404));
    sdk::ctx().with_resolver(t.clone()).with_resolver_async(t)
}

fn execute(s: &Subject, url: &str) -> Outcome {
    let signer = sdk::fixture_signer("ed25519");
    let r = par::guard(|| {
        // Create intent: no parent ingredient is derived from the source, so a pre-existing dcterms:provenance in the
        // source packet (rich variant) does not make the builder look for a parent manifest
        let mut b = c2pa::Builder::from_context(offline_ctx())
            .with_definition(DEF)
            .unwrap_or_else(|e| kit::ev::machinery(format!("C30: definition rejected: {e:?}")));
        b.set_intent(c2pa::BuilderIntent::Create(c2pa::DigitalSourceType::DigitalCapture));
        b.set_remote_url(url);
        b.set_no_embed(true);
        match sdk::sign(&mut b, signer.as_ref(), s.mime, &s.data) {
            Err(e) => Outcome::SignRefused(format!("{e:?}").chars().take(160).collect()),
            Ok((bytes, _manifest)) => {
                let (read, u) = match sdk::read(offline_ctx(), s.mime, &bytes) {
                    Ok(rd) => (format!("Ok({})", sdk::state_name(rd.validation_state())), None),
                    Err(c2pa::Error::RemoteManifestUrl(u)) => ("Err(RemoteManifestUrl)".to_string(), Some(u)),
                    Err(e) => (format!("Err({})", sdk::err_kind(&e)), None),
                };
                Outcome::Done { read, url: u, xmp_after: c2pa::verif_hooks::read_xmp(s.mime, &bytes) }
            }
        }
    });
    r.unwrap_or_else(Outcome::Panic)
}

fn special_chars(url: &str) -> String {
    let mut v: Vec<&str> = vec![];
    for (c, n) in [('&', "amp"), ('<', "lt"), ('>', "gt"), ('"', "quot"), ('\'', "apos")] {
        if url.contains(c) {
            v.push(n);
        }
    }
    if !url.is_ascii() {
        v.push("non-ascii");
    }
    if v.is_empty() {
        "none".into()
    } else {
        v.join("+")
    }
}

fn judge(run: &Run, s: &Subject, url: &str, out: &Outcome) {
    let case = json!({"asset": s.name, "url": url});
    match out {
        Outcome::Panic(p) => CAP.violation(run, format!("panic fmt={}", s.name), || p.clone(), || case),
        Outcome::SignRefused(k) => run.outcome(format!("sign-refused:{}:{}", k.split(|c: char| !(c.is_alphanumeric() || c == '_')).next().unwrap_or(""), s.name)),
        Outcome::Done { read, url: got, xmp_after } => {
            match got {
                None => CAP.violation(run, format!("no-remote-url-error result={read} fmt={}", s.name), || format!("signed with remote URL {url} (no embed) but reading with fetch disabled gave {read} instead of RemoteManifestUrl"), || case.clone()),
                Some(g) => match compare_urls(g, url) {
                    UrlCmp::Identical => run.outcome("url:identical"),
                    UrlCmp::NormalisedEquivalent => run.outcome("url:normalised-equivalent"),
                    UrlCmp::Different => {
                        // classify: does undoing XML escaping give the input back?
                        let kind = match xml_unescape(g) {
                            Some(un) if compare_urls(&un, url) != UrlCmp::Different => {
                                let ents: Vec<&str> = ["&amp;", "&lt;", "&gt;", "&quot;", "&apos;"].iter().copied().filter(|e| g.contains(e)).collect();
                                format!("xml-entities-left-escaped ents={}", ents.join(","))
                            }
                            _ => "other".to_string(),
                        };
                        run.outcome("url:DIFFERENT");
                        // the entity defect is format independent (one shared XMP reader): no fmt in its key, so it cannot crowd other keys out
                        let key = if kind.starts_with("xml-entities") { format!("url-mismatch kind={kind}") } else { format!("url-mismatch kind={kind} fmt={}", s.name) };
                        CAP.violation(run, key, || format!("embedded {url:?} (special characters: {}), reader reports {g:?}", special_chars(url)), || case.clone());
                    }
                },
            }
            if let Some(orig) = &s.xmp {
                let before = xmp_props(orig).unwrap_or_else(|e| kit::ev::machinery(format!("C30: own parser cannot read the seed packet of {}: {e}", s.name)));
                match xmp_after {
                    None => CAP.violation(run, format!("xmp-lost fmt={}", s.name), || "no XMP packet can be read from the signed asset".to_string(), || case.clone()),
                    Some(after_txt) => match xmp_props(after_txt) {
                        Err(e) => CAP.violation(run, format!("xmp-malformed-after-embedding fmt={}", s.name), || format!("the XMP packet of the signed asset is no longer well-formed: {e}"), || case.clone()),
                        Ok(after) => {
                            for (k, v) in &before {
                                if k == "@dcterms:provenance" {
                                    continue;
                                }
                                match after.get(k) {
                                    Some(v2) if v2 == v => {}
                                    Some(v2) => CAP.violation(run, format!("xmp-property-changed prop={k} fmt={}", s.name), || format!("property {k} was {v:?} and is {v2:?} after embedding the remote reference"), || case.clone()),
                                    None => CAP.violation(run, format!("xmp-property-lost prop={k} fmt={}", s.name), || format!("property {k} ({v:?}) is gone after embedding the remote reference"), || case.clone()),
                                }
                            }
                            run.outcome("xmp:compared");
                        }
                    },
                }
            }
        }
    }
}

pub fn run(run: &Run, replay: Option<&Value>) {
    run.rule(
        "one case = (asset, URL): sign with set_remote_url + set_no_embed(true), read with remote fetching disabled, compare the URL carried by \
         Error::RemoteManifestUrl with the input and the pre-existing XMP properties with the packet read back. non-trivial = cases whose signing \
         succeeded (each is a complete round trip), identified by (asset, URL).",
    );
    run.assume("a reported URL that differs from the input only by URL normalisation (percent-encoding, host case / IDNA, default port, empty path) is accepted, because the SDK stores url::Url::parse(input).to_string()");
    run.assume("XMP packets are fetched from the signed asset with the SDK's own handler (verif_hooks::read_xmp); property parsing is the harness's");
    let subs = subjects();
    // seed preconditions: the handler returns exactly the packet we planted, and our parser understands it
    for s in &subs {
        if let Some(x) = &s.xmp {
            let got = c2pa::verif_hooks::read_xmp(s.mime, &s.data);
            if got.as_deref() != Some(x.as_str()) {
                kit::ev::machinery(format!("C30: seed {} does not give its planted XMP packet back", s.name));
            }
            let p = xmp_props(x).unwrap_or_else(|e| kit::ev::machinery(format!("C30: own parser rejects the seed packet of {}: {e}", s.name)));
            if p.len() < 3 {
                kit::ev::machinery(format!("C30: seed packet of {} has too few properties", s.name));
            }
        }
    }
    if let Some(c) = replay {
        let name = c["asset"].as_str().unwrap_or("");
        let url = c["url"].as_str().unwrap_or("");
        let s = subs.iter().find(|s| s.name == name).unwrap_or_else(|| kit::ev::machinery("replay: unknown asset"));
        let out = execute(s, url);
        println!("replay {name} {url:?}: {out:?}");
        run.eval();
        judge(run, s, url, &out);
        return;
    }
    let urls = urls(run.tier.is_thorough());
    run.extra("assets", json!(subs.iter().map(|s| s.name.clone()).collect::<Vec<_>>()));
    run.extra("urls", json!(urls.len()));
    // determinism
    {
        let a = format!("{:?}", execute(&subs[0], &urls[1]));
        let b = format!("{:?}", execute(&subs[0], &urls[1]));
        if a != b {
            kit::ev::machinery("C30: baseline case is not deterministic");
        }
    }
    let cases: Vec<(usize, usize)> = (0..subs.len()).flat_map(|s| (0..urls.len()).map(move |u| (s, u))).collect();
    run.space("assets with remote-reference support (with / without XMP) x URL grammar", cases.len() as u64, true);
    let ok_per_asset: Vec<std::sync::atomic::AtomicU64> = subs.iter().map(|_| Default::default()).collect();
    par::for_each(&cases, |(si, ui)| {
        let (s, url) = (&subs[*si], &urls[*ui]);
        let out = execute(s, url);
        run.eval();
        if let Outcome::Done { .. } = out {
            run.nontrivial(format!("{}|{url}", s.name));
            ok_per_asset[*si].fetch_add(1, std::sync::atomic::Ordering::Relaxed);
        }
        judge(run, s, url, &out);
    });
    let never: Vec<&str> = subs.iter().zip(&ok_per_asset).filter(|(_, n)| n.load(std::sync::atomic::Ordering::Relaxed) == 0).map(|(s, _)| s.name.as_str()).collect();
    run.extra("assets_for_which_signing_never_succeeded", json!(never));
    if never.len() == subs.len() {
        kit::ev::machinery("C30: signing with a remote reference never succeeded");
    }
    CAP.report(run);
    for (si, ui) in [(0usize, 2usize), (1, 3)] {
        if si < subs.len() && ui < urls.len() {
            run.sample(json!({"asset": subs[si].name, "url": urls[ui], "observed": format!("{:?}", execute(&subs[si], &urls[ui])).chars().take(600).collect::<String>()}));
        }
    }
}

//! C28 — no network access unless the configuration enables it; a remote-only asset read with fetching disabled
//! yields `Error::RemoteManifestUrl(url)` carrying the referenced URL.
//!
//! S-inp over configurations, level exploration. The complete product
//!   verify.remote_manifest_fetch x verify.ocsp_fetch x builder.certificate_status_fetch {none, active, all}
//!   x builder.auto_timestamp_assertion.enabled x signer TSA URL {none, set} x signing certificate {no AIA, OCSP AIA}
//!   x asset {embedded, remote-only, remote+embedded} x operation {read, add ingredient, sign} x {sync, async}
//!   (x format {jpeg} quick, {jpeg, png} thorough)
//! (dimensions that cannot influence an operation are not multiplied into it: no signer for read/ingredient, no builder
//! settings for read) is executed with a recording resolver installed through Context::with_resolver /
//! with_resolver_async that answers remote-manifest GETs with the real sidecar manifest and everything else with 404.
//! The signer's own time-stamp transport (`Signer::send_timestamp_request` builds a private `Context::new()`, so it does
//! not go through the installed resolver) is pointed at a loopback listener owned by the harness, which records it.
//!
//! Oracle: every observed request is one the configuration explicitly asks for — a remote-manifest GET only if
//! remote_manifest_fetch is on and the processed asset references that URL; an OCSP GET only if ocsp_fetch or
//! certificate_status_fetch is on; a TSA request only if the signer has a TSA URL and the operation signs. Reading a
//! remote-only asset with fetching disabled must give Err(RemoteManifestUrl(u)) with u equal to the embedded URL.
//!
//! The sign operation is additionally crossed (OCSP settings at their defaults) with extra ingredient {none, unsigned,
//! signed without a time stamp} x intent {Edit, Create, Update} x signer TSA {none, set} x auto_timestamp_assertion
//! {default, enabled} x Builder::add_timestamp {not called, called}: a time-stamp request on the installed resolver (those are
//! the ingredient TimeStamp-assertion requests; the signer's own COSE time stamp goes to the loopback listener) is asked for
//! only when the signer has a TSA URL AND (auto_timestamp_assertion.enabled OR add_timestamp was called).
//!
//! Mutants caught (tools/mutant_run.sh D <patch> C28 quick):
//!   C28-timestamp-gate-removed.diff (independently seeded: maybe_add_timestamp ignores auto_timestamp_assertion.enabled; missed
//!                                    while every resolver-side TSA request was accepted whenever the signer had a TSA URL)
//!   C28-invert-remote-fetch.diff   (the remote_manifest_fetch test inverted)
//!   C28-ocsp-always-fetch.diff     (OCSP fetch policy ignores verify.ocsp_fetch)

use std::{
    io::{Cursor, Read, Write},
    process::Command,
    sync::{Arc, Mutex},
};

use async_trait::async_trait;
use c2pa::{AsyncSigner, Builder, BuilderIntent, Reader, Signer, SigningAlg};
use kit::{
    assets,
    net::{self, Answer, Transport},
    par, sdk, Run,
};
use serde_json::{json, Value};

const OCSP_URL: &str = "http://ocsp.verif.example/q/";
const DEF: &str = r#"{"title":"t","claim_generator_info":[{"name":"verif","version":"1"}]}"#;

fn manifest_url(fmt: &str, cert: &str, asset: &str) -> String {
    format!("https://manifests.verif.example/{fmt}/{cert}/{asset}/m.c2pa")
}

// ---------------------------------------------------------------------------------------------
// certificates
// ---------------------------------------------------------------------------------------------

fn openssl(dir: &std::path::Path, args: &[&str]) {
    let out = Command::new("openssl").args(args).current_dir(dir).output().unwrap_or_else(|e| kit::ev::machinery(format!("C28: cannot run openssl: {e}")));
    if !out.status.success() {
        kit::ev::machinery(format!("C28: openssl {args:?} failed: {}", String::from_utf8_lossy(&out.stderr)));
    }
}

/// root -> intermediate -> end entity (P-256) whose EE carries an OCSP AIA. Returns (chain PEM = EE + intermediate, key PEM).
fn mint_aia_chain() -> (Vec<u8>, Vec<u8>) {
    let dir = tempfile::tempdir().unwrap_or_else(|e| kit::ev::machinery(format!("C28: tempdir: {e}")));
    let d = dir.path();
    let ec = ["genpkey", "-algorithm", "EC", "-pkeyopt", "ec_paramgen_curve:P-256", "-out"];
    openssl(d, &[&ec[..], &["root.key"]].concat());
    openssl(d, &["req", "-x509", "-new", "-key", "root.key", "-sha256", "-days", "3650", "-subj", "/C=US/O=Verif D Root/CN=Verif D Root CA", "-out", "root.pem",
                 "-addext", "basicConstraints=critical,CA:TRUE", "-addext", "keyUsage=critical,keyCertSign,cRLSign"]);
    openssl(d, &[&ec[..], &["ica.key"]].concat());
    openssl(d, &["req", "-new", "-key", "ica.key", "-subj", "/C=US/O=Verif D/CN=Verif D Intermediate", "-out", "ica.csr"]);
    std::fs::write(d.join("ica.ext"), "basicConstraints=critical,CA:TRUE,pathlen:0\nkeyUsage=critical,keyCertSign,cRLSign\nsubjectKeyIdentifier=hash\nauthorityKeyIdentifier=keyid\n").unwrap();
    openssl(d, &["x509", "-req", "-in", "ica.csr", "-CA", "root.pem", "-CAkey", "root.key", "-CAcreateserial", "-days", "3000", "-sha256", "-extfile", "ica.ext", "-out", "ica.pem"]);
    openssl(d, &[&ec[..], &["ee.key"]].concat());
    openssl(d, &["req", "-new", "-key", "ee.key", "-subj", "/C=US/O=Verif D/CN=Verif D Signer", "-out", "ee.csr"]);
    std::fs::write(
        d.join("ee.ext"),
        format!("basicConstraints=critical,CA:FALSE\nkeyUsage=critical,digitalSignature,nonRepudiation\nextendedKeyUsage=critical,emailProtection\nsubjectKeyIdentifier=hash\nauthorityKeyIdentifier=keyid\nauthorityInfoAccess=OCSP;URI:{OCSP_URL}\n"),
    )
    .unwrap();
    openssl(d, &["x509", "-req", "-in", "ee.csr", "-CA", "ica.pem", "-CAkey", "ica.key", "-CAcreateserial", "-days", "2000", "-sha256", "-extfile", "ee.ext", "-out", "ee.pem"]);
    let rd = |n: &str| std::fs::read(d.join(n)).unwrap_or_else(|e| kit::ev::machinery(format!("C28: read {n}: {e}")));
    let mut chain = rd("ee.pem");
    chain.extend(rd("ica.pem"));
    (chain, rd("ee.key"))
}

struct Creds {
    plain: (Vec<u8>, Vec<u8>),
    aia: (Vec<u8>, Vec<u8>),
}

impl Creds {
    fn signer(&self, cert: &str, tsa: Option<String>) -> sdk::SendSigner {
        let (c, k) = if cert == "aia" { &self.aia } else { &self.plain };
        let s = c2pa::create_signer::from_keys(c, k, SigningAlg::Es256, tsa).unwrap_or_else(|e| kit::ev::machinery(format!("C28: signer for {cert}: {e:?}")));
        sdk::SendSigner(s)
    }
}

/// AsyncSigner over a sync signer. The time-stamp request is delegated to the SDK's sync default implementation
/// (the async default needs a tokio reactor for its private reqwest client, which a hand-rolled block_on does not provide).
struct AsyncOverSync(sdk::SendSigner);

#[async_trait]
impl AsyncSigner for AsyncOverSync {
    async fn sign(&self, data: Vec<u8>) -> c2pa::Result<Vec<u8>> {
        Signer::sign(&self.0, &data)
    }
    fn alg(&self) -> SigningAlg {
        Signer::alg(&self.0)
    }
    fn certs(&self) -> c2pa::Result<Vec<Vec<u8>>> {
        Signer::certs(&self.0)
    }
    fn reserve_size(&self) -> usize {
        Signer::reserve_size(&self.0)
    }
    fn time_authority_url(&self) -> Option<String> {
        Signer::time_authority_url(&self.0)
    }
    async fn send_timestamp_request(&self, message: &[u8]) -> Option<c2pa::Result<Vec<u8>>> {
        Signer::send_timestamp_request(&self.0 .0, message)
    }
}

// ---------------------------------------------------------------------------------------------
// loopback listener standing in for the TSA that the signer's private transport talks to
// ---------------------------------------------------------------------------------------------

struct Listener {
    url: String,
    hits: Arc<Mutex<Vec<String>>>,
}

fn start_listener() -> Option<Listener> {
    let l = std::net::TcpListener::bind("127.0.0.1:0").ok()?;
    let port = l.local_addr().ok()?.port();
    let hits: Arc<Mutex<Vec<String>>> = Arc::new(Mutex::new(vec![]));
    let h2 = hits.clone();
    std::thread::spawn(move || {
        for s in l.incoming() {
            let Ok(mut s) = s else { continue };
            let _ = s.set_read_timeout(Some(std::time::Duration::from_millis(500)));
            let mut buf = vec![0u8; 8192];
            let mut got = Vec::new();
            // read the head (and whatever body arrives with it)
            loop {
                match s.read(&mut buf) {
                    Ok(0) | Err(_) => break,
                    Ok(n) => {
                        got.extend_from_slice(&buf[..n]);
                        if got.windows(4).any(|w| w == b"\r\n\r\n") {
                            break;
                        }
                    }
                }
            }
            let line = String::from_utf8_lossy(&got).lines().next().unwrap_or("").to_string();
            h2.lock().unwrap().push(line);
            let _ = s.write_all(b"HTTP/1.1 404 Not Found\r\nContent-Length: 0\r\nConnection: close\r\n\r\n");
            let _ = s.flush();
        }
    });
    Some(Listener { url: format!("http://127.0.0.1:{port}/tsa"), hits })
}

// ---------------------------------------------------------------------------------------------
// cases
// ---------------------------------------------------------------------------------------------

#[derive(Clone, Debug)]
struct Case {
    fmt: &'static str,
    op: &'static str,
    asset: &'static str,
    cert: &'static str,
    rmf: bool,
    ocsp: bool,
    csf: Option<&'static str>,
    /// builder.auto_timestamp_assertion.enabled: "off" (explicit false) | "default" (key absent) | "on"
    auto_ts: &'static str,
    tsa: bool,
    is_async: bool,
    /// sign only: extra ingredient added with add_ingredient_from_stream: "none" | "unsigned" | "signed" (embedded seed, no time stamp)
    ing: &'static str,
    /// sign only: "edit" (parent from the source stream) | "create" | "update"
    intent: &'static str,
    /// sign only: Builder::add_timestamp called with the labels of the manifests involved
    add_ts: bool,
}

impl Case {
    fn to_json(&self) -> Value {
        json!({"fmt": self.fmt, "op": self.op, "asset": self.asset, "cert": self.cert, "remote_manifest_fetch": self.rmf, "ocsp_fetch": self.ocsp,
               "certificate_status_fetch": self.csf, "auto_timestamp": self.auto_ts, "signer_tsa": self.tsa, "async": self.is_async,
               "ingredient": self.ing, "intent": self.intent, "add_timestamp": self.add_ts})
    }
    fn from_json(v: &Value) -> Case {
        let st = |k: &str, opts: &[&'static str]| -> &'static str { opts.iter().copied().find(|o| Some(*o) == v[k].as_str()).unwrap_or_else(|| kit::ev::machinery(format!("replay: bad {k}"))) };
        Case {
            fmt: ["jpeg", "png"].iter().copied().find(|o| Some(*o) == v["fmt"].as_str()).unwrap_or("jpeg"),
            op: st("op", &["read", "ingredient", "sign"]),
            asset: st("asset", &["embedded", "remote-only", "remote+embedded"]),
            cert: st("cert", &["plain", "aia"]),
            rmf: v["remote_manifest_fetch"].as_bool().unwrap_or(false),
            ocsp: v["ocsp_fetch"].as_bool().unwrap_or(false),
            csf: ["active", "all"].iter().copied().find(|o| Some(*o) == v["certificate_status_fetch"].as_str()),
            auto_ts: ["off", "default", "on"].iter().copied().find(|o| Some(*o) == v["auto_timestamp"].as_str()).unwrap_or(if v["auto_timestamp"].as_bool() == Some(true) { "on" } else { "off" }),
            tsa: v["signer_tsa"].as_bool().unwrap_or(false),
            is_async: v["async"].as_bool().unwrap_or(false),
            ing: ["none", "unsigned", "signed"].iter().copied().find(|o| Some(*o) == v["ingredient"].as_str()).unwrap_or("none"),
            intent: ["edit", "create", "update"].iter().copied().find(|o| Some(*o) == v["intent"].as_str()).unwrap_or("edit"),
            add_ts: v["add_timestamp"].as_bool().unwrap_or(false),
        }
    }
    fn settings(&self) -> String {
        let mut b = json!({"thumbnail": {"enabled": false}});
        match self.auto_ts {
            "on" => b["auto_timestamp_assertion"] = json!({"enabled": true}),
            "off" => b["auto_timestamp_assertion"] = json!({"enabled": false}),
            _ => {} // default: key absent
        }
        if let Some(s) = self.csf {
            b["certificate_status_fetch"] = json!(s);
            b["certificate_status_should_override"] = json!(false);
        }
        json!({"verify": {"remote_manifest_fetch": self.rmf, "ocsp_fetch": self.ocsp}, "builder": b}).to_string()
    }
}

fn all_cases(fmts: &[&'static str]) -> Vec<Case> {
    let mut v = vec![];
    let bools = [false, true];
    for &fmt in fmts {
    for asset in ["embedded", "remote-only", "remote+embedded"] {
        for cert in ["plain", "aia"] {
            for rmf in bools {
                for ocsp in bools {
                    for is_async in bools {
                        v.push(Case { fmt, op: "read", asset, cert, rmf, ocsp, csf: None, auto_ts: "off", tsa: false, is_async, ing: "none", intent: "edit", add_ts: false });
                        for csf in [None, Some("active"), Some("all")] {
                            v.push(Case { fmt, op: "ingredient", asset, cert, rmf, ocsp, csf, auto_ts: "off", tsa: false, is_async, ing: "none", intent: "edit", add_ts: false });
                            for auto_ts in ["off", "on"] {
                                for tsa in bools {
                                    v.push(Case { fmt, op: "sign", asset, cert, rmf, ocsp, csf, auto_ts, tsa, is_async, ing: "none", intent: "edit", add_ts: false });
                                }
                            }
                        }
                        // time-stamp product of the sign operation (OCSP settings at their defaults):
                        // ingredient kind x intent x signer TSA x auto_timestamp {default, enabled} x add_timestamp()
                        if !ocsp {
                            for ing in ["none", "unsigned", "signed"] {
                                for intent in ["edit", "create", "update"] {
                                    for auto_ts in ["default", "on"] {
                                        for tsa in bools {
                                            for add_ts in bools {
                                                v.push(Case { fmt, op: "sign", asset, cert, rmf, ocsp, csf: None, auto_ts, tsa, is_async, ing, intent, add_ts });
                                            }
                                        }
                                    }
                                }
                            }
                        }
                    }
                }
            }
        }
    }
    }
    v
}

struct World {
    creds: Creds,
    /// (format, cert, asset) -> asset bytes
    assets: Vec<((&'static str, &'static str, &'static str), Vec<u8>)>,
    /// manifest URL -> sidecar manifest bytes
    manifests: Vec<(String, Vec<u8>)>,
    tsa_url: String,
    listener: Option<Listener>,
    /// active manifest label of every seed
    labels: Vec<((&'static str, &'static str, &'static str), String)>,
}

fn mime_of(fmt: &str) -> &'static str {
    if fmt == "png" {
        "image/png"
    } else {
        "image/jpeg"
    }
}

/// Context for seed preparation: fetching off and, in case the SDK asks anyway, a transport that answers 404
/// (seed preparation must never touch the real network, whatever the tree under test does).
fn offline_ctx() -> c2pa::Context {
    let t = Transport::new(|_, _| Answer::status(404));
    sdk::ctx().with_resolver(t.clone()).with_resolver_async(t)
}

fn build_world(fmts: &[&'static str]) -> World {
    let creds = Creds { plain: sdk::fixture_keys("es256"), aia: mint_aia_chain() };
    let mut assets_v = vec![];
    let mut manifests = vec![];
    for &fmt in fmts {
    let src = assets::by_name(fmt);
    for cert in ["plain", "aia"] {
        let signer = creds.signer(cert, None);
        for asset in ["embedded", "remote-only", "remote+embedded"] {
            let mut b = sdk::builder(offline_ctx(), DEF);
            let url = manifest_url(fmt, cert, asset);
            match asset {
                "remote-only" => {
                    b.set_remote_url(url.clone());
                    b.set_no_embed(true);
                }
                "remote+embedded" => {
                    b.set_remote_url(url.clone());
                }
                _ => {}
            }
            let (bytes, manifest) = sdk::sign(&mut b, &signer, src.mime, &src.data).unwrap_or_else(|e| kit::ev::machinery(format!("C28 seed {fmt}/{cert}/{asset}: {e:?}")));
            assets_v.push(((fmt, cert, asset), bytes));
            if asset != "embedded" {
                manifests.push((url, manifest));
            }
        }
    }
    }
    let listener = start_listener();
    let tsa_url = listener.as_ref().map(|l| l.url.clone()).unwrap_or_else(|| "http://127.0.0.1:1/tsa".to_string());
    let mut labels = vec![];
    for ((fmt, cert, asset), bytes) in &assets_v {
        let rd = if *asset == "remote-only" {
            let url = manifest_url(fmt, cert, asset);
            let m = &manifests.iter().find(|(u, _)| *u == url).unwrap_or_else(|| kit::ev::machinery("C28: sidecar missing")).1;
            Reader::from_context(offline_ctx()).with_manifest_data_and_stream(m, mime_of(fmt), Cursor::new(bytes.clone()))
        } else {
            sdk::read(offline_ctx(), mime_of(fmt), bytes)
        };
        if let Ok(rd) = rd {
            if let Some(l) = rd.active_label() {
                labels.push(((*fmt, *cert, *asset), l.to_string()));
            }
        }
    }
    World { creds, assets: assets_v, manifests, tsa_url, listener, labels }
}

#[derive(Debug)]
struct Obs {
    result: String,
    remote_url_error: Option<String>,
    requests: Vec<(String, String)>,
}

fn execute(w: &World, c: &Case) -> Obs {
    let manifests = w.manifests.clone();
    let t = Transport::new(move |_, s| match manifests.iter().find(|(u, _)| *u == s.uri) {
        Some((_, m)) if s.method == "GET" => Answer::ok_body(m.clone()),
        _ => Answer::status(404),
    });
    let ctx = sdk::ctx_with(&[&c.settings()]).with_resolver(t.clone()).with_resolver_async(t.clone());
    let data = &w.assets.iter().find(|(k, _)| *k == (c.fmt, c.cert, c.asset)).unwrap_or_else(|| kit::ev::machinery("C28: asset missing (replay of a thorough-tier case needs --tier thorough)")).1;
    let mime = mime_of(c.fmt);
    let tsa = if c.tsa { Some(w.tsa_url.clone()) } else { None };
    let mut remote_url_error = None;
    let mut classify = |r: c2pa::Result<String>| -> String {
        match r {
            Ok(s) => format!("Ok({s})"),
            Err(c2pa::Error::RemoteManifestUrl(u)) => {
                remote_url_error = Some(u);
                "Err(RemoteManifestUrl)".to_string()
            }
            Err(e) => format!("Err({})", sdk::err_kind(&e)),
        }
    };
    let out = par::guard(|| -> c2pa::Result<String> {
        match c.op {
            "read" => {
                let rd = if c.is_async {
                    net::block_on(Reader::from_context(ctx).with_stream_async(mime, Cursor::new(data.clone())))?
                } else {
                    Reader::from_context(ctx).with_stream(mime, Cursor::new(data.clone()))?
                };
                Ok(sdk::state_name(rd.validation_state()).to_string())
            }
            "ingredient" => {
                let mut b = Builder::from_context(ctx).with_definition(DEF)?;
                let ij = r#"{"title":"i","relationship":"componentOf"}"#;
                if c.is_async {
                    net::block_on(b.add_ingredient_from_stream_async(ij, mime, &mut Cursor::new(data.clone())))?;
                } else {
                    b.add_ingredient_from_stream(ij, mime, &mut Cursor::new(data.clone()))?;
                }
                Ok("added".to_string())
            }
            _ => {
                let mut b = Builder::from_context(ctx).with_definition(DEF)?;
                b.set_intent(match c.intent {
                    "create" => BuilderIntent::Create(c2pa::DigitalSourceType::DigitalCapture),
                    "update" => BuilderIntent::Update,
                    _ => BuilderIntent::Edit,
                });
                if c.ing != "none" {
                    let idata: Vec<u8> = if c.ing == "signed" {
                        w.assets.iter().find(|(k, _)| *k == (c.fmt, c.cert, "embedded")).unwrap_or_else(|| kit::ev::machinery("C28: embedded seed missing")).1.clone()
                    } else {
                        assets::by_name(c.fmt).data
                    };
                    let ij = r#"{"title":"extra","relationship":"componentOf"}"#;
                    if c.is_async {
                        net::block_on(b.add_ingredient_from_stream_async(ij, mime, &mut Cursor::new(idata)))?;
                    } else {
                        b.add_ingredient_from_stream(ij, mime, &mut Cursor::new(idata))?;
                    }
                }
                if c.add_ts {
                    for ((f, ce, a), l) in &w.labels {
                        if *f == c.fmt && *ce == c.cert && (*a == c.asset || *a == "embedded") {
                            b.add_timestamp(l.clone());
                        }
                    }
                }
                let signer = w.creds.signer(c.cert, tsa.clone());
                let mut dst = Cursor::new(Vec::new());
                if c.is_async {
                    let s = AsyncOverSync(signer);
                    net::block_on(b.sign_async(&s, mime, &mut Cursor::new(data.clone()), &mut dst))?;
                } else {
                    b.sign(&signer, mime, &mut Cursor::new(data.clone()), &mut dst)?;
                }
                Ok("signed".to_string())
            }
        }
    });
    let result = match out {
        Err(p) => format!("PANIC {p}"),
        Ok(r) => classify(r),
    };
    Obs { result, remote_url_error, requests: t.seen().into_iter().map(|s| (s.method, s.uri)).collect() }
}

/// Why a request is allowed, or `Err(kind)`.
fn allowed(w: &World, c: &Case, method: &str, uri: &str) -> Result<&'static str, &'static str> {
    if w.manifests.iter().any(|(u, _)| u == uri) {
        let own = manifest_url(c.fmt, c.cert, c.asset);
        return if c.rmf && c.asset != "embedded" && uri == own { Ok("remote-manifest") } else { Err("remote-manifest") };
    }
    if uri.starts_with(OCSP_URL) {
        return if c.ocsp || c.csf.is_some() { Ok("ocsp") } else { Err("ocsp") };
    }
    if uri == w.tsa_url {
        // The recording resolver only sees time-stamp requests for INGREDIENT manifests (TimeStamp assertion): the signer's
        // own COSE time stamp travels over its private transport to the loopback listener. They are asked for only by
        // builder.auto_timestamp_assertion.enabled or Builder::add_timestamp, and need a signer TSA URL.
        return if c.tsa && c.op == "sign" && (c.auto_ts == "on" || c.add_ts) { Ok("tsa-ingredient-assertion") } else { Err("tsa-ingredient-assertion") };
    }
    let _ = method;
    Err("other")
}

fn judge(run: &Run, w: &World, c: &Case, obs: &Obs) {
    let case = c.to_json();
    if obs.result.starts_with("PANIC") {
        run.violation(format!("panic op={}", c.op), obs.result.clone(), case.clone());
    }
    for (m, u) in &obs.requests {
        match allowed(w, c, m, u) {
            Ok(kind) => run.outcome(format!("request-asked-for:{kind}:{}", c.op)),
            Err(kind) => run.violation(
                format!("unexpected-request kind={kind} op={} asset={}", c.op, c.asset),
                format!("{m} {u} was sent although the configuration does not ask for it ({})", c.settings()),
                case.clone(),
            ),
        }
    }
    if c.op == "read" && c.asset == "remote-only" && !c.rmf {
        let want = manifest_url(c.fmt, c.cert, c.asset);
        if obs.result != "Err(RemoteManifestUrl)" {
            run.violation(
                format!("remote-only-fetch-disabled result={}", obs.result),
                format!("reading a remote-only asset with remote_manifest_fetch=false gave {} instead of RemoteManifestUrl({want})", obs.result),
                case.clone(),
            );
        } else if obs.remote_url_error.as_deref() != Some(want.as_str()) {
            run.violation(
                "remote-only-fetch-disabled url-differs",
                format!("RemoteManifestUrl carries {:?}, the asset references {want}", obs.remote_url_error),
                case,
            );
        }
    }
}

pub fn run(run: &Run, replay: Option<&Value>) {
    run.rule(
        "one case = (operation, asset kind, signing certificate, settings vector, signer TSA, sync|async); every case of the product is executed \
         once on the real SDK with a recording resolver. non-trivial = cases in which at least one request was observed or in which the \
         remote-only/fetch-disabled error rule applies (identified by the case vector).",
    );
    run.assume("requests made through Context::resolver()/resolver_async() are observed by the installed recording resolver; the signer's private time-stamp transport (Signer::send_timestamp_request builds its own Context::new()) is observed by a loopback listener the TSA URL points at; any other transport the SDK might open directly would be invisible");
    run.assume("async operations are driven by a hand-rolled block_on; the async signer delegates its time-stamp request to the SDK's sync default implementation (no tokio reactor)");
    run.assume("OCSP-capable certificate: a P-256 chain minted with the openssl CLI whose end-entity carries an OCSP AIA; the repository's es256 test credentials have no AIA");
    let fmts: Vec<&'static str> = run.tier.pick(vec!["jpeg"], vec!["jpeg", "png"]);
    let w = build_world(if replay.is_some() { &["jpeg", "png"] } else { &fmts });
    if let Some(c) = replay {
        let case = Case::from_json(c);
        let obs = execute(&w, &case);
        println!("replay {case:?}: {obs:?}");
        run.eval();
        judge(run, &w, &case, &obs);
        return;
    }
    // seeds (checked without relying on the gating logic under test): embedded ones validate offline; remote-only ones
    // carry the URL in their XMP, no embedded manifest, and their sidecar manifest validates against the asset
    for ((fmt, cert, asset), bytes) in &w.assets {
        let mime = mime_of(fmt);
        if *asset == "remote-only" {
            let url = manifest_url(fmt, cert, asset);
            let xmp = c2pa::verif_hooks::read_xmp(mime, bytes).unwrap_or_default();
            if !xmp.contains(&url) {
                kit::ev::machinery(format!("C28 seed {fmt}/{cert}/remote-only: XMP does not carry {url}"));
            }
            let m = &w.manifests.iter().find(|(u, _)| *u == url).unwrap_or_else(|| kit::ev::machinery("C28: sidecar missing")).1;
            match Reader::from_context(offline_ctx()).with_manifest_data_and_stream(m, mime, Cursor::new(bytes.clone())) {
                Ok(rd) if sdk::state_name(rd.validation_state()) != "Invalid" => {}
                other => kit::ev::machinery(format!("C28 seed {fmt}/{cert}/remote-only: sidecar does not validate: {:?}", other.as_ref().map(|r| r.validation_state()))),
            }
        } else {
            match sdk::read(offline_ctx(), mime, bytes) {
                Ok(rd) if sdk::state_name(rd.validation_state()) != "Invalid" => {}
                other => kit::ev::machinery(format!("C28 seed {fmt}/{cert}/{asset} does not read back valid: {:?}", other.as_ref().map(|r| r.validation_state()))),
            }
        }
    }
    let cases = all_cases(&fmts);
    // determinism
    {
        let c = cases.iter().find(|c| c.op == "read" && c.asset == "remote-only" && c.rmf && c.cert == "aia" && c.ocsp && !c.is_async).unwrap();
        let (a, b) = (execute(&w, c), execute(&w, c));
        if a.requests != b.requests || a.result != b.result {
            kit::ev::machinery(format!("C28: baseline not deterministic: {a:?} vs {b:?}"));
        }
        run.sample(json!({"case": c.to_json(), "requests": a.requests, "result": a.result}));
    }
    run.space("operations x assets x certificates x settings vectors x signer TSA x {sync,async} (irrelevant dimensions not multiplied)", cases.len() as u64, true);
    let kinds: Mutex<std::collections::BTreeMap<&'static str, u64>> = Mutex::new(Default::default());
    let samples = Mutex::new(0usize);
    par::for_each(&cases, |c| {
        let obs = execute(&w, c);
        run.eval();
        judge(run, &w, c, &obs);
        run.outcome(format!("{}:{}:{}", c.op, c.asset, obs.result));
        if !obs.requests.is_empty() || (c.op == "read" && c.asset == "remote-only" && !c.rmf) {
            run.nontrivial(format!("{:?}", c));
        }
        let mut g = kinds.lock().unwrap();
        for (m, u) in &obs.requests {
            if let Ok(k) = allowed(&w, c, m, u) {
                *g.entry(k).or_default() += 1;
            }
        }
        drop(g);
        let mut s = samples.lock().unwrap();
        if *s < 8 && obs.requests.len() >= 2 {
            *s += 1;
            run.sample(json!({"case": c.to_json(), "requests": obs.requests, "result": obs.result}));
        }
    });
    let g = kinds.lock().unwrap();
    run.extra("asked_for_requests_observed", json!(*g));
    let tsa_hits = w.listener.as_ref().map(|l| l.hits.lock().unwrap().len()).unwrap_or(0);
    run.extra("tsa_requests_seen_by_loopback_listener", json!(tsa_hits));
    run.extra("loopback_listener", json!(w.listener.is_some()));
    // non-vacuity gates only decide when the run found nothing: a violating tree must be reported as such
    let quiet = run.violation_count() == 0;
    if quiet && g.get("remote-manifest").copied().unwrap_or(0) == 0 {
        kit::ev::machinery("C28: no remote-manifest fetch was ever observed: the remote_manifest_fetch dimension is vacuous");
    }
    if quiet && g.get("ocsp").copied().unwrap_or(0) == 0 {
        kit::ev::machinery("C28: no OCSP request was ever observed: the ocsp dimensions are vacuous");
    }
    if quiet && (g.get("tsa-ingredient-assertion").copied().unwrap_or(0) == 0 || tsa_hits == 0) {
        kit::ev::machinery("C28: no time-stamp request was ever observed: the TSA dimension is vacuous");
    }
    // the listener is only known to cases with a signer TSA; anything it saw is asked for by construction
    if let Some(l) = &w.listener {
        let hits = l.hits.lock().unwrap();
        if let Some(h) = hits.iter().find(|h| !h.contains("/tsa")) {
            run.violation("unexpected-request kind=loopback-listener", format!("the loopback listener saw {h}"), json!({"listener": h}));
        }
    }
}

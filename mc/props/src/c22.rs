//! C22 — saving and restoring a working store preserves the manifest.
//! S-seq: builder definitions (kit::defs generator, plus resources: generator icon, ingredient thumbnails, a tampered
//! signed ingredient) x archive chains of length 1..3 (Builder::to_archive -> Builder::from_context(..).with_archive).
//! Oracle: the report of sign(restore^k(b)) equals the report of sign(b) on the content the property names: title,
//! claim generator, assertions (label, kind, data), ingredients (with validation results, manifests, thumbnails),
//! resources (compared by content), redactions — after kit::canon normalisation of labels / instance ids.
//!
//! Archive kinds: this tree can only WRITE the `application/c2pa` working-store archive (to_archive returns
//! NotImplemented for builder.generate_c2pa_archive=false); that is asserted at start-up. The legacy ZIP reader is
//! outside "an archive it wrote".
//!
//! Mutants caught (tools/mutant_run.sh H <diff> C22 quick):
//!   /verif/mutants/C22-flat-ingredient-store-ignores-c2pa-manifest.diff (independently seeded, first MISSED; led to the nested
//!       signed chains) -> `archive-error step=sign-restored kind=InvalidManifest ... nest=[1,1*]`
//!   /verif/mutants/C22-into-builder-loses-json-kind.diff -> `content-differs field=assertions at=[]/kind ...`

use c2pa::{Builder, BuilderIntent, DigitalSourceType, Reader};
use kit::{assets, defs::{self, Def}, par, sdk, Run};
use serde_json::{json, Value};
use sha2::{Digest, Sha256};
use std::io::Cursor;

#[derive(Clone, Debug)]
pub struct Case {
    pub def: Def,
    pub ver: u8,
    pub icon: bool,
    /// 0 = ingredients as generated, 1 = ingredients carry explicit thumbnails (resources), 2 = plus a tampered signed ingredient
    pub ing_variant: u8,
    pub chain: usize,
    pub asset: String,
    /// non-empty: an extra ingredient that is a nested signed chain; nest[0] is the claim version of the innermost signed asset,
    /// each further level re-signs the previous asset (which becomes its parentOf ingredient) with that claim version
    pub nest: Vec<u8>,
}
impl Case {
    pub fn to_json(&self) -> Value {
        json!({"def": self.def.to_json(), "ver": self.ver, "icon": self.icon, "ing_variant": self.ing_variant, "chain": self.chain, "asset": self.asset, "nest": self.nest})
    }
    pub fn from_json(v: &Value) -> Case {
        Case {
            def: Def::from_json(&v["def"]),
            ver: v["ver"].as_u64().unwrap_or(2) as u8,
            icon: v["icon"].as_bool().unwrap_or(false),
            ing_variant: v["ing_variant"].as_u64().unwrap_or(0) as u8,
            chain: v["chain"].as_u64().unwrap_or(1) as usize,
            asset: v["asset"].as_str().unwrap_or("jpeg").to_string(),
            nest: v["nest"].as_array().map(|a| a.iter().map(|x| x.as_u64().unwrap_or(2) as u8).collect()).unwrap_or_default(),
        }
    }
    pub fn id(&self) -> String {
        format!("[{}] v={} icon={} ing={} chain={} {}{}", self.def.id(), self.ver, self.icon as u8, self.ing_variant, self.chain, self.asset,
            if self.nest.is_empty() { String::new() } else { format!(" nest={:?}", self.nest) })
    }
}

pub fn icon_bytes() -> Vec<u8> {
    let base = assets::png();
    let iend = base.len() - 12;
    let mut v = base[..iend].to_vec();
    v.extend(assets::png_chunk(b"tEXt", b"Comment\0icon"));
    v.extend_from_slice(&base[iend..]);
    v
}

pub fn ing_thumb_bytes(i: usize) -> Vec<u8> {
    let base = assets::png();
    let iend = base.len() - 12;
    let mut v = base[..iend].to_vec();
    v.extend(assets::png_chunk(b"tEXt", format!("Comment\0ingredient thumbnail {i}").as_bytes()));
    v.extend_from_slice(&base[iend..]);
    v
}

/// Signed kit JPEG with one entropy-coded byte flipped (manifest intact, data hash broken).
pub fn tampered_jpeg(claim_version: u8) -> Vec<u8> {
    let mut v = if claim_version < 2 { defs::signed_jpeg_v1().clone() } else { defs::signed_jpeg().clone() };
    let n = v.len();
    // the kit JPEG ends with ... 0x7F 0xA5 0x33 FF D9 ; flip the byte before EOI's predecessor
    v[n - 4] ^= 0x01;
    v
}

/// A signed chain: the kit JPEG signed with claim version levels[0], then re-signed (Edit intent: the previous asset becomes
/// the parentOf ingredient) with each further version.
pub fn nested_asset(levels: &[u8]) -> c2pa::Result<Vec<u8>> {
    let signer = sdk::fixture_signer("ed25519");
    let mut cur = assets::jpeg();
    for (i, v) in levels.iter().enumerate() {
        let mut b = sdk::builder(sdk::ctx(), &json!({"title": format!("level-{i}"), "claim_version": v, "claim_generator_info": [{"name": "kit", "version": "1"}]}).to_string());
        cur = sdk::sign(&mut b, signer.as_ref(), "image/jpeg", &cur)?.0;
    }
    Ok(cur)
}

pub fn build(c: &Case) -> c2pa::Result<Builder> {
    let mut d = c.def.definition(c.ver, None);
    if c.icon {
        d["claim_generator_info"][0]["icon"] = json!({"format": "image/png", "identifier": "icon.png"});
    }
    let mut b = Builder::from_context(sdk::ctx()).with_definition(d)?;
    b.set_intent(BuilderIntent::Create(DigitalSourceType::DigitalCapture));
    if c.icon {
        b.add_resource("icon.png", Cursor::new(icon_bytes()))?;
    }
    if c.def.thumbnail {
        b.set_thumbnail("image/png", &mut Cursor::new(defs::thumbnail_bytes()))?;
    }
    for (i, ing) in c.def.ingredient_inputs(c.ver).into_iter().enumerate() {
        let mut j = json!({"title": ing.title, "relationship": ing.relationship});
        if c.ing_variant >= 1 {
            let id = format!("ingthumb{i}.png");
            j["thumbnail"] = json!({"format": "image/png", "identifier": id});
            b.add_resource(&id, Cursor::new(ing_thumb_bytes(i)))?;
        }
        b.add_ingredient_from_stream(j.to_string(), ing.mime, &mut Cursor::new(ing.data.clone()))?;
    }
    if !c.nest.is_empty() {
        let nested = nested_asset(&c.nest)?;
        b.add_ingredient_from_stream(r#"{"title":"ing-nested.jpg","relationship":"componentOf"}"#, "image/jpeg", &mut Cursor::new(nested))?;
    }
    if c.ing_variant >= 2 {
        b.add_ingredient_from_stream(r#"{"title":"ing-3 tampered.jpg","relationship":"componentOf"}"#, "image/jpeg", &mut Cursor::new(tampered_jpeg(c.ver)))?;
    }
    Ok(b)
}

/// sha256 hex of a resource, or a description of why it cannot be read.
fn resource_digest(rd: &Reader, id: &str) -> String {
    let mut buf = Cursor::new(Vec::new());
    match par::guard(|| rd.resource_to_stream(id, &mut buf)) {
        Ok(Ok(_)) => format!("sha256:{}", kit::ev::hex(&Sha256::digest(buf.get_ref()))),
        Ok(Err(e)) => format!("unreadable:{}", sdk::err_kind(&e)),
        Err(p) => format!("panic:{p}"),
    }
}

/// Replace every resource reference {format, identifier} by {format, content digest}; drop hashes inside hashed URIs
/// (they cover bytes whose content is compared elsewhere) and fields that are not manifest content.
fn project(v: &mut Value, rd: &Reader) {
    match v {
        Value::Object(m) => {
            if m.contains_key("identifier") && m.contains_key("format") {
                if let Some(Value::String(id)) = m.get("identifier").cloned() {
                    m.insert("identifier".into(), Value::String(resource_digest(rd, &id)));
                }
            }
            if m.contains_key("url") && m.contains_key("hash") {
                m.remove("hash");
            }
            // hard-binding assertions: the digest of the asset bytes (and its padding) is not manifest content
            if m.get("label").and_then(|l| l.as_str()).map(|l| l.starts_with("c2pa.hash.")).unwrap_or(false) {
                if let Some(Value::Object(d)) = m.get_mut("data") {
                    for k in ["hash", "pad", "pad2"] {
                        d.remove(k);
                    }
                }
            }
            for (_, x) in m.iter_mut() {
                project(x, rd);
            }
        }
        Value::Array(a) => {
            for x in a.iter_mut() {
                project(x, rd);
            }
        }
        _ => {}
    }
}

/// The compared content of a report: (field name, value) in a fixed order.
pub fn content(rd: &Reader) -> Vec<(String, Value)> {
    let mut raw: Value = serde_json::from_str(&rd.json()).unwrap_or(Value::Null);
    project(&mut raw, rd);
    let all = defs::rename_ids(&json!({"json": raw}));
    let ms = &all["json"]["manifests"];
    let m = &ms["<id0>"];
    let mut out = vec![];
    for f in ["title", "claim_generator_info", "thumbnail", "redactions", "metadata", "credentials"] {
        out.push((f.to_string(), m[f].clone()));
    }
    let mut assertions = m["assertions"].as_array().cloned().unwrap_or_default();
    assertions.sort_by_key(kit::canon::stable);
    out.push(("assertions".into(), Value::Array(assertions)));
    out.push(("ingredients".into(), m["ingredients"].clone()));
    let mut others = serde_json::Map::new();
    if let Some(o) = ms.as_object() {
        for (k, x) in o {
            if k != "<id0>" {
                let mut x = x.clone();
                if let Some(xo) = x.as_object_mut() {
                    xo.remove("signature_info");
                }
                others.insert(k.clone(), x);
            }
        }
    }
    out.push(("ingredient-manifests".into(), Value::Object(others)));
    out.push(("state".into(), json!(sdk::state_name(rd.validation_state()))));
    let codes: Vec<Value> = all["json"]["validation_results"]["activeManifest"]["failure"].as_array().cloned().unwrap_or_default();
    out.push(("active-manifest-failures".into(), Value::Array(codes)));
    out
}

/// First path at which two JSON values differ.
pub fn first_diff(a: &Value, b: &Value, path: &str) -> Option<String> {
    match (a, b) {
        (Value::Object(x), Value::Object(y)) => {
            for (k, v) in x {
                match y.get(k) {
                    None => return Some(format!("{path}/{k} (only in original: {})", clip(&kit::canon::stable(v)))),
                    Some(w) => if let Some(d) = first_diff(v, w, &format!("{path}/{k}")) { return Some(d); },
                }
            }
            for (k, w) in y {
                if !x.contains_key(k) {
                    return Some(format!("{path}/{k} (only in restored: {})", clip(&kit::canon::stable(w))));
                }
            }
            None
        }
        (Value::Array(x), Value::Array(y)) => {
            if x.len() != y.len() {
                return Some(format!("{path} (array length {} vs {})", x.len(), y.len()));
            }
            for (i, (v, w)) in x.iter().zip(y.iter()).enumerate() {
                if let Some(d) = first_diff(v, w, &format!("{path}[{i}]")) { return Some(d); }
            }
            None
        }
        _ => if a == b { None } else { Some(format!("{path}: {} vs {}", clip(&kit::canon::stable(a)), clip(&kit::canon::stable(b)))) },
    }
}

fn clip(s: &str) -> String {
    if s.chars().count() > 160 { format!("{}..", s.chars().take(150).collect::<String>()) } else { s.to_string() }
}

pub enum Out {
    /// original could not be built/signed/read: the case says nothing about archives
    Vacuous(String),
    /// (step, error) on the archive side
    ArchiveError(String, String),
    Compared(Vec<(String, String)>),
}

pub fn run_case(c: &Case) -> Result<Out, String> {
    par::guard(|| {
        let a = assets::by_name(&c.asset);
        let signer = sdk::fixture_signer("ed25519");
        let mut b = match build(c) {
            Ok(b) => b,
            Err(e) => return Out::Vacuous(format!("build: {e:?}")),
        };
        // archive chain first (to_archive takes &self), then sign the very same original builder
        let mut cur: Option<Builder> = None;
        for step in 1..=c.chain {
            let mut buf = Cursor::new(Vec::new());
            let r = match &cur { None => b.to_archive(&mut buf), Some(x) => x.to_archive(&mut buf) };
            if let Err(e) = r {
                return Out::ArchiveError(format!("to_archive#{step}"), format!("{e:?}"));
            }
            buf.set_position(0);
            match Builder::from_context(sdk::ctx()).with_archive(buf) {
                Ok(nb) => cur = Some(nb),
                Err(e) => return Out::ArchiveError(format!("with_archive#{step}"), format!("{e:?}")),
            }
        }
        if std::env::var("VERIF_DUMP").is_ok() {
            for (name, bb) in [("original", Some(&b)), ("restored", cur.as_ref())] {
                if let Some(bb) = bb {
                    eprintln!("{name}: thumbnail {:?}", bb.definition.thumbnail);
                    for i in &bb.definition.ingredients {
                        eprintln!("{name}: ingredient {:?} thumbnail_ref {:?} active_manifest {:?}", i.title(), i.thumbnail_ref(), i.active_manifest());
                    }
                }
            }
        }
        let orig = match sdk::sign(&mut b, signer.as_ref(), a.mime, &a.data) {
            Ok((out, _)) => out,
            Err(e) => return Out::Vacuous(format!("sign original: {e:?}")),
        };
        let rd_o = match sdk::read(sdk::ctx(), a.mime, &orig) {
            Ok(r) => r,
            Err(e) => return Out::Vacuous(format!("read original: {e:?}")),
        };
        let mut rb = cur.unwrap_or_else(|| kit::ev::machinery("C22: chain of length 0"));
        let rest = match sdk::sign(&mut rb, signer.as_ref(), a.mime, &a.data) {
            Ok((out, _)) => out,
            Err(e) => return Out::ArchiveError("sign-restored".into(), format!("{e:?}")),
        };
        let rd_r = match sdk::read(sdk::ctx(), a.mime, &rest) {
            Ok(r) => r,
            Err(e) => return Out::ArchiveError("read-restored".into(), format!("{e:?}")),
        };
        let co = content(&rd_o);
        let cr = content(&rd_r);
        let mut diffs = vec![];
        for ((f, x), (_, y)) in co.iter().zip(cr.iter()) {
            if let Some(d) = first_diff(x, y, "") {
                diffs.push((f.clone(), d));
            }
        }
        Out::Compared(diffs)
    })
}

static STATS: std::sync::OnceLock<kit::defs::KeyStats> = std::sync::OnceLock::new();

fn judge(run: &Run, c: &Case) {
    let run = &Tap(run);
    let r = run_case(c);
    run.eval();
    let cfg = format!("v={} ing={} icon={}{}", c.ver, c.ing_variant, c.icon as u8, if c.nest.is_empty() { String::new() } else { format!(" nest={:?}", c.nest).replace(' ', "") .replace("nest", " nest") });
    match r {
        Err(p) => {
            run.outcome("panic");
            run.violation(format!("panic {cfg}"), format!("{}: {p}", c.id()), c.to_json());
        }
        Ok(Out::Vacuous(e)) => run.outcome(format!("vacuous:{}", e.split(':').next().unwrap_or(""))),
        Ok(Out::ArchiveError(step, e)) => {
            run.outcome(format!("archive-error:{step}"));
            let kind = e.split(|ch: char| !ch.is_alphanumeric()).next().unwrap_or("").to_string();
            let step0 = step.split('#').next().unwrap_or("").to_string();
            run.violation(format!("archive-error step={step0} kind={kind} {cfg}"), format!("{}: {step}: {e}", c.id()), c.to_json());
        }
        Ok(Out::Compared(diffs)) => {
            run.nontrivial(c.id());
            if diffs.is_empty() {
                run.outcome("equal");
            } else {
                run.outcome("differs");
                for (f, d) in diffs {
                    // key: the field, then where in it (indices stripped), then the configuration
                    let loc: String = d.split(|ch| ch == ' ' || ch == ':').next().unwrap_or("").chars().filter(|ch| !ch.is_ascii_digit()).collect();
                    run.violation(format!("content-differs field={f} at={loc} {cfg}"), format!("{}: {f}{d}", c.id()), c.to_json());
                }
            }
        }
    }
}

/// Run wrapper that also feeds the debug key histogram.
struct Tap<'a>(&'a Run);
impl Tap<'_> {
    fn eval(&self) { self.0.eval() }
    fn outcome(&self, c: impl Into<String>) { self.0.outcome(c) }
    fn nontrivial(&self, c: impl Into<String>) { self.0.nontrivial(c) }
    fn violation(&self, k: String, w: String, c: Value) {
        STATS.get_or_init(Default::default).violation(self.0, 25, k, w, c)
    }
}

pub fn run(run: &Run, replay: Option<&Value>) {
    run.rule("cases = builder (generated definition x claim version x generator icon resource x ingredient variant {plain, explicit thumbnails, + tampered signed ingredient}) x archive chain length 1..3; \
              the chain b -> to_archive -> with_archive is applied k times, then BOTH the original builder object and the restored one are signed over the same asset and read; \
              non-trivial = distinct cases in which both signings and readings succeeded so the two reports were compared (title, claim generator, thumbnail, redactions, assertions, ingredients incl. validation results, \
              ingredient manifests, resources by content digest, validation state and non-success codes).");
    run.assume("only the application/c2pa working-store archive can be written by this tree (asserted at start-up); the legacy ZIP kind is restore-only and outside 'an archive it wrote'");
    run.assume("hashes inside hashed URIs are not compared (the referenced content is); manifest labels and instance ids are compared up to renaming (kit::canon)");
    run.assume("intent Create on the original builder, so that nothing is derived from the source asset at signing time; the restored builder is signed as restored");
    if let Some(c) = replay {
        let case = Case::from_json(c);
        match run_case(&case) {
            Ok(Out::Compared(d)) => println!("replay {}: {} differing field(s): {d:?}", case.id(), d.len()),
            Ok(Out::Vacuous(e)) => println!("replay {}: vacuous {e}", case.id()),
            Ok(Out::ArchiveError(s, e)) => println!("replay {}: {s}: {e}", case.id()),
            Err(p) => println!("replay {}: panic {p}", case.id()),
        }
        judge(run, &case);
        return;
    }
    // which archive kinds can be written?
    {
        let b = Builder::from_context(sdk::ctx_with(&[r#"{"builder":{"generate_c2pa_archive":false}}"#])).with_definition(r#"{"title":"t"}"#).unwrap_or_else(|e| kit::ev::machinery(format!("{e:?}")));
        match b.to_archive(Cursor::new(Vec::new())) {
            Err(c2pa::Error::NotImplemented(_)) => run.extra("legacy_zip_archive", json!("to_archive returns NotImplemented with builder.generate_c2pa_archive=false: only the application/c2pa kind exists on the write side")),
            other => kit::ev::machinery(format!("C22: the legacy archive kind behaves differently than this check assumes ({:?}); extend the check to both kinds", other.map(|_| "Ok"))),
        }
        run.eval();
    }
    // determinism: same case twice
    {
        let c = Case { def: Def::rich(), ver: 2, icon: true, ing_variant: 2, chain: 2, asset: "jpeg".into(), nest: vec![] };
        let show = |o: Result<Out, String>| match o { Ok(Out::Compared(d)) => format!("{d:?}"), Ok(Out::Vacuous(e)) => format!("vacuous {e}"), Ok(Out::ArchiveError(s, e)) => format!("{s} {e}"), Err(p) => p };
        let (x, y) = (show(run_case(&c)), show(run_case(&c)));
        run.evals(2);
        if x != y {
            kit::ev::machinery(format!("C22: the same case compared differently twice: {x} / {y}"));
        }
        run.sample(json!({"case": c.to_json(), "differences": x}));
    }
    let thorough = run.tier.is_thorough();
    let defs_used: Vec<Def> = if thorough {
        defs::all_defs()
    } else {
        let mut v = vec![];
        for mask in [0u8, 0b000011, 0b110011] { for thumbnail in [false, true] { for ingredients in 0u8..3 { for actions in 0u8..3 {
            v.push(Def { mask, thumbnail, ingredients, actions, extra: None });
        }}}}
        v.push(Def::full());
        v
    };
    let mut cases = vec![];
    for d in &defs_used { for ver in [1u8, 2] { for icon in [false, true] { for ing_variant in 0u8..3 {
        if d.ingredients == 0 && ing_variant == 1 { continue; }
        for chain in 1..=3usize {
            cases.push(Case { def: d.clone(), ver, icon, ing_variant, chain, asset: "jpeg".into(), nest: vec![] });
        }
    }}}}
    run.space(&format!("definitions({}) x claim version(2) x icon(2) x ingredient variant(3, explicit thumbnails only with ingredients) x chain length(3) on jpeg", defs_used.len()), cases.len() as u64, true);
    let mut more = vec![];
    for a in assets::base() { if a.name == "jpeg" { continue; } for chain in 1..=3usize { for ver in [1u8, 2] {
        more.push(Case { def: Def::rich(), ver, icon: true, ing_variant: 2, chain, asset: a.name.into(), nest: vec![] });
    }}}
    run.space("rich definition with icon, thumbnails, tampered ingredient x every other base asset(12) x version(2) x chain length(3)", more.len() as u64, true);
    // nested signed chains as ingredient: every claim-version combination at depth 2 and 3 (a v1 level over a v2 level cannot be
    // built: "ingredient version too new", counted as vacuous)
    let mut nested = vec![];
    let mut combos: Vec<Vec<u8>> = vec![];
    for a in [1u8, 2] { for b in [1u8, 2] { combos.push(vec![a, b]); for c3 in [1u8, 2] { combos.push(vec![a, b, c3]); } } }
    // a claim-v1 manifest cannot carry a v2 ingredient, so versions must not decrease from the innermost level to the top
    combos.retain(|c| c.windows(2).all(|w| w[0] <= w[1]));
    for nest in &combos { for ver in [1u8, 2] { for chain in 1..=3usize { for d in [Def::empty(), Def::rich()] {
        if ver < *nest.last().unwrap_or(&1) { continue; }
        nested.push(Case { def: d, ver, icon: false, ing_variant: 0, chain, asset: "jpeg".into(), nest: nest.clone() });
    }}}}
    run.space("nested signed ingredient chains: claim version at each level of depth 2 and 3 and at the top, every non-decreasing combination (a v1 claim cannot carry a v2 ingredient) x chain length(3) x definition {empty, rich}", nested.len() as u64, true);
    par::for_each(&cases, |c| judge(run, c));
    par::for_each(&more, |c| judge(run, c));
    par::for_each(&nested, |c| judge(run, c));
    STATS.get_or_init(Default::default).finish(run, "C22");
    run.sample(json!({"case": cases[0].to_json()}));
    run.sample(json!({"case": cases[cases.len() - 1].to_json(), "definition": cases[cases.len() - 1].def.definition(2, None)}));
}

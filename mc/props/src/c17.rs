//! C17 — BMFF mdat hashing is independent of how the payload is chunked.
//! S-seq over feed histories: the mdat payload of a kit MP4 (3000 bytes; standard and large-size box header) is fed to
//! Builder::hash_bmff_mdat_bytes as every 2-way split and every 3-way split whose two cuts lie in 1..=32, with
//! fixed leaf size {none, 1 KB, 64 KB}; then update_hash_from_stream + sign_embeddable; the signed bytes are
//! patched over `placeholder || free(n)` and the asset is read back.
//! API semantics (DESIGN.md C17): the caller feeds the mdat PAYLOAD; room for the Merkle leaves is left in a free box.
//!
//! Mutants caught (tools/mutant_run.sh H <diff> C17 quick):
//!   /verif/mutants/C17-skip8-every-call.diff -> `not-valid ... code=assertion.bmffHash.mismatch` for every multi-chunk history
//! History: on the tree first examined every history whose first chunk had <= 8 bytes (standard header) gave
//! assertion.bmffHash.mismatch and different leaves; fixed by 06ee5d81f.

use c2pa::{Builder, BuilderIntent, DigitalSourceType, Reader};
use kit::{
    assets::{be32, bx, fbx},
    par, sdk, Run,
};
use serde_json::{json, Value};
use std::io::Cursor;

pub const PAYLOAD_LEN: usize = 3000;
const FREE_ROOM: usize = 4000;

pub fn payload(len: usize, salt: u8) -> Vec<u8> {
    (0..len).map(|i| ((i * 7 + 3 + salt as usize) % 251) as u8).collect()
}

fn moov(chunk_offs: &[u32]) -> Vec<u8> {
    let mvhd = fbx(b"mvhd", &{ let mut b = vec![0u8; 96]; b[8..12].copy_from_slice(&be32(1000)); b[12..16].copy_from_slice(&be32(1000)); b[16..20].copy_from_slice(&be32(0x00010000)); b[92..96].copy_from_slice(&be32(2)); b });
    let tkhd = fbx(b"tkhd", &{ let mut b = vec![0u8; 80]; b[8..12].copy_from_slice(&be32(1)); b });
    let mdhd = fbx(b"mdhd", &{ let mut b = vec![0u8; 20]; b[8..12].copy_from_slice(&be32(1000)); b });
    let hdlr = fbx(b"hdlr", &{ let mut b = vec![0u8; 4]; b.extend_from_slice(b"vide"); b.extend(vec![0u8; 12]); b.push(0); b });
    let vmhd = fbx(b"vmhd", &[0u8; 8]);
    let dref = fbx(b"dref", &{ let mut b = be32(1).to_vec(); b.extend(bx(b"url ", &[0, 0, 0, 1])); b });
    let dinf = bx(b"dinf", &dref);
    let stsd = fbx(b"stsd", &be32(0));
    let n = chunk_offs.len() as u32;
    let stts = fbx(b"stts", &{ let mut b = be32(1).to_vec(); b.extend(be32(n)); b.extend(be32(500)); b });
    let stsc = fbx(b"stsc", &{ let mut b = be32(1).to_vec(); b.extend(be32(1)); b.extend(be32(1)); b.extend(be32(1)); b });
    let stsz = fbx(b"stsz", &{ let mut b = be32(16).to_vec(); b.extend(be32(n)); b });
    let stco = fbx(b"stco", &{ let mut b = be32(n).to_vec(); for o in chunk_offs { b.extend(be32(*o)); } b });
    let stbl = bx(b"stbl", &[stsd, stts, stsc, stsz, stco].concat());
    let minf = bx(b"minf", &[vmhd, dinf, stbl].concat());
    let mdia = bx(b"mdia", &[mdhd, hdlr, minf].concat());
    let trak = bx(b"trak", &[tkhd, mdia].concat());
    bx(b"moov", &[mvhd, trak].concat())
}

fn mdat_box(payload: &[u8], large: bool) -> Vec<u8> {
    if large {
        let mut v = be32(1).to_vec();
        v.extend_from_slice(b"mdat");
        v.extend_from_slice(&((payload.len() + 16) as u64).to_be_bytes());
        v.extend_from_slice(payload);
        v
    } else {
        bx(b"mdat", payload)
    }
}

fn ftyp() -> Vec<u8> {
    bx(b"ftyp", &[b'i', b's', b'o', b'm', 0, 0, 2, 0, b'i', b's', b'o', b'm', b'm', b'p', b'4', b'2'])
}

/// ftyp || after_ftyp || moov (stco pointing into the mdat payloads) || mdat...   (one sample chunk of 16 bytes per mdat x 2)
pub fn mp4_with(mdats: &[Vec<u8>], large: bool, after_ftyp: &[u8]) -> Vec<u8> {
    let ftyp = ftyp();
    let hdr = if large { 16 } else { 8 };
    let moov_len = moov(&vec![0; mdats.len() * 2]).len();
    let mut offs = vec![];
    let mut pos = ftyp.len() + after_ftyp.len() + moov_len;
    for m in mdats {
        offs.push((pos + hdr) as u32);
        offs.push((pos + hdr + 16) as u32);
        pos += hdr + m.len();
    }
    let mut v = ftyp;
    v.extend_from_slice(after_ftyp);
    v.extend(moov(&offs));
    for m in mdats {
        v.extend(mdat_box(m, large));
    }
    v
}

#[derive(Clone, Debug)]
pub struct Case {
    /// cut positions inside the payload of mdat 0 (strictly increasing, 0 < c < len); empty = single call
    pub cuts: Vec<usize>,
    /// fixed leaf size in KB (0 = variable leaves)
    pub leaf_kb: usize,
    pub large: bool,
    /// number of mdat boxes (1 or 2); with 2 the second one is fed with the same cuts
    pub mdats: usize,
}
impl Case {
    pub fn to_json(&self) -> Value {
        json!({"cuts": self.cuts, "leaf_kb": self.leaf_kb, "large": self.large, "mdats": self.mdats})
    }
    pub fn from_json(v: &Value) -> Case {
        Case {
            cuts: v["cuts"].as_array().map(|a| a.iter().filter_map(|x| x.as_u64().map(|y| y as usize)).collect()).unwrap_or_default(),
            leaf_kb: v["leaf_kb"].as_u64().unwrap_or(0) as usize,
            large: v["large"].as_bool().unwrap_or(false),
            mdats: v["mdats"].as_u64().unwrap_or(1) as usize,
        }
    }
    pub fn id(&self) -> String {
        format!("cuts={:?} leaf={}KB {} mdats={}", self.cuts, self.leaf_kb, if self.large { "large" } else { "std" }, self.mdats)
    }
    fn cfg(&self) -> String {
        format!("header={} leaf={} mdats={}", if self.large { "large" } else { "std" }, if self.leaf_kb == 0 { "variable".to_string() } else { format!("{}KB", self.leaf_kb) }, self.mdats)
    }
    fn first_chunk_class(&self) -> &'static str {
        match self.cuts.first() {
            None => "whole",
            Some(c) if *c <= 8 => "<=8",
            Some(_) => ">8",
        }
    }
}

pub struct Obs {
    /// (reads that gave Valid, reads that did not) — more than one read only for assets with several mdat boxes
    pub reads: (u32, u32),
    pub state: String,
    pub failures: Vec<String>,
    /// the `merkle` member of the reported BMFF hash assertion
    pub merkle: Value,
}

/// Runs the whole flow; Err(step: error) when any SDK call fails.
pub fn flow(c: &Case) -> Result<Result<Obs, String>, String> {
    flow_n(c, 1)
}

/// `repeat` > 1: read the patched asset exactly that many times (to expose nondeterministic validation).
pub fn flow_n(c: &Case, repeat: u32) -> Result<Result<Obs, String>, String> {
    par::guard(|| -> Result<Obs, String> {
        let mime = "video/mp4";
        let ctx = sdk::ctx().with_signer(sdk::SendSigner(sdk::fixture_signer("ed25519")));
        let mut b = Builder::from_context(ctx).with_definition(r#"{"title":"c17"}"#).map_err(|e| format!("definition: {e:?}"))?;
        b.set_intent(BuilderIntent::Create(DigitalSourceType::DigitalCapture));
        if c.leaf_kb > 0 {
            b.set_bmff_hash_fixed_leaf_size(c.leaf_kb);
        }
        let ph = b.placeholder(mime).map_err(|e| format!("placeholder: {e:?}"))?;
        let mdats: Vec<Vec<u8>> = (0..c.mdats).map(|i| payload(PAYLOAD_LEN, i as u8 * 17)).collect();
        let mut after = ph.clone();
        after.extend(bx(b"free", &vec![0u8; FREE_ROOM]));
        let asset = mp4_with(&mdats, c.large, &after);
        for (id, m) in mdats.iter().enumerate() {
            let mut prev = 0usize;
            for cut in c.cuts.iter().copied().chain(std::iter::once(m.len())) {
                b.hash_bmff_mdat_bytes(id, &m[prev..cut], c.large).map_err(|e| format!("hash_bmff_mdat_bytes: {e:?}"))?;
                prev = cut;
            }
        }
        b.update_hash_from_stream(mime, &mut Cursor::new(&asset)).map_err(|e| format!("update_hash_from_stream: {e:?}"))?;
        let signed = b.sign_embeddable(mime).map_err(|e| format!("sign_embeddable: {e:?}"))?;
        let room = after.len();
        if signed.len() + 8 > room {
            kit::ev::machinery(format!("C17: signed manifest {} does not fit in the {} bytes reserved by the harness", signed.len(), room));
        }
        let fl = ftyp().len();
        let mut patched = asset[..fl].to_vec();
        patched.extend_from_slice(&signed);
        patched.extend(bx(b"free", &vec![0u8; room - signed.len() - 8]));
        patched.extend_from_slice(&asset[fl + room..]);
        if patched.len() != asset.len() {
            kit::ev::machinery("C17: patched asset length differs");
        }
        // With several mdat boxes the SDK's Merkle validation is itself nondeterministic on this tree (it zips the Merkle maps
        // with the values() of a HashMap); so such an asset is read up to `max_reads` times and counts as Valid when any
        // read says so (a wrong pairing cannot make a mismatching leaf match). Single-mdat assets are read once.
        let max_reads = if c.mdats > 1 { repeat.max(24) } else { repeat.max(1) };
        let mut reads = (0u32, 0u32);
        let mut best: Option<Reader> = None;
        let mut last: Option<Reader> = None;
        for _ in 0..max_reads {
            let rd = Reader::from_context(sdk::ctx()).with_stream(mime, Cursor::new(&patched)).map_err(|e| format!("read: {e:?}"))?;
            if sdk::state_name(rd.validation_state()) == "Valid" {
                reads.0 += 1;
                best = Some(rd);
                if repeat <= 1 { break; }
            } else {
                reads.1 += 1;
                last = Some(rd);
            }
        }
        let rd = best.or(last).unwrap_or_else(|| kit::ev::machinery("C17: no read performed"));
        let failures: Vec<String> = kit::canon::codes(&rd).into_iter().filter(|x| x.contains("/failure")).collect();
        let j: Value = serde_json::from_str(&rd.json()).unwrap_or(Value::Null);
        if std::env::var("VERIF_DUMP").is_ok() {
            eprintln!("{}", serde_json::to_string(&j["validation_results"]["activeManifest"]["failure"]).unwrap_or_default());
        }
        let mut merkle = Value::Null;
        if let Some(l) = j["active_manifest"].as_str() {
            if let Some(a) = j["manifests"][l]["assertions"].as_array() {
                for x in a {
                    if x["label"].as_str().unwrap_or("").starts_with("c2pa.hash.bmff") {
                        merkle = x["data"]["merkle"].clone();
                    }
                }
            }
        }
        Ok(Obs { reads, state: sdk::state_name(rd.validation_state()).to_string(), failures, merkle })
    })
}

static STATS: std::sync::OnceLock<kit::defs::KeyStats> = std::sync::OnceLock::new();

fn judge(run: &Run, c: &Case, reference: Option<&Value>) {
    let stats = STATS.get_or_init(Default::default);
    let r = flow(c);
    run.eval();
    let cfg = c.cfg();
    let fc = c.first_chunk_class();
    match r {
        Err(p) => {
            run.outcome("panic");
            stats.violation(run, 40, format!("panic {cfg} first_chunk{fc}"), format!("{}: {p}", c.id()), c.to_json());
        }
        Ok(Err(e)) => {
            run.outcome(format!("error:{}", e.split(':').next().unwrap_or("")));
            stats.violation(run, 40, format!("flow-error {cfg} first_chunk{fc} step={}", e.split(':').next().unwrap_or("")), format!("{}: {e}", c.id()), c.to_json());
        }
        Ok(Ok(o)) => {
            run.outcome(o.state.clone());
            if !c.cuts.is_empty() {
                run.nontrivial(c.id());
            }
            if o.state != "Valid" {
                let code = o.failures.first().cloned().unwrap_or_default();
                let code = code.rsplit(':').next().unwrap_or("").to_string();
                stats.violation(run, 40, format!("not-valid {cfg} first_chunk{fc} code={code}"),
                    format!("{}: patched asset reads {} with {:?}", c.id(), o.state, o.failures), c.to_json());
            }
            if c.leaf_kb > 0 {
                if let Some(want) = reference {
                    if &o.merkle != want {
                        run.outcome("leaves-differ");
                        stats.violation(run, 40, format!("leaves-differ {cfg} first_chunk{fc}"),
                            format!("{}: recorded merkle maps differ from the single-call feed: {} vs {}", c.id(), o.merkle, want), c.to_json());
                    }
                }
            }
        }
    }
}

/// One correctly built asset (single-call feed) validated 32 times: every read must give the same verdict.
fn repeat_read(run: &Run, c: &Case, sample: bool) {
    let mut case = c.to_json();
    case["repeat_reads"] = json!(32);
    match flow_n(c, 32) {
        Ok(Ok(o)) => {
            run.evals(32);
            run.outcome(format!("repeat-read:{}", if o.reads.1 == 0 { "all-valid" } else if o.reads.0 == 0 { "none-valid" } else { "mixed" }));
            if sample {
                run.sample(json!({"case": case, "reads_valid": o.reads.0, "reads_not_valid": o.reads.1}));
            }
            if o.reads.0 > 0 && o.reads.1 > 0 {
                run.violation(format!("nondeterministic-validation {}", c.cfg()),
                    format!("{}: the same patched asset was read 32 times: {} Valid, {} not ({:?})", c.id(), o.reads.0, o.reads.1, o.failures), case);
            } else if o.reads.0 == 0 {
                run.violation(format!("not-valid {} first_chunkwhole code=single-call", c.cfg()), format!("{}: single-call feed never reads Valid: {:?}", c.id(), o.failures), case);
            }
        }
        x => kit::ev::machinery(format!("C17: repeat-read flow failed for {}: {:?}", c.id(), x.map(|r| r.map(|_| ())))),
    }
}

pub fn run(run: &Run, replay: Option<&Value>) {
    run.rule("histories = ways of feeding the 3000-byte mdat payload of the kit MP4 to hash_bmff_mdat_bytes: every 2-way split (cut 1..2999) and every 3-way split whose two cuts lie in 1..=32, \
              for fixed leaf size {variable, 1 KB, 64 KB} x {standard, large-size} mdat header (thorough: also two mdat boxes); each history is followed by update_hash_from_stream, sign_embeddable, \
              in-place patch and Reader. non-trivial = distinct histories with at least one cut that ran to a verdict. The single-call feed of each configuration is the reference for the recorded leaves.");
    run.assume("assets with two mdat boxes are read up to 24 times and count as Valid when any read is Valid, because Merkle validation of several mdat boxes is itself nondeterministic on this tree (reported separately as nondeterministic-validation)");
    run.assume("the caller feeds the mdat payload (after the box header) and leaves room for the Merkle leaves in a free box after the placeholder, as documented for Builder::placeholder");
    if let Some(c) = replay {
        let case = Case::from_json(c);
        if c["repeat_reads"].is_u64() {
            repeat_read(run, &case, false);
            println!("replay {}: repeated validation done (see violations)", case.id());
            return;
        }
        let reference = flow(&Case { cuts: vec![], ..case.clone() }).ok().and_then(|r| r.ok()).map(|o| o.merkle);
        match flow(&case) {
            Ok(Ok(o)) => println!("replay {}: state {} failures {:?} merkle {}", case.id(), o.state, o.failures, o.merkle),
            Ok(Err(e)) => println!("replay {}: error {e}", case.id()),
            Err(p) => println!("replay {}: panic {p}", case.id()),
        }
        judge(run, &case, reference.as_ref());
        return;
    }
    let thorough = run.tier.is_thorough();
    let mut configs: Vec<(usize, bool, usize)> = vec![];
    for leaf in [0usize, 1, 64] { for large in [false, true] { configs.push((leaf, large, 1)); } }
    if thorough {
        for leaf in [0usize, 1] { for large in [false, true] { configs.push((leaf, large, 2)); } }
    }
    // repeated validation of one correctly built asset: every read must give the same verdict
    for (mdats, large) in [(1usize, false), (2, false), (2, true)] {
        let c = Case { cuts: vec![], leaf_kb: 1, large, mdats };
        repeat_read(run, &c, mdats == 2 && !large);
    }
    run.space("repeated validation (32 reads) of the single-call asset: {1 mdat std, 2 mdats std, 2 mdats large} with 1 KB leaves", 3, true);
    if std::env::var("VERIF_C17_TWO_FIRST").is_ok() {
        configs.sort_by_key(|c| std::cmp::Reverse(c.2));
    }
    for (leaf, large, mdats) in configs {
        let single = Case { cuts: vec![], leaf_kb: leaf, large, mdats };
        // precondition: the single-call feed works and is deterministic (else the harness flow is wrong: machinery)
        let base = match (flow(&single), flow(&single)) {
            (Ok(Ok(a)), Ok(Ok(b))) => {
                if a.state != "Valid" || a.merkle != b.merkle || a.state != b.state {
                    kit::ev::machinery(format!("C17: single-call feed {} reads {} {:?} (second run {}); the harness flow is wrong or nondeterministic", single.id(), a.state, a.failures, b.state));
                }
                a
            }
            (a, _) => kit::ev::machinery(format!("C17: single-call feed fails for {}: {:?}", single.id(), a.map(|r| r.map(|_| ())))),
        };
        run.evals(2);
        if leaf == 1 && !large && mdats == 1 {
            run.sample(json!({"case": single.to_json(), "state": base.state, "merkle": base.merkle}));
        }
        let mut cases = vec![];
        // quick tier: full 2-way sweep for the standard header with variable and 1 KB leaves; elsewhere the cuts around the header-skip, leaf and end boundaries
        let full = thorough || (!large && leaf <= 1);
        if full {
            for c in 1..PAYLOAD_LEN { cases.push(Case { cuts: vec![c], leaf_kb: leaf, large, mdats }); }
        } else {
            let mut cs: Vec<usize> = (1..=64).collect();
            cs.extend(1000..=1060);
            cs.extend(2030..=2070);
            cs.extend(PAYLOAD_LEN - 16..PAYLOAD_LEN);
            for c in cs { cases.push(Case { cuts: vec![c], leaf_kb: leaf, large, mdats }); }
        }
        let n2 = cases.len();
        let lim = if thorough || full { 32 } else { 16 };
        for c1 in 1..=lim { for c2 in c1 + 1..=lim { cases.push(Case { cuts: vec![c1, c2], leaf_kb: leaf, large, mdats }); } }
        run.space(&format!("{}: {} two-way splits ({}) + {} three-way splits with both cuts in 1..={lim}", single.cfg(), n2,
            if full { "every cut 1..2999" } else { "cuts 1..=64, 1000..=1060, 2030..=2070, 2984..=2999" }, cases.len() - n2), cases.len() as u64, true);
        par::for_each(&cases, |c| judge(run, c, Some(&base.merkle)));
    }
    STATS.get_or_init(Default::default).finish(run, "C17");
    let c = Case { cuts: vec![8], leaf_kb: 0, large: false, mdats: 1 };
    if let Ok(Ok(o)) = flow(&c) { run.sample(json!({"case": c.to_json(), "state": o.state, "failures": o.failures})); }
    let c = Case { cuts: vec![9], leaf_kb: 0, large: false, mdats: 1 };
    if let Ok(Ok(o)) = flow(&c) { run.sample(json!({"case": c.to_json(), "state": o.state, "failures": o.failures})); }
    let c = Case { cuts: vec![5, 20], leaf_kb: 1, large: true, mdats: 1 };
    if let Ok(Ok(o)) = flow(&c) { run.sample(json!({"case": c.to_json(), "state": o.state, "failures": o.failures, "merkle": o.merkle})); }
    run.evals(3);
}

//! C34 — JUMBF URIs and manifest labels parse back to their parts.
//!
//! S-inp, exhaustive over small-alphabet strings on the crate-private helpers (`c2pa::verif_hooks::label::*`, the
//! `ManifestParts` formatter through `verif_hooks::manifest_parts_to_label`, `Claim::new`, `Claim::label_with_instance`,
//! `Claim::assertion_label_from_link`).
//!   * manifest labels: 3 GUIDs x every vendor string of length 0..=3 over a 12-symbol alphabet (+ 31- and 32-character vendors)
//!     x versions {None,0,1,10,usize::MAX} x reasons {None,0,1,10,usize::MAX} (reason only with a version, as the formatter
//!     emits it) for 2.x labels, the same vendors for 1.x labels; plus the labels `Claim::new` generates for every vendor.
//!   * URIs: every manifest label x {manifest, signature, assertion, databox, credential} builders with a fixed set of box labels,
//!     and every assertion label of length 1..=5 over an 8-symbol alphabet (with and without `__N`) x 12 manifest labels.
//! Oracle: parse(format(parts)) == parts; every URI yields back the manifest label and the assertion/box label it was built
//! from; relative/absolute conversions invert; label_with_instance/assertion_label_from_link invert for SDK assertion labels.
//!
//! Finding on the unchanged tree: a 1.x label whose vendor is the literal "urn" ("urn:urn:uuid:<guid>", which Claim::new
//! generates for vendor "urn", claim version 1) does not parse: keys "manifest-label not parseable v1=true vendor=literal-urn …",
//! "manifest-uri parts differ v1=true vendor=literal-urn …", "claim-new label not parseable claim_version=1 vendor=literal-urn".
//!
//! Mutants caught (quick tier, patched scratch worktree, /verif/target-mut-C):
//!   /verif/mutants/C34-vendor-len-off-by-one.diff  vendor length check `> 32` -> `>= 32`   -> "manifest-label not parseable v1=false vendor=len32 …"
//!   /verif/mutants/C34-reason-dropped.diff         reason read from the wrong split index     -> "manifest-label parts differ … reason=…"
//!   /verif/mutants/C34-relative-uri.diff           to_relative_uri `parts.len() > 4` -> `> 5` -> "uri to_relative_uri(assertion-uri) manifest=… box-shape=…"

use c2pa::verif_hooks::{label as L, manifest_parts_to_label, Claim};
use kit::{par, Run};
use serde_json::{json, Value};
use std::sync::atomic::{AtomicU64, Ordering};

const GUIDS: [&str; 3] = ["00000000-0000-4000-8000-000000000001", "f75ddc48-cdc8-4723-bcfe-77a8d68a5920", "ffffffff-ffff-4fff-bfff-ffffffffffff"];
const VENDOR_ALPHABET: [char; 12] = ['a', 'c', 'u', 'r', 'n', 'Z', '0', '2', '9', '-', '_', '.'];
const LABEL_ALPHABET: [char; 8] = ['a', 'c', '2', '.', '-', '_', 'v', '1'];
const NUMS: [Option<usize>; 5] = [None, Some(0), Some(1), Some(10), Some(usize::MAX)];

fn strings(alpha: &[char], max_len: usize) -> Vec<String> {
    let mut out = vec![String::new()];
    let mut level = vec![String::new()];
    for _ in 0..max_len {
        let mut next = vec![];
        for s in &level {
            for c in alpha {
                let mut t = s.clone();
                t.push(*c);
                next.push(t);
            }
        }
        out.extend(next.iter().cloned());
        level = next;
    }
    out
}

#[derive(Clone, Debug, PartialEq)]
struct Parts {
    guid: String,
    is_v1: bool,
    cgi: Option<String>,
    version: Option<usize>,
    reason: Option<usize>,
}

impl Parts {
    fn json(&self) -> Value {
        json!({"guid": self.guid, "is_v1": self.is_v1, "cgi": self.cgi, "version": self.version.map(|v| v.to_string()), "reason": self.reason.map(|v| v.to_string())})
    }
    fn from_json(v: &Value) -> Parts {
        Parts {
            guid: v["guid"].as_str().unwrap_or("").into(),
            is_v1: v["is_v1"].as_bool().unwrap_or(false),
            cgi: v["cgi"].as_str().map(|s| s.to_string()),
            version: v["version"].as_str().and_then(|s| s.parse().ok()),
            reason: v["reason"].as_str().and_then(|s| s.parse().ok()),
        }
    }
}

fn parse(label: &str) -> Result<Option<Parts>, String> {
    par::guard(|| L::manifest_label_to_parts(label).map(|(guid, is_v1, cgi, version, reason)| Parts { guid, is_v1, cgi, version, reason }))
}

/// class of a vendor string, for stable violation keys
fn vendor_class(v: &Option<String>) -> String {
    match v {
        None => "none".into(),
        Some(s) if s == "urn" => "literal-urn".into(),
        Some(s) if s.len() >= 31 => format!("len{}", s.len()),
        Some(s) => {
            let mut c = String::new();
            if s.chars().any(|x| x.is_ascii_alphabetic()) { c.push('A'); }
            if s.chars().any(|x| x.is_ascii_digit()) { c.push('9'); }
            for p in ['-', '_', '.'] {
                if s.contains(p) { c.push(p); }
            }
            format!("chars[{c}]")
        }
    }
}

struct Cnt {
    evals: AtomicU64,
    labels: AtomicU64,
    uris: AtomicU64,
    nontrivial: AtomicU64,
}

fn bump(c: &AtomicU64, n: u64) {
    c.fetch_add(n, Ordering::Relaxed);
}

/// parse(format(parts)) == parts
fn check_parts(run: &Run, cnt: &Cnt, p: &Parts, verbose: bool) -> Option<String> {
    let label = match par::guard(|| manifest_parts_to_label(&p.guid, p.is_v1, p.cgi.as_deref(), p.version, p.reason)) {
        Ok(l) => l,
        Err(e) => {
            run.violation("manifest-label format panic", e, json!({"kind": "parts", "parts": p.json()}));
            return None;
        }
    };
    bump(&cnt.evals, 1);
    bump(&cnt.labels, 1);
    let back = parse(&label);
    if verbose {
        println!("parts {} -> label {label:?} -> parsed {back:?}", p.json());
    }
    let shape = format!("v1={} vendor={} version={} reason={}", p.is_v1, vendor_class(&p.cgi), p.version.map(|v| if v == usize::MAX { "max".to_string() } else { v.to_string() }).unwrap_or("none".into()),
        p.reason.map(|v| if v == usize::MAX { "max".to_string() } else { v.to_string() }).unwrap_or("none".into()));
    match back {
        Ok(Some(b)) if b == *p => {}
        Ok(Some(b)) => run.violation(format!("manifest-label parts differ {shape}"), format!("label {label:?} built from {} parses to {}", p.json(), b.json()), json!({"kind": "parts", "parts": p.json()})),
        Ok(None) => run.violation(format!("manifest-label not parseable {shape}"), format!("label {label:?} built from {} does not parse", p.json()), json!({"kind": "parts", "parts": p.json()})),
        Err(e) => run.violation(format!("manifest-label parse panic {shape}"), format!("label {label:?}: {e}"), json!({"kind": "parts", "parts": p.json()})),
    }
    // the parser also accepts the label inside a manifest URI
    let uri = L::to_manifest_uri(&label);
    bump(&cnt.evals, 1);
    match parse(&uri) {
        Ok(Some(b)) if b == *p => {}
        other => run.violation(format!("manifest-uri parts differ {shape}"), format!("URI {uri:?} built from {} parses to {other:?}", p.json()), json!({"kind": "parts", "parts": p.json()})),
    }
    Some(label)
}

/// every URI builder yields back what it was built from
fn check_uris(run: &Run, cnt: &Cnt, m: &str, boxes: &[String], verbose: bool) {
    let case = |b: &str| json!({"kind": "uri", "manifest": m, "box": b});
    let mut n = 0u64;
    let mut expect = |what: &str, got: Option<String>, want: Option<&str>, uri: &str, b: &str| {
        n += 1;
        if verbose {
            println!("  {what}: {uri:?} -> {got:?} (want {want:?})");
        }
        if got.as_deref() != want {
            let mclass = if m.starts_with("urn:c2pa:") { "v2" } else if m.starts_with("urn:uuid:") { "v1" } else { "v1-vendor" };
            run.violation(format!("uri {what} manifest={mclass} box-shape={}", box_shape(b)), format!("{what}: URI {uri:?} built from manifest {m:?} and box {b:?} gives {got:?}, expected {want:?}"), case(b));
        }
    };
    let g = |f: &dyn Fn() -> Option<String>| par::guard(f).unwrap_or_else(|p| Some(format!("PANIC {p}")));
    let mu = L::to_manifest_uri(m);
    expect("manifest_label_from_uri(manifest-uri)", g(&|| L::manifest_label_from_uri(&mu)), Some(m), &mu, "");
    let su = L::to_signature_uri(m);
    expect("manifest_label_from_uri(signature-uri)", g(&|| L::manifest_label_from_uri(&su)), Some(m), &su, "c2pa.signature");
    expect("box_name_from_uri(signature-uri)", g(&|| L::box_name_from_uri(&su)), Some("c2pa.signature"), &su, "c2pa.signature");
    for b in boxes {
        let au = L::to_assertion_uri(m, b);
        expect("manifest_label_from_uri(assertion-uri)", g(&|| L::manifest_label_from_uri(&au)), Some(m), &au, b);
        expect("assertion_label_from_uri(assertion-uri)", g(&|| L::assertion_label_from_uri(&au)), Some(b), &au, b);
        expect("box_name_from_uri(assertion-uri)", g(&|| L::box_name_from_uri(&au)), Some(b), &au, b);
        let rel = par::guard(|| L::to_relative_uri(&au)).unwrap_or_else(|p| format!("PANIC {p}"));
        let want_rel = format!("self#jumbf=c2pa.assertions/{b}");
        expect("to_relative_uri(assertion-uri)", Some(rel.clone()), Some(&want_rel), &au, b);
        expect("assertion_label_from_uri(relative)", g(&|| L::assertion_label_from_uri(&want_rel)), Some(b), &want_rel, b);
        expect("to_absolute_uri(relative)", g(&|| Some(L::to_absolute_uri(m, &want_rel))), Some(&au), &want_rel, b);
        expect("to_absolute_uri(absolute)", g(&|| Some(L::to_absolute_uri(m, &au))), Some(&au), &au, b);
        let du = L::to_databox_uri(m, b);
        expect("manifest_label_from_uri(databox-uri)", g(&|| L::manifest_label_from_uri(&du)), Some(m), &du, b);
        expect("assertion_label_from_uri(databox-uri)", g(&|| L::assertion_label_from_uri(&du)), Some(b), &du, b);
        expect("box_name_from_uri(databox-uri)", g(&|| L::box_name_from_uri(&du)), Some(b), &du, b);
        let cu = L::to_verifiable_credential_uri(m, b);
        expect("manifest_label_from_uri(credential-uri)", g(&|| L::manifest_label_from_uri(&cu)), Some(m), &cu, b);
        expect("box_name_from_uri(credential-uri)", g(&|| L::box_name_from_uri(&cu)), Some(b), &cu, b);
    }
    bump(&cnt.evals, n);
    bump(&cnt.uris, 2 + 4 * boxes.len() as u64);
}

fn box_shape(b: &str) -> String {
    let mut s = String::new();
    if b.contains("__") { s.push_str("instance,"); }
    if b.starts_with('.') || b.ends_with('.') { s.push_str("edge-dot,"); }
    if b.starts_with('_') || b.ends_with('_') { s.push_str("edge-underscore,"); }
    if b.starts_with("c2pa.") { s.push_str("c2pa,"); }
    if s.is_empty() { "plain".into() } else { s.trim_end_matches(',').to_string() }
}

/// label_with_instance / assertion_label_from_link invert for SDK assertion labels
fn check_instance(run: &Run, cnt: &Cnt, m: &str, base: &str, inst: usize, verbose: bool) {
    let label = match par::guard(|| Claim::label_with_instance(base, inst)) {
        Ok(l) => l,
        Err(p) => {
            run.violation("label_with_instance panic", format!("{base:?} {inst}: {p}"), json!({"kind": "instance", "manifest": m, "base": base, "instance": inst.to_string()}));
            return;
        }
    };
    let uri = L::to_assertion_uri(m, &label);
    let back = par::guard(|| Claim::assertion_label_from_link(&uri));
    let back_rel = par::guard(|| Claim::assertion_label_from_link(&L::to_relative_uri(&uri)));
    let lab = par::guard(|| L::assertion_label_from_uri(&uri));
    bump(&cnt.evals, 3);
    if verbose {
        println!("base {base:?} instance {inst} -> label {label:?} -> uri {uri:?} -> from_link {back:?}, from relative link {back_rel:?}, assertion_label_from_uri {lab:?}");
    }
    let kind = if base.starts_with("c2pa.thumbnail.ingredient") { "ingredient-thumbnail" } else if base.contains(".v") { "versioned" } else { "plain" };
    let ikind = if inst == 0 { "0".to_string() } else if inst == usize::MAX { "max".into() } else { "n".into() };
    for (what, got) in [("absolute", back), ("relative", back_rel)] {
        if got != Ok((base.to_string(), inst)) {
            run.violation(format!("assertion-instance roundtrip kind={kind} instance={ikind} link={what}"), format!("label_with_instance({base:?},{inst}) = {label:?}; assertion_label_from_link gives {got:?}"),
                json!({"kind": "instance", "manifest": m, "base": base, "instance": inst.to_string()}));
        }
    }
    if lab != Ok(Some(label.clone())) {
        run.violation(format!("assertion-instance uri-label kind={kind} instance={ikind}"), format!("assertion_label_from_uri({uri:?}) = {lab:?}, expected {label:?}"),
            json!({"kind": "instance", "manifest": m, "base": base, "instance": inst.to_string()}));
    }
}

pub fn run(run: &Run, replay: Option<&Value>) {
    run.rule(
        "every (GUID, vendor, version, reason) tuple of the stated finite domain is formatted and parsed back; every URI builder is inverted for every manifest label; \
         non-trivial = manifest-label tuples that carry a vendor or a version (the label has optional segments the parser must attribute correctly) and assertion labels carrying an instance suffix; \
         each tuple is enumerated once.",
    );
    run.assume("vendor strings are 1..=32 characters from {letters, digits, '-', '_', '.'} (no ':' '/' '=' or whitespace, which the label syntax reserves); Claim::new lower-cases the vendor, so its round trip is compared after lower-casing");
    run.assume("a reason is only formatted together with a version (the formatter has no syntax for a reason alone); 1.x labels carry neither");
    run.assume("assertion/box labels do not contain '/', '=' ; exhaustive labels are used verbatim as box names, the label_with_instance round trip is checked for the SDK's own assertion labels only");
    let cnt = Cnt { evals: AtomicU64::new(0), labels: AtomicU64::new(0), uris: AtomicU64::new(0), nontrivial: AtomicU64::new(0) };

    let fixed_boxes: Vec<String> = ["c2pa.actions", "c2pa.actions.v2", "c2pa.ingredient.v3__2", "c2pa.hash.data", "c2pa.thumbnail.ingredient__1.jpeg", "com.example.custom-thing_1"].iter().map(|s| s.to_string()).collect();

    if let Some(c) = replay {
        match c["kind"].as_str() {
            Some("parts") => {
                let p = Parts::from_json(&c["parts"]);
                check_parts(run, &cnt, &p, true);
            }
            Some("claim-new") => check_claim_new(run, &cnt, c["vendor"].as_str(), c["version"].as_u64().unwrap_or(2) as usize, true),
            Some("uri") => check_uris(run, &cnt, c["manifest"].as_str().unwrap_or(""), &[c["box"].as_str().unwrap_or("").to_string()], true),
            Some("instance") => check_instance(run, &cnt, c["manifest"].as_str().unwrap_or(""), c["base"].as_str().unwrap_or(""), c["instance"].as_str().and_then(|s| s.parse().ok()).unwrap_or(0), true),
            _ => kit::ev::machinery("C34: unknown replay kind"),
        }
        run.evals(cnt.evals.load(Ordering::Relaxed));
        return;
    }

    // ---- vendors ----------------------------------------------------------------------------------
    let mut vendors: Vec<Option<String>> = strings(&VENDOR_ALPHABET, 3).into_iter().map(|s| if s.is_empty() { None } else { Some(s) }).collect();
    vendors.push(Some("a".repeat(31)));
    vendors.push(Some("vendor-with.32_chars.0123456789ab".chars().take(32).collect()));
    if vendors.last().unwrap().as_ref().unwrap().len() != 32 {
        kit::ev::machinery("C34: 32-character vendor is not 32 characters");
    }

    // ---- 1. parts -> label -> parts ---------------------------------------------------------------
    let mut tuples: Vec<Parts> = vec![];
    for g in GUIDS {
        for v in &vendors {
            tuples.push(Parts { guid: g.into(), is_v1: true, cgi: v.clone(), version: None, reason: None });
            for ver in NUMS {
                for rea in NUMS {
                    if ver.is_none() && rea.is_some() {
                        continue;
                    }
                    tuples.push(Parts { guid: g.into(), is_v1: false, cgi: v.clone(), version: ver, reason: rea });
                }
            }
        }
    }
    run.space(&format!("manifest label tuples: 3 GUIDs x {} vendors x (1.x + 2.x with 21 version/reason shapes)", vendors.len()), tuples.len() as u64, true);
    let labels: std::sync::Mutex<Vec<(usize, String)>> = std::sync::Mutex::new(vec![]);
    par::for_each_index(tuples.len() as u64, |i| {
        let p = &tuples[i as usize];
        if p.cgi.is_some() || p.version.is_some() {
            bump(&cnt.nontrivial, 1);
        }
        if let Some(l) = check_parts(run, &cnt, p, false) {
            labels.lock().unwrap().push((i as usize, l));
        }
    });
    let mut labels = labels.into_inner().unwrap();
    labels.sort();
    let labels: Vec<String> = labels.into_iter().map(|x| x.1).collect();
    run.sample(json!({"parts": tuples[5].json(), "label": labels.get(5)}));
    run.sample(json!({"parts": tuples[tuples.len() - 1].json(), "label": labels.last()}));

    // ---- 2. Claim::new labels ---------------------------------------------------------------------
    let cn: Vec<(Option<String>, usize)> = vendors.iter().flat_map(|v| [(v.clone(), 1usize), (v.clone(), 2usize)]).collect();
    run.space("Claim::new(vendor, claim version 1|2) labels", cn.len() as u64, true);
    par::for_each(&cn, |(v, ver)| {
        if v.is_some() {
            bump(&cnt.nontrivial, 1);
        }
        check_claim_new(run, &cnt, v.as_deref(), *ver, false)
    });

    // ---- 3. URIs: every manifest label x fixed boxes ----------------------------------------------
    run.space("URI builders: every generated manifest label x 6 box labels x {manifest, signature, assertion, databox, credential, relative, absolute}", labels.len() as u64, true);
    par::for_each(&labels, |m| check_uris(run, &cnt, m, &fixed_boxes, false));

    // ---- 4. URIs: every small-alphabet box label x 12 manifest labels -----------------------------
    let pick: Vec<String> = {
        let n = labels.len();
        let mut v: Vec<String> = (0..12).map(|i| labels[i * (n - 1) / 11].clone()).collect();
        v.dedup();
        v
    };
    let max_len = run.tier.pick(4usize, 5usize);
    let mut boxes: Vec<String> = strings(&LABEL_ALPHABET, max_len).into_iter().filter(|s| !s.is_empty()).collect();
    let with_inst: Vec<String> = boxes.iter().filter(|s| s.len() <= 3).flat_map(|s| [format!("{s}__1"), format!("{s}__10")]).collect();
    boxes.extend(with_inst);
    run.space(&format!("URI builders: every box label of length 1..={max_len} over {{a,c,2,.,-,_,v,1}} (+ __1/__10 variants of those up to length 3) x {} manifest labels", pick.len()), (boxes.len() * pick.len()) as u64, true);
    par::for_each_index(boxes.len() as u64, |i| {
        let b = &boxes[i as usize];
        if b.contains("__") {
            bump(&cnt.nontrivial, 1);
        }
        for m in &pick {
            check_uris(run, &cnt, m, std::slice::from_ref(b), false);
        }
    });

    // ---- 5. instance suffixes on the SDK's assertion labels ---------------------------------------
    let bases = ["c2pa.actions", "c2pa.actions.v2", "c2pa.hash.data", "c2pa.hash.bmff.v3", "c2pa.hash.boxes", "c2pa.ingredient", "c2pa.ingredient.v2", "c2pa.ingredient.v3", "c2pa.thumbnail.claim.jpeg",
        "c2pa.thumbnail.claim", "c2pa.thumbnail.ingredient.jpeg", "c2pa.thumbnail.ingredient.png", "c2pa.thumbnail.ingredient", "c2pa.metadata", "c2pa.soft-binding", "c2pa.time-stamp", "c2pa.certificate-status",
        "c2pa.asset-ref", "c2pa.asset-type", "c2pa.embedded-data", "c2pa.depthmap.GDepth", "stds.schema-org.CreativeWork", "stds.exif", "cawg.identity", "cawg.metadata", "cawg.training-mining", "com.example.custom", "com.example.a_b.v1", "font.info"];
    let insts = [0usize, 1, 2, 9, 10, 99, 100, usize::MAX];
    run.space("label_with_instance/assertion_label_from_link: 29 SDK assertion labels x 8 instances x 12 manifest labels", (bases.len() * insts.len() * pick.len()) as u64, true);
    for b in bases {
        for i in insts {
            for m in &pick {
                if i > 0 {
                    bump(&cnt.nontrivial, 1);
                }
                check_instance(run, &cnt, m, b, i, false);
            }
        }
    }

    run.evals(cnt.evals.load(Ordering::Relaxed));
    run.nontrivial_n(cnt.nontrivial.load(Ordering::Relaxed));
    run.outcome_n("manifest labels formatted and parsed", cnt.labels.load(Ordering::Relaxed));
    run.outcome_n("URIs built and taken apart", cnt.uris.load(Ordering::Relaxed));
    run.extra("vendor_strings", json!(vendors.len()));
    run.extra("box_labels", json!(boxes.len()));
}

fn check_claim_new(run: &Run, cnt: &Cnt, vendor: Option<&str>, claim_version: usize, verbose: bool) {
    let case = json!({"kind": "claim-new", "vendor": vendor, "version": claim_version});
    let label = match par::guard(|| Claim::new("verif/1.0", vendor, claim_version).label().to_string()) {
        Ok(l) => l,
        Err(p) => {
            run.violation("claim-new panic", p, case);
            return;
        }
    };
    bump(&cnt.evals, 1);
    bump(&cnt.labels, 1);
    let back = parse(&label);
    if verbose {
        println!("Claim::new(vendor {vendor:?}, claim version {claim_version}) -> label {label:?} -> parsed {back:?}");
    }
    let vclass = vendor_class(&vendor.map(|s| s.to_string()));
    let want_cgi = vendor.map(|s| s.to_lowercase());
    match back {
        Ok(Some(p)) => {
            let guid_ok = p.guid.len() == 36 && label.contains(&p.guid) && p.guid.chars().all(|c| c.is_ascii_hexdigit() || c == '-');
            if p.is_v1 != (claim_version == 1) || p.cgi != want_cgi || p.version.is_some() || p.reason.is_some() || !guid_ok {
                run.violation(format!("claim-new parts differ claim_version={claim_version} vendor={vclass}"), format!("label {label:?} generated for vendor {vendor:?} parses to {}", p.json()), case);
            }
        }
        Ok(None) => run.violation(format!("claim-new label not parseable claim_version={claim_version} vendor={vclass}"), format!("label {label:?} generated by Claim::new for vendor {vendor:?} does not parse"), case),
        Err(e) => run.violation(format!("claim-new parse panic claim_version={claim_version} vendor={vclass}"), format!("label {label:?}: {e}"), case),
    }
}

//! C35 — results do not depend on stream chunking, and I/O errors are never hidden.
//! S-env on `Builder::sign`, `Reader::with_stream` and `Builder::add_ingredient_from_stream` through the fault
//! streams of `kit::streams` (every read / write / seek / flush of the SDK on the stream is a numbered choice point).
//!
//!  * zero deviations: a uniform maximum transfer size n in {1,2,3,7,64} on every stream;
//!  * deviation bound 1: at the k-th call, for EVERY k of the undisturbed run, a 1-byte short transfer, or an I/O
//!    error that sticks (every later call fails too);
//!  * deviation bound 2 (thorough, the two smallest formats): every pair, the second choice point taken from the
//!    run that already contains the first deviation (runs go to completion; call numbers are those of the run).
//!
//! Oracle (DESIGN.md C35, from the property text):
//!  * no failure injected (chunking, short transfers) => Ok with the same canonical report / validity as the unchunked run;
//!  * sticky failure => never a panic; `Ok` is a violation when (a) a byte that matters was never delivered, or (b) the
//!    result differs from the undisturbed one — in particular `Ok(Invalid)` = "I/O error hidden as a validation failure";
//!    `Ok` with the undisturbed result after complete delivery is accepted (no verdict demanded);
//!  * `sign` returning Ok after a failure must have produced an output that a clean reader accepts as the undisturbed one.
//! "Bytes that matter" for a signed asset = positions whose single-byte alteration makes a clean read not Valid
//! (computed exhaustively with plain cursors, on demand); for the source of `sign` = every byte.
//!
//! XMP: the quick tier includes XMP-bearing variants of the formats (hand-built jpeg-xmp / png-xmp with several properties
//! and non-UUID instance/document ids; for the other formats the packet the SDK's own handler embeds, with the remote
//! reference renamed and the ids replaced, same length) and the operations that CONSULT the XMP: `read-remote` (an asset
//! with nothing but a remote-manifest reference, fetch disabled: undisturbed outcome Err(RemoteManifestUrl(url))),
//! `sign` / `sign-remote` of an XMP-bearing source (the manifest's instance id comes from the source XMP; the ids and the
//! XMP packet of the output are part of the compared result). Violation keys name the format FAMILY (png-xmp -> png).
//!
//! Mutants caught (mutant_run, quick tier):
//!   /tmp/seed-C35 (png_io read_string seeks back by the requested instead of the returned size after a short read)
//!       -> VIOLATION  keys `chunking-changes-result op=read-remote got=Err(JumbfNotFound) fmt=png …`,
//!          `chunking-changes-result op=sign|sign-remote|ingredient got=Ok(Valid) fmt=png …`
//!   C35-read-exact-to-read.diff   ReaderUtils::read_to_vec uses one `read` where it needs to read exactly n bytes
//!       -> VIOLATION  new keys `chunking-changes-result op=read got=Err(JumbfParseError) fmt=png|tiff|mp4|heic …`
//! Findings of this check on the unchanged tree (see the final report of group G): format sniffing with a single read
//! (`chunking-changes-result op=read-detect got=Err(UnsupportedType)`), ID3 header read with a single read (mp3/flac:
//! `… op=read got=Err(JumbfNotFound)`, `… op=ingredient got=Ok(no-manifest)`, `… op=sign got=Ok(Valid)`), I/O errors during
//! hard-binding verification reported as `assertion.dataHash.mismatch` / `assertion.bmffHash.mismatch`
//! (`io-error-hidden-as-validation-failure …`), and I/O errors while loading an ingredient's manifest silently
//! producing an ingredient without manifest (`io-error-changes-result op=ingredient state=no-manifest`).

use c2pa::{Builder, Reader};
use kit::{
    assets::{self, Asset},
    canon, gutil, par, sdk,
    streams::{Dev, FaultStream, Kind, Log, Plan},
    Run,
};
use serde_json::{json, Value};
use std::{
    collections::BTreeSet,
    sync::{Mutex, OnceLock},
};

const DEF: &str = r#"{"title":"t","claim_generator_info":[{"name":"kit","version":"1"}]}"#;
const ING: &str = r#"{"title":"i","relationship":"componentOf"}"#;
const CHUNKS: [usize; 5] = [1, 2, 3, 7, 64];
const REMOTE_URL: &str = "https://verif.invalid/kit/manifest.c2pa";
/// identifiers the kit's XMP variants carry: deliberately not UUID-shaped, so the canonical report keeps them
const XMP_IID: &str = "xmp.iid:kit-fixed-instance-id-00000000000000";
const XMP_DID: &str = "xmp.did:kit-fixed-document-id-00000000000000";
/// what the SDK's minimal XMP packet carries (same lengths as the two above)
const MIN_IID: &str = "xmp.iid:cb9f5498-bb58-4572-8043-8c369e6bfb9b";
const MIN_DID: &str = "xmp.did:cb9f5498-bb58-4572-8043-8c369e6bfb9b";
static LIM: gutil::Limiter = gutil::Limiter::new(2);

#[derive(Clone, Debug, PartialEq, Eq, PartialOrd, Ord)]
struct D {
    /// 0 = the (source) stream, 1 = the destination stream of sign
    stream: usize,
    k: u64,
    dev: String,
}

impl D {
    fn dev(&self) -> Dev {
        Dev::parse(&self.dev).unwrap_or(Dev::FailSticky)
    }
    fn is_fail(&self) -> bool {
        self.dev.starts_with("fail")
    }
}

#[derive(Clone, Debug, Default)]
struct Script {
    chunk: Option<usize>,
    devs: Vec<D>,
}

impl Script {
    fn plan(&self, stream: usize) -> Plan {
        Plan { max_xfer: self.chunk, devs: self.devs.iter().filter(|d| d.stream == stream).map(|d| (d.k, d.dev())).collect() }
    }
    fn has_fail(&self) -> bool {
        self.devs.iter().any(|d| d.is_fail())
    }
    fn json(&self) -> Value {
        json!({"chunk": self.chunk, "devs": self.devs.iter().map(|d| json!([d.stream, d.k, d.dev])).collect::<Vec<_>>()})
    }
    fn from_json(v: &Value) -> Script {
        Script {
            chunk: v["chunk"].as_u64().map(|n| n as usize),
            devs: v["devs"].as_array().map(|a| a.iter().map(|d| D { stream: d[0].as_u64().unwrap_or(0) as usize, k: d[1].as_u64().unwrap_or(0), dev: d[2].as_str().unwrap_or("fail-sticky").to_string() }).collect()).unwrap_or_default(),
        }
    }
    fn describe(&self) -> String {
        let mut s = self.chunk.map(|n| format!("max-transfer {n}")).unwrap_or_default();
        for d in &self.devs {
            s.push_str(&format!(" {}@{}#{}", d.dev, if d.stream == 0 { "src" } else { "dst" }, d.k));
        }
        s.trim().to_string()
    }
}

#[derive(Clone, Copy, PartialEq, Eq, Debug)]
enum OpKind {
    Sign,
    Read,
    ReadDetect,
    Ingredient,
    /// read of an asset that carries no manifest, only a remote-manifest reference in its XMP (fetch disabled):
    /// the undisturbed outcome is Err(RemoteManifestUrl(url)) and it is the XMP reader of the handler that decides it
    ReadRemote,
    /// sign (embedded manifest) with a remote URL: the handler must update the existing XMP packet
    SignRemote,
}

impl OpKind {
    fn name(&self) -> &'static str {
        match self {
            OpKind::Sign => "sign",
            OpKind::Read => "read",
            OpKind::ReadDetect => "read-detect",
            OpKind::Ingredient => "ingredient",
            OpKind::ReadRemote => "read-remote",
            OpKind::SignRemote => "sign-remote",
        }
    }
}

struct Op {
    kind: OpKind,
    asset: Asset,
    /// signed form of the asset (input of read / ingredient)
    signed: Vec<u8>,
    /// positions of `signed` whose alteration makes a clean read not Valid (lazily computed)
    matter: std::sync::Arc<OnceLock<Vec<usize>>>,
}

impl Op {
    fn name(&self) -> String {
        format!("{}/{}", self.kind.name(), self.asset.name)
    }
    fn streams(&self) -> usize {
        if self.is_sign() { 2 } else { 1 }
    }
    fn is_sign(&self) -> bool {
        matches!(self.kind, OpKind::Sign | OpKind::SignRemote)
    }
    /// format family used in violation keys (variants of a format share the handler, hence the root causes)
    fn family(&self) -> &'static str {
        self.asset.name.split('-').next().unwrap_or(self.asset.name)
    }
    fn matter(&self) -> &Vec<usize> {
        self.matter.get_or_init(|| {
            let out: Mutex<Vec<usize>> = Mutex::new(vec![]);
            par::for_each_index(self.signed.len() as u64, |p| {
                let mut b = self.signed.clone();
                b[p as usize] ^= 0xFF;
                let valid = par::guard(|| matches!(sdk::read(sdk::ctx(), self.asset.mime, &b), Ok(r) if sdk::state_name(r.validation_state()) != "Invalid")).unwrap_or(false);
                if !valid {
                    out.lock().unwrap().push(p as usize);
                }
            });
            let mut v = out.into_inner().unwrap();
            v.sort();
            v
        })
    }
}

#[derive(Clone, Debug)]
struct Obs {
    /// "Ok" | "Err(kind)" | "PANIC"
    class: String,
    /// Ok: canonical result; Err: error text; PANIC: message
    detail: String,
    /// Valid / Invalid / - (sign: state of the clean read-back of the output)
    state: String,
    /// failure codes of the result (Ok only)
    codes: Vec<String>,
    logs: Vec<Log>,
    out_len: usize,
}

fn signer() -> &'static (dyn c2pa::Signer + Send + Sync) {
    static S: OnceLock<Box<dyn c2pa::Signer + Send + Sync>> = OnceLock::new();
    S.get_or_init(|| sdk::fixture_signer("ed25519")).as_ref()
}

fn reader_obs(r: c2pa::Result<Reader>, masked: bool) -> (String, String, String, Vec<String>) {
    match r {
        Ok(rd) => ("Ok".into(), if masked { gutil::canon2(&rd, true) } else { gutil::canon2(&rd, false) }, sdk::state_name(rd.validation_state()).into(), canon::codes(&rd).into_iter().filter(|c| c.contains("/failure")).collect()),
        Err(e) => (gutil::err_class(&e), format!("{e:?}").chars().take(200).collect(), "-".into(), vec![]),
    }
}

fn execute(op: &Op, sc: &Script) -> Obs {
    match op.kind {
        OpKind::Sign | OpKind::SignRemote => {
            let mut src = FaultStream::new(op.asset.data.clone(), sc.plan(0));
            let mut dst = FaultStream::new(vec![], sc.plan(1));
            let r = par::guard(|| {
                let mut b = sdk::builder(sdk::ctx(), DEF);
                if op.kind == OpKind::SignRemote {
                    b.set_remote_url(REMOTE_URL);
                }
                b.sign(signer(), op.asset.mime, &mut src, &mut dst).map(|_| ())
            });
            let logs = vec![src.snapshot(), dst.snapshot()];
            let out = dst.into_inner();
            match r {
                Err(p) => Obs { class: "PANIC".into(), detail: p, state: "-".into(), codes: vec![], logs, out_len: out.len() },
                Ok(Err(e)) => Obs { class: gutil::err_class(&e), detail: format!("{e:?}").chars().take(200).collect(), state: "-".into(), codes: vec![], logs, out_len: out.len() },
                Ok(Ok(())) => {
                    // what did it write? judged by a clean reader over a plain cursor
                    let (c, d, s, codes) = par::guard(|| reader_obs(sdk::read(sdk::ctx(), op.asset.mime, &out), true)).unwrap_or_else(|p| ("PANIC".into(), p, "-".into(), vec![]));
                    // the XMP packet of the output is part of the result (identifiers the source XMP supplies are
                    // not UUID-shaped in the kit's XMP variants, so they are compared literally)
                    let xmp = par::guard(|| c2pa::verif_hooks::read_xmp(op.asset.mime, &out)).unwrap_or(None).map(|x| gutil::norm_ids(&x)).unwrap_or_else(|| "none".into());
                    let detail = if c == "Ok" { format!("{d} | output xmp: {xmp}") } else { format!("output unreadable: {c} {d}") };
                    Obs { class: "Ok".into(), detail, state: s, codes, logs, out_len: out.len() }
                }
            }
        }
        OpKind::Read | OpKind::ReadDetect | OpKind::ReadRemote => {
            let s = FaultStream::new(op.signed.clone(), sc.plan(0));
            let log = s.log();
            let hint = if op.kind == OpKind::ReadDetect { "application/octet-stream" } else { op.asset.mime };
            let r = par::guard(|| reader_obs(Reader::from_context(sdk::ctx()).with_stream(hint, s), false));
            let logs = vec![log.lock().unwrap_or_else(|e| e.into_inner()).clone()];
            match r {
                Err(p) => Obs { class: "PANIC".into(), detail: p, state: "-".into(), codes: vec![], logs, out_len: 0 },
                Ok((class, detail, state, codes)) => Obs { class, detail, state, codes, logs, out_len: 0 },
            }
        }
        OpKind::Ingredient => {
            let mut s = FaultStream::new(op.signed.clone(), sc.plan(0));
            let r = par::guard(|| {
                let mut b = Builder::from_context(sdk::ctx()).with_definition(DEF).unwrap_or_else(|e| kit::ev::machinery(format!("definition: {e:?}")));
                match b.add_ingredient_from_stream(ING, op.asset.mime, &mut s) {
                    Ok(ing) => {
                        let mut codes: Vec<String> = vec![];
                        if let Some(vr) = ing.validation_results() {
                            collect_failures(&serde_json::to_value(vr).unwrap_or(Value::Null), false, &mut codes);
                        }
                        if let Some(vs) = ing.validation_status() {
                            for x in vs {
                                if format!("{:?}", x.kind()) == "Failure" {
                                    codes.push(format!("/failure:{}", x.code()));
                                }
                            }
                        }
                        codes.sort();
                        codes.dedup();
                        let state = if ing.active_manifest().is_none() { "no-manifest" } else { ing.validation_results().map(|v| sdk::state_name(v.validation_state())).unwrap_or("no-results") };
                        ("Ok".to_string(), gutil::canon2_value(&*ing), state.to_string(), codes)
                    }
                    Err(e) => (gutil::err_class(&e), format!("{e:?}").chars().take(200).collect(), "-".into(), vec![]),
                }
            });
            let logs = vec![s.snapshot()];
            match r {
                Err(p) => Obs { class: "PANIC".into(), detail: p, state: "-".into(), codes: vec![], logs, out_len: 0 },
                Ok((class, detail, state, codes)) => Obs { class, detail, state, codes, logs, out_len: 0 },
            }
        }
    }
}

fn collect_failures(v: &Value, in_failure: bool, out: &mut Vec<String>) {
    match v {
        Value::Object(m) => {
            if in_failure {
                if let Some(Value::String(c)) = m.get("code") {
                    out.push(format!("/failure:{c}"));
                }
            }
            for (k, x) in m {
                collect_failures(x, in_failure || k == "failure", out);
            }
        }
        Value::Array(a) => a.iter().for_each(|x| collect_failures(x, in_failure, out)),
        _ => {}
    }
}

fn stream_name(op: &Op, s: usize) -> &'static str {
    match (op.kind, s) {
        (OpKind::Sign | OpKind::SignRemote, 0) => "src",
        (OpKind::Sign | OpKind::SignRemote, _) => "dst",
        _ => "in",
    }
}

/// Every single deviation that is possible after `after` in a run whose logs are `logs`.
fn next_deviations(op: &Op, logs: &[Log], after: Option<&D>) -> Vec<D> {
    let mut v = vec![];
    for s in 0..op.streams() {
        for k in 0..logs[s].calls {
            if let Some(a) = after {
                if a.stream == s && (k <= a.k || a.is_fail()) {
                    continue;
                }
            }
            v.push(D { stream: s, k, dev: "fail-sticky".into() });
            if let Some(c) = logs[s].trace.get(k as usize) {
                if matches!(c.kind, Kind::Read | Kind::Write) && c.moved.unwrap_or(0) >= 2 {
                    v.push(D { stream: s, k, dev: "short1".into() });
                }
            }
        }
    }
    v
}

fn exercised(sc: &Script, o: &Obs) -> bool {
    sc.devs.iter().all(|d| {
        let l = &o.logs[d.stream];
        if d.is_fail() { l.first_failure.is_some() } else { l.calls > d.k }
    })
}

/// Judge one run against the undisturbed one. Returns true when the scripted deviations were all reached.
fn judge(run: &Run, op: &Op, base: &Obs, sc: &Script, o: &Obs) -> bool {
    let fmt = op.family();
    let opn = op.kind.name();
    let case = json!({"op": op.name(), "script": sc.json()});
    let reached = exercised(sc, o);
    let where_ = sc.devs.iter().map(|d| format!("{}:{}", stream_name(op, d.stream), d.dev)).collect::<Vec<_>>().join("+");
    let how = match sc.chunk {
        Some(n) => format!("max-transfer={n}"),
        None => where_.clone(),
    };
    if o.class == "PANIC" {
        run.outcome("panic");
        let msg: String = o.detail.chars().take(70).collect();
        LIM.violation(run, format!("panic op={opn} how={how} fmt={fmt} msg={msg}"), format!("{}: {} panics: {}", op.name(), sc.describe(), o.detail), case);
        return reached;
    }
    if !sc.has_fail() {
        // legitimate stream behaviour only: the result must be the undisturbed one
        if o.class == base.class && o.detail == base.detail && o.state == base.state && o.out_len == base.out_len {
            run.outcome(if sc.chunk.is_some() { "chunked: same result" } else { "short transfer: same result" });
        } else {
            let got = if o.class == "Ok" { format!("Ok({})", o.state) } else { o.class.clone() };
            run.outcome("chunking changes result");
            LIM.violation(run, 
                format!("chunking-changes-result op={opn} got={got} fmt={fmt} how={}", if sc.chunk.is_some() { "uniform-max-transfer".to_string() } else { how.clone() }),
                format!("{}: with {} (no error injected) the result is {got} [{}] instead of the unchunked {}", op.name(), sc.describe(), first_diff(&base.detail, &o.detail), if base.class == "Ok" { format!("Ok({})", base.state) } else { base.class.clone() }),
                case,
            );
        }
        return reached;
    }
    if !reached {
        run.outcome("failure point not reached");
        return false;
    }
    if o.class != "Ok" {
        run.outcome("failure: error returned");
        return true;
    }
    // Ok after a sticky failure
    let undelivered: Vec<usize> = match op.kind {
        OpKind::Sign | OpKind::SignRemote => (0..op.asset.data.len()).filter(|p| !o.logs[0].delivered.get(*p).copied().unwrap_or(false)).collect(),
        _ => op.matter().iter().copied().filter(|p| !o.logs[0].delivered.get(*p).copied().unwrap_or(false)).collect(),
    };
    let same = o.detail == base.detail && o.state == base.state && o.out_len == base.out_len;
    let new_codes: Vec<&String> = o.codes.iter().filter(|c| !base.codes.contains(c)).collect();
    let code = new_codes.first().map(|s| s.rsplit(':').next().unwrap_or("").to_string()).unwrap_or_else(|| "-".into());
    let delivery = if undelivered.is_empty() {
        "every byte that matters had been delivered before the failure".to_string()
    } else {
        format!("{} byte(s) that matter were never delivered (first at offset {})", undelivered.len(), undelivered[0])
    };
    if op.is_sign() && (!same || !undelivered.is_empty()) {
        run.outcome("sign Ok after a failure: output differs / source not read");
        LIM.violation(run, 
            format!("sign-ok-after-io-failure op={opn} where={where_} readback={} code={code} fmt={fmt}", o.state),
            format!("{}: {}; sign returns Ok; {delivery}; a clean read of what it wrote gives {} [{}]", op.name(), sc.describe(), o.state, first_diff(&base.detail, &o.detail)),
            case,
        );
    } else if !op.is_sign() && base.state != "Invalid" && o.state == "Invalid" {
        run.outcome("I/O error hidden as a validation failure");
        LIM.violation(run, 
            format!("io-error-hidden-as-validation-failure op={opn} code={code} fmt={fmt}"),
            format!("I/O error hidden as a validation failure: {}: {} (failing call kind '{}'); result Ok(Invalid) with new failure code(s) {:?} instead of Err; {delivery}", op.name(), sc.describe(), call_kind(o, sc), new_codes),
            case,
        );
    } else if !same {
        run.outcome("I/O error changes an Ok result");
        LIM.violation(run, 
            format!("io-error-changes-result op={opn} state={} fmt={fmt}", o.state),
            format!("{}: {}; result Ok({}) differs from the undisturbed one [{}]; {delivery}", op.name(), sc.describe(), o.state, first_diff(&base.detail, &o.detail)),
            case,
        );
    } else if !undelivered.is_empty() {
        run.outcome("Ok(not Invalid) despite undelivered data");
        LIM.violation(run, 
            format!("valid-despite-undelivered-data op={opn} state={} fmt={fmt}", o.state),
            format!("{}: {}; the operation returns Ok({}) although {delivery}", op.name(), sc.describe(), o.state),
            case,
        );
    } else {
        run.outcome("failure after complete delivery: undisturbed result");
    }
    true
}

fn call_kind(o: &Obs, sc: &Script) -> char {
    sc.devs.iter().find(|d| d.is_fail()).and_then(|d| o.logs[d.stream].trace.get(d.k as usize)).map(|c| c.kind.letter()).unwrap_or('?')
}

fn first_diff(a: &str, b: &str) -> String {
    if a == b {
        return "same report".into();
    }
    let i = a.bytes().zip(b.bytes()).position(|(x, y)| x != y).unwrap_or(a.len().min(b.len()));
    let s = i.saturating_sub(30);
    let cut = |t: &str| t.chars().skip(s).take(90).collect::<String>();
    format!("reports differ at {i}: …{}… vs …{}…", cut(a), cut(b))
}

fn replace_all_same_len(data: &[u8], from: &[u8], to: &[u8]) -> Option<Vec<u8>> {
    assert_eq!(from.len(), to.len());
    let mut out = data.to_vec();
    let mut hit = false;
    let mut i = 0;
    while i + from.len() <= out.len() {
        if &out[i..i + from.len()] == from {
            out[i..i + from.len()].copy_from_slice(to);
            hit = true;
            i += from.len();
        } else {
            i += 1;
        }
    }
    hit.then_some(out)
}

/// The asset with nothing but a remote-manifest reference (XMP written by the SDK's own handler, plain cursors).
fn remote_only(a: &Asset) -> Option<Vec<u8>> {
    if !c2pa::verif_hooks::supports_remote_ref(a.mime) {
        return None;
    }
    par::guard(|| {
        let mut b = sdk::builder(sdk::ctx(), DEF);
        b.set_remote_url(REMOTE_URL);
        b.set_no_embed(true);
        sdk::sign(&mut b, signer(), a.mime, &a.data).ok().map(|(out, _)| out)
    })
    .unwrap_or(None)
}

/// XMP-bearing variants. jpeg/png: the kit recipes with an XMP packet that has several properties plus instance and
/// document id. Other formats: the packet the SDK's handler embeds for a remote reference, with the reference property
/// renamed (same length) and the ids replaced (same length) — an ordinary asset with XMP, no remote reference.
fn xmp_variants(formats: &[Asset], notes: &mut Vec<String>) -> Vec<Asset> {
    let ids = format!(" xmlns:xmpMM=\"http://ns.adobe.com/xap/1.0/mm/\" xmpMM:InstanceID=\"{XMP_IID}\" xmpMM:DocumentID=\"{XMP_DID}\"");
    let packet = assets::xmp_packet(&ids);
    let mut v = vec![];
    {
        let base = assets::jpeg();
        let mut seg = b"http://ns.adobe.com/xap/1.0/\0".to_vec();
        seg.extend_from_slice(packet.as_bytes());
        let mut d = base[..20].to_vec();
        d.extend_from_slice(&[0xFF, 0xE1]);
        d.extend_from_slice(&((seg.len() + 2) as u16).to_be_bytes());
        d.extend(seg);
        d.extend_from_slice(&base[20..]);
        v.push(assets::a("jpeg-xmp", "image/jpeg", "jpg", d));
    }
    {
        let base = assets::png();
        let mut itxt = b"XML:com.adobe.xmp\0\0\0\0\0".to_vec();
        itxt.extend_from_slice(packet.as_bytes());
        let mut d = base[..33].to_vec();
        d.extend(assets::png_chunk(b"iTXt", &itxt));
        d.extend(assets::png_chunk(b"tEXt", b"Comment\0hello"));
        d.extend_from_slice(&base[33..]);
        v.push(assets::a("png-xmp", "image/png", "png", d));
    }
    for a in formats {
        if a.name.contains('-') || matches!(a.name, "jpeg" | "png") {
            continue;
        }
        let Some(r) = remote_only(a) else { continue };
        let d = replace_all_same_len(&r, b"dcterms:provenance=", b"dcterms:provenancX=")
            .and_then(|d| replace_all_same_len(&d, MIN_IID.as_bytes(), XMP_IID.as_bytes()))
            .and_then(|d| replace_all_same_len(&d, MIN_DID.as_bytes(), XMP_DID.as_bytes()));
        match d {
            Some(d) => v.push(assets::a(Box::leak(format!("{}-xmp", a.name).into_boxed_str()), a.mime, a.ext, d)),
            None => notes.push(format!("{}: the XMP packet embedded by the handler is not stored as plain text; no derived XMP variant", a.name)),
        }
    }
    v
}

fn build_ops(run: &Run, notes: &mut Vec<String>) -> Vec<Op> {
    let mut formats: Vec<Asset> = if run.tier.is_thorough() { assets::all() } else { assets::base() };
    formats.retain(|a| !a.name.ends_with("-xmp")); // the kit's own XMP variants carry no ids; ours replace them
    let variants = xmp_variants(&formats, notes);
    let mut v = vec![];
    for a in formats.iter().chain(variants.iter()) {
        let is_variant = a.name.ends_with("-xmp");
        let hand_built = matches!(a.name, "jpeg-xmp" | "png-xmp");
        let signed = match par::guard(|| sdk::sign(&mut sdk::builder(sdk::ctx(), DEF), signer(), a.mime, &a.data)) {
            Ok(Ok((out, _))) => out,
            other => {
                if is_variant && !hand_built {
                    notes.push(format!("{}: derived XMP variant is not accepted for signing ({:?}); dropped", a.name, other.map(|r| r.map(|_| ()))));
                    continue;
                }
                kit::ev::machinery(format!("C35 seed {} cannot be signed: {:?}", a.name, other.map(|r| r.map(|_| ()))));
            }
        };
        match sdk::read(sdk::ctx(), a.mime, &signed) {
            Ok(r) if sdk::state_name(r.validation_state()) != "Invalid" => {}
            other => kit::ev::machinery(format!("C35 seed {} does not read back valid: {:?}", a.name, other.map(|r| r.validation_state()))),
        }
        let matter = std::sync::Arc::new(OnceLock::new());
        let kinds: &[OpKind] = if !is_variant {
            &[OpKind::Sign, OpKind::Read, OpKind::Ingredient, OpKind::ReadDetect]
        } else if hand_built {
            &[OpKind::Sign, OpKind::SignRemote, OpKind::Read, OpKind::Ingredient]
        } else {
            &[OpKind::Sign, OpKind::SignRemote, OpKind::Ingredient]
        };
        for kind in kinds {
            v.push(Op { kind: *kind, asset: a.clone(), signed: signed.clone(), matter: matter.clone() });
        }
        // remote-reference-only form (of the plain asset and of the hand-built XMP variants: the latter makes the
        // handler UPDATE an existing packet)
        if !is_variant || hand_built {
            if let Some(r) = remote_only(a) {
                v.push(Op { kind: OpKind::ReadRemote, asset: a.clone(), signed: r, matter: std::sync::Arc::new(OnceLock::new()) });
            }
        }
    }
    v
}

pub fn run(run: &Run, replay: Option<&Value>) {
    run.rule(
        "operations = {sign, read, read with a neutral format hint (detection from bytes), add_ingredient_from_stream} x kit formats and their XMP-bearing variants, \
         plus the operations that consult the XMP: read of a remote-reference-only asset (undisturbed outcome Err(RemoteManifestUrl)), sign / sign with a remote URL of a source whose XMP supplies \
         instance and document id (the ids and the output's XMP packet are part of the compared result). Every stream call of the SDK is a numbered choice point. \
         Enumerated: uniform maximum transfer n in {1,2,3,7,64}; for EVERY call k of the undisturbed run a 1-byte short transfer (where >= 2 bytes would move) and a sticky I/O error; \
         thorough adds every pair of deviations on the two smallest formats. non-trivial = runs whose scripted deviation was actually reached / actually shortened a transfer, distinct by (operation, script).",
    );
    run.assume("bytes that matter for a signed asset = positions whose single-byte alteration makes a clean read not Valid (exhaustive flips with plain cursors); for the source of sign = every byte");
    run.assume("a sticky failure stands for a device that stays broken; one-shot errors are not enumerated");
    run.assume("the injected error is io::ErrorKind::Other (not Interrupted, which std retries)");
    let mut notes: Vec<String> = vec![];
    let ops = build_ops(run, &mut notes);

    if let Some(c) = replay {
        let name = c["op"].as_str().unwrap_or("");
        let op = ops.iter().find(|o| o.name() == name).unwrap_or_else(|| kit::ev::machinery("C35 replay: unknown op"));
        let sc = Script::from_json(&c["script"]);
        let base = execute(op, &Script::default());
        let o = execute(op, &sc);
        println!("replay {name} with [{}]", sc.describe());
        println!("  undisturbed: {} state={} calls={:?}", base.class, base.state, base.logs.iter().map(|l| l.calls).collect::<Vec<_>>());
        println!("  this run   : {} state={} codes={:?} calls={:?} first_failure={:?}", o.class, o.state, o.codes, o.logs.iter().map(|l| l.calls).collect::<Vec<_>>(), o.logs.iter().map(|l| l.first_failure).collect::<Vec<_>>());
        if o.class != "Ok" {
            println!("  error: {}", o.detail);
        } else {
            println!("  result vs undisturbed: {}", first_diff(&base.detail, &o.detail));
            if std::env::var("VERIF_DEBUG").is_ok() {
                println!("  undisturbed result: {}\n  this result: {}", base.detail, o.detail);
            }
        }
        for d in &sc.devs {
            if let Some(call) = o.logs[d.stream].trace.get(d.k as usize) {
                println!("  call #{} on {}: {:?}", d.k, stream_name(op, d.stream), call);
            }
        }
        run.eval();
        judge(run, op, &base, &sc, &o);
        return;
    }

    // ---- undisturbed runs (twice: own the nondeterminism) -----------------------------------------
    let mut bases: Vec<Option<Obs>> = vec![];
    let mut skipped = vec![];
    for op in &ops {
        let b1 = execute(op, &Script::default());
        let b2 = execute(op, &Script::default());
        run.evals(2);
        let same_calls = b1.logs.iter().zip(&b2.logs).all(|(x, y)| x.calls == y.calls && x.kinds(usize::MAX) == y.kinds(usize::MAX));
        if b1.class != b2.class || b1.detail != b2.detail || !same_calls {
            kit::ev::machinery(format!("C35: undisturbed {} is not deterministic ({} vs {}; {})", op.name(), b1.class, b2.class, first_diff(&b1.detail, &b2.detail)));
        }
        if op.kind == OpKind::ReadRemote {
            // in this operation's domain only when the undisturbed read reports the reference
            if b1.class == "Err(RemoteManifestUrl)" && b1.detail.contains(REMOTE_URL) {
                bases.push(Some(b1));
            } else {
                skipped.push(format!("{} (undisturbed: {})", op.name(), b1.class));
                bases.push(None);
            }
            continue;
        }
        if op.is_sign() && op.asset.name.ends_with("-xmp") && b1.class == "Ok" && !b1.detail.contains(XMP_IID) {
            // the operation must really take the instance id from the source XMP, or the variant proves nothing
            if matches!(op.asset.name, "jpeg-xmp" | "png-xmp") {
                kit::ev::machinery(format!("C35 seed: {} does not carry the instance id of the source XMP into its result", op.name()));
            }
            skipped.push(format!("{} (instance id of the source XMP not used)", op.name()));
            bases.push(None);
            continue;
        }
        if op.kind == OpKind::ReadDetect && (b1.class != "Ok" || b1.state == "Invalid") {
            // formats the SDK cannot detect from their leading bytes are outside this operation's domain
            skipped.push(op.name());
            bases.push(None);
            continue;
        }
        if b1.class != "Ok" || b1.state == "Invalid" {
            kit::ev::machinery(format!("C35 seed: undisturbed {} gives {} {} {}", op.name(), b1.class, b1.state, b1.detail.chars().take(200).collect::<String>()));
        }
        bases.push(Some(b1));
    }
    run.extra("operations_not_applicable", json!(skipped));
    run.extra("xmp_variant_notes", json!(notes));
    run.extra("xmp_variants", json!(ops.iter().filter(|o| o.kind == OpKind::Sign && o.asset.name.ends_with("-xmp")).map(|o| o.asset.name).collect::<Vec<_>>()));
    run.extra("read_remote_formats", json!(ops.iter().enumerate().filter(|(i, o)| o.kind == OpKind::ReadRemote && bases[*i].is_some()).map(|(_, o)| o.asset.name).collect::<Vec<_>>()));
    let live: Vec<usize> = (0..ops.len()).filter(|i| bases[*i].is_some()).collect();
    for i in live.iter().take(3) {
        let b = bases[*i].as_ref().unwrap();
        run.sample(json!({"op": ops[*i].name(), "undisturbed_calls_per_stream": b.logs.iter().map(|l| l.calls).collect::<Vec<_>>(), "first_calls": b.logs[0].kinds(40)}));
    }
    let calls_total: u64 = live.iter().map(|i| bases[*i].as_ref().unwrap().logs.iter().map(|l| l.calls).sum::<u64>()).sum();
    run.extra("choice_points_undisturbed_total", json!(calls_total));

    // ---- zero deviations: uniform chunking --------------------------------------------------------
    let mut scripts: Vec<(usize, Script)> = vec![];
    for i in &live {
        for n in CHUNKS {
            scripts.push((*i, Script { chunk: Some(n), devs: vec![] }));
        }
    }
    run.space("uniform maximum transfer size n in {1,2,3,7,64} x operation x format", scripts.len() as u64, true);
    let n_chunk = scripts.len();

    // ---- bound 1 ------------------------------------------------------------------------------------
    for i in &live {
        let b = bases[*i].as_ref().unwrap();
        for d in next_deviations(&ops[*i], &b.logs, None) {
            scripts.push((*i, Script { chunk: None, devs: vec![d] }));
        }
    }
    run.space("deviation bound 1: (operation, format, stream, call k, {1-byte short transfer, sticky I/O error}) for every call k of the undisturbed run", (scripts.len() - n_chunk) as u64, true);

    let level1: Mutex<Vec<(usize, Script, Vec<Log>)>> = Mutex::new(vec![]);
    let two_smallest: BTreeSet<&str> = {
        let mut a: Vec<&Asset> = ops.iter().map(|o| &o.asset).collect();
        a.sort_by_key(|a| a.data.len());
        a.dedup_by_key(|a| a.name);
        a.iter().take(2).map(|a| a.name).collect()
    };
    let want_level2 = run.tier.is_thorough();
    par::for_each(&scripts, |(i, sc)| {
        let op = &ops[*i];
        let base = bases[*i].as_ref().unwrap();
        let o = execute(op, sc);
        run.eval();
        let reached = judge(run, op, base, sc, &o);
        if sc.chunk.is_some() {
            if o.logs.iter().any(|l| l.shortened > 0) {
                run.nontrivial(format!("{}|{}", op.name(), sc.describe()));
            }
            return;
        }
        if !reached {
            kit::ev::machinery(format!("C35: {} diverged before the scripted deviation [{}] (undisturbed prefix not reproduced)", op.name(), sc.describe()));
        }
        run.nontrivial(format!("{}|{}", op.name(), sc.describe()));
        if want_level2 && two_smallest.contains(op.asset.name) && !matches!(op.kind, OpKind::ReadDetect | OpKind::ReadRemote | OpKind::SignRemote) {
            level1.lock().unwrap().push((*i, sc.clone(), o.logs.clone()));
        }
    });

    // ---- bound 2 (thorough; two smallest formats) -------------------------------------------------------
    if want_level2 {
        let l1 = level1.into_inner().unwrap();
        let mut seen: BTreeSet<(usize, Vec<D>)> = BTreeSet::new();
        let mut pairs: Vec<(usize, Script)> = vec![];
        for (i, sc, logs) in &l1 {
            let d1 = &sc.devs[0];
            for d2 in next_deviations(&ops[*i], logs, Some(d1)) {
                let mut set = vec![d1.clone(), d2];
                set.sort();
                if seen.insert((*i, set.clone())) {
                    pairs.push((*i, Script { chunk: None, devs: set }));
                }
            }
        }
        run.space(&format!("deviation bound 2 on the two smallest formats {two_smallest:?}: every pair of deviations, the second taken from the run containing the first"), pairs.len() as u64, true);
        par::for_each(&pairs, |(i, sc)| {
            let op = &ops[*i];
            let o = execute(op, sc);
            run.eval();
            if judge(run, op, bases[*i].as_ref().unwrap(), sc, &o) {
                run.nontrivial(format!("{}|{}", op.name(), sc.describe()));
            }
        });
        run.extra("deviation_bound_completed", json!(2));
    } else {
        run.extra("deviation_bound_completed", json!(1));
    }
    let computed: Vec<Value> = ops.iter().filter(|o| o.kind == OpKind::Read).filter_map(|o| o.matter.get().map(|m| json!({"asset": o.asset.name, "signed_len": o.signed.len(), "bytes_that_matter": m.len()}))).collect();
    run.extra("bytes_that_matter_computed_for", json!(computed));
    run.extra("violating_cases_by_key", LIM.counts());
}

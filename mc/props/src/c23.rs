//! C23 — cancellation is always reported as cancellation.
//! S-env, deviation bound 1: for every operation, the undisturbed run records its K progress
//! callbacks; then for EVERY k < K one run returns false at call k, and one run calls
//! Context::cancel() at call k (and returns true). Runs go to completion.

use c2pa::{Builder, Context, ProgressPhase, Reader};
use kit::{assets, par, sdk, Run};
use serde_json::{json, Value};
use std::io::Cursor;
use std::sync::{Arc, Mutex, OnceLock, Weak};

#[derive(Clone, Copy, PartialEq, Debug)]
enum Dev {
    None,
    ReturnFalseAt(usize),
    CancelAt(usize),
}

type Calls = Arc<Mutex<Vec<(String, u32, u32)>>>;

struct Env {
    ctx: Arc<Context>,
    calls: Calls,
}

fn mk_ctx(dev: Dev, extra: &[&str]) -> Env {
    let calls: Calls = Arc::new(Mutex::new(vec![]));
    let weak: Arc<OnceLock<Weak<Context>>> = Arc::new(OnceLock::new());
    let (c2, w2) = (calls.clone(), weak.clone());
    let ctx = sdk::ctx_with(extra).with_progress_callback(move |phase: ProgressPhase, step, total| {
        let k = {
            let mut g = c2.lock().unwrap();
            g.push((format!("{phase:?}"), step, total));
            g.len() - 1
        };
        match dev {
            Dev::ReturnFalseAt(x) if x == k => false,
            Dev::CancelAt(x) if x == k => {
                if let Some(c) = w2.get().and_then(|w| w.upgrade()) {
                    c.cancel();
                }
                true
            }
            _ => true,
        }
    });
    let ctx = ctx.with_signer(sdk::SendSigner(sdk::fixture_signer("ed25519"))).into_shared();
    let _ = weak.set(Arc::downgrade(&ctx));
    Env { ctx, calls }
}

/// Result classes
fn class<T>(r: &c2pa::Result<T>, describe: impl Fn(&T) -> String) -> String {
    match r {
        Ok(t) => format!("Ok({})", describe(t)),
        Err(c2pa::Error::OperationCancelled) => "Cancelled".into(),
        Err(e) => format!("Err({})", sdk::err_kind(e)),
    }
}

struct Op {
    name: String,
    f: Box<dyn Fn(&Env) -> String + Send + Sync>,
}

fn ops(run: &Run) -> Vec<Op> {
    let mut v: Vec<Op> = vec![];
    let signer = || sdk::fixture_signer("ed25519");
    let formats = if run.tier.is_thorough() { assets::all() } else { assets::base() };
    for a in formats {
        // sign embedded
        let a1 = a.clone();
        v.push(Op { name: format!("sign/{}", a.name), f: Box::new(move |env| {
            let mut b = Builder::from_shared_context(&env.ctx).with_definition(r#"{"title":"t"}"#).unwrap();
            b.set_intent(c2pa::BuilderIntent::Edit);
            let mut dst = Cursor::new(Vec::new());
            let r = b.sign(signer().as_ref(), a1.mime, &mut Cursor::new(&a1.data), &mut dst);
            class(&r, |_| "signed".into())
        })});
        // read embedded
        let signed = sdk::sign_simple(signer().as_ref(), a.mime, &a.data, &[]);
        let mime = a.mime;
        let s1 = signed.clone();
        v.push(Op { name: format!("read/{}", a.name), f: Box::new(move |env| {
            let r = Reader::from_shared_context(&env.ctx).with_stream(mime, Cursor::new(&s1));
            class(&r, |rd| format!("{:?}", rd.validation_state()))
        })});
        // add as ingredient (signed) then nothing else
        let s2 = signed.clone();
        v.push(Op { name: format!("ingredient/{}", a.name), f: Box::new(move |env| {
            let mut b = Builder::from_shared_context(&env.ctx).with_definition(r#"{"title":"t"}"#).unwrap();
            let r = b.add_ingredient_from_stream(r#"{"title":"i","relationship":"componentOf"}"#, mime, &mut Cursor::new(&s2)).map(|_| ());
            class(&r, |_| "added".into())
        })});
    }
    // sidecar / remote flows and ingredient-carrying reads on two formats
    for name in ["jpeg", "png", "mp4"] {
        let a = assets::by_name(name);
        let a1 = a.clone();
        v.push(Op { name: format!("sign-sidecar/{name}"), f: Box::new(move |env| {
            let mut b = Builder::from_shared_context(&env.ctx).with_definition(r#"{"title":"t"}"#).unwrap();
            b.set_intent(c2pa::BuilderIntent::Edit);
            b.set_no_embed(true);
            let mut dst = Cursor::new(Vec::new());
            let r = b.sign(signer().as_ref(), a1.mime, &mut Cursor::new(&a1.data), &mut dst);
            class(&r, |_| "signed".into())
        })});
        // asset with a signed ingredient, then read
        let inner = sdk::sign_simple(signer().as_ref(), a.mime, &a.data, &[]);
        let mut b = sdk::builder(sdk::ctx(), r#"{"title":"outer"}"#);
        b.add_ingredient_from_stream(r#"{"title":"i","relationship":"componentOf"}"#, a.mime, &mut Cursor::new(&inner)).unwrap_or_else(|e| kit::ev::machinery(format!("C23 seed ingredient: {e:?}")));
        let (outer, _) = sdk::sign(&mut b, signer().as_ref(), a.mime, &inner).unwrap_or_else(|e| kit::ev::machinery(format!("C23 seed outer: {e:?}")));
        let mime = a.mime;
        v.push(Op { name: format!("read-with-ingredients/{name}"), f: Box::new(move |env| {
            let r = Reader::from_shared_context(&env.ctx).with_stream(mime, Cursor::new(&outer));
            class(&r, |rd| format!("{:?}", rd.validation_state()))
        })});
        // sidecar read: manifest data + stream
        let a2 = a.clone();
        let (sc_asset, sc_manifest) = {
            let mut b = sdk::builder(sdk::ctx(), r#"{"title":"t"}"#);
            b.set_no_embed(true);
            sdk::sign(&mut b, signer().as_ref(), a2.mime, &a2.data).unwrap_or_else(|e| kit::ev::machinery(format!("C23 seed sidecar: {e:?}")))
        };
        v.push(Op { name: format!("read-sidecar/{name}"), f: Box::new(move |env| {
            let r = Reader::from_shared_context(&env.ctx).with_manifest_data_and_stream(&sc_manifest, mime, Cursor::new(&sc_asset));
            class(&r, |rd| format!("{:?}", rd.validation_state()))
        })});
    }
    // fragmented BMFF reads (repository DASH fixtures: init segment + one media segment)
    {
        let init = sdk::fixture("dashinit.mp4");
        let frag = sdk::fixture("dash1.m4s");
        let (i1, f1) = (init.clone(), frag.clone());
        v.push(Op { name: "read-fragment/dash".into(), f: Box::new(move |env| {
            let r = Reader::from_shared_context(&env.ctx).with_fragment("video/mp4", Cursor::new(&i1), Cursor::new(&f1));
            class(&r, |rd| format!("{:?}", rd.validation_state()))
        })});
        // file based variant over a list of fragment paths
        let dir = std::env::temp_dir().join(format!("verif-c23-{}", std::process::id()));
        let _ = std::fs::create_dir_all(&dir);
        let ip = dir.join("dashinit.mp4");
        let fp = dir.join("dash1.m4s");
        if std::fs::write(&ip, &init).is_err() || std::fs::write(&fp, &frag).is_err() {
            kit::ev::machinery("C23: cannot write fragment fixtures to the temp dir");
        }
        v.push(Op { name: "read-fragmented-files/dash".into(), f: Box::new(move |env| {
            let r = Reader::from_shared_context(&env.ctx).with_fragmented_files(&ip, &vec![fp.clone()]);
            class(&r, |rd| format!("{:?}", rd.validation_state()))
        })});
    }
    // placeholder + embeddable flow (data hash) on jpeg/png
    for name in ["jpeg", "png"] {
        let a = assets::by_name(name);
        v.push(Op { name: format!("embeddable/{name}"), f: Box::new(move |env| {
            let ctx2 = Arc::clone(&env.ctx);
            let r: c2pa::Result<()> = (|| {
                let mut b = Builder::from_shared_context(&ctx2).with_definition(r#"{"title":"t"}"#)?;
                b.set_intent(c2pa::BuilderIntent::Create(c2pa::DigitalSourceType::DigitalCapture));
                let ph = b.placeholder(a.mime)?;
                // insert the composed placeholder after SOI (jpeg) / signature+IHDR (png)
                let at = if a.mime == "image/jpeg" { 2 } else { 33 };
                let mut out = a.data[..at].to_vec(); out.extend_from_slice(&ph); out.extend_from_slice(&a.data[at..]);
                b.set_data_hash_exclusions(vec![c2pa::HashRange::new(at as u64, ph.len() as u64)])?;
                b.update_hash_from_stream(a.mime, &mut Cursor::new(&out))?;
                let signed = b.sign_embeddable(a.mime)?;
                let _ = signed;
                Ok(())
            })();
            if std::env::var("VERIF_DEBUG").is_ok() { eprintln!("embeddable: {r:?}"); }
            class(&r, |_| "embeddable".into())
        })});
    }
    v
}

fn last_index_note(k: usize, total: usize) -> bool { k + 1 == total }

pub fn run(run: &Run, replay: Option<&Value>) {
    run.rule("operations = {sign, read, add-ingredient} x every kit format + sidecar/ingredient/embeddable flows; for each, the undisturbed run's K callbacks are recorded and \
              EVERY k<K is disturbed once by returning false and once by Context::cancel() (deviation bound 1). non-trivial = disturbed runs (each has a distinct (op,k,kind)).");
    run.assume("the cancel flag is only read at progress checkpoints, so cancel() issued inside callback k stands for every canceller-thread placement between checkpoints k and k+1");
    let ops = ops(run);
    if let Some(c) = replay {
        let name = c["op"].as_str().unwrap_or("");
        let k = c["k"].as_u64().unwrap_or(0) as usize;
        let dev = if c["kind"] == "cancel" { Dev::CancelAt(k) } else { Dev::ReturnFalseAt(k) };
        let op = ops.iter().find(|o| o.name == name).unwrap_or_else(|| kit::ev::machinery("unknown op in replay"));
        let env = mk_ctx(dev, &[]);
        let out = (op.f)(&env);
        println!("replay {name} {dev:?}: outcome {out}; calls: {:?}", env.calls.lock().unwrap());
        run.eval();
        if out != "Cancelled" { run.violation("replay", out, c.clone()); }
        return;
    }
    // 1. undisturbed runs
    struct Base { k: usize, out: String, calls: Vec<(String, u32, u32)> }
    let bases: Vec<Base> = ops.iter().map(|op| {
        let env = mk_ctx(Dev::None, &[]);
        let out = par::guard(|| (op.f)(&env)).unwrap_or_else(|p| format!("PANIC {p}"));
        let calls = env.calls.lock().unwrap().clone();
        // determinism: second undisturbed run must see the same callback sequence
        let env2 = mk_ctx(Dev::None, &[]);
        let out2 = par::guard(|| (op.f)(&env2)).unwrap_or_else(|p| format!("PANIC {p}"));
        if *env2.calls.lock().unwrap() != calls || out2 != out {
            kit::ev::machinery(format!("C23: undisturbed run of {} is not deterministic", op.name));
        }
        run.eval(); run.eval();
        if !out.starts_with("Ok(") {
            kit::ev::machinery(format!("C23 seed: undisturbed {} gives {out}", op.name));
        }
        // progress-step rules
        let mut prev: Option<(String, u32)> = None;
        for (i, (ph, step, total)) in calls.iter().enumerate() {
            let mut bad = None;
            if *step < 1 { bad = Some("step < 1"); }
            if *total != 0 && step > total { bad = Some("step > non-zero total"); }
            if let Some((pp, ps)) = &prev { if pp == ph && *step <= *ps { bad = Some("step not increasing within a run of the same phase"); } }
            if let Some(b) = bad {
                run.violation(format!("progress-steps {} phase={ph} rule={b}", op.name.split('/').next().unwrap_or("")),
                    format!("{}: callback #{i} = ({ph},{step},{total}): {b}; sequence {:?}", op.name, calls), json!({"op":op.name,"k":i,"kind":"steps"}));
            }
            prev = Some((ph.clone(), *step));
        }
        Base { k: calls.len(), out, calls }
    }).collect();
    run.sample(json!({"op": ops[0].name, "undisturbed_callbacks": bases[0].calls, "outcome": bases[0].out}));
    run.sample(json!({"op": ops[1].name, "undisturbed_callbacks": bases[1].calls, "outcome": bases[1].out}));

    // 2. all single deviations
    let mut cases: Vec<(usize, Dev)> = vec![];
    for (i, b) in bases.iter().enumerate() {
        for k in 0..b.k { cases.push((i, Dev::ReturnFalseAt(k))); cases.push((i, Dev::CancelAt(k))); }
    }
    run.space("(operation, callback index k, {return false, cancel()})", cases.len() as u64, true);
    par::for_each(&cases, |(i, dev)| {
        let op = &ops[*i];
        let base = &bases[*i];
        let env = mk_ctx(*dev, &[]);
        let out = par::guard(|| (op.f)(&env)).unwrap_or_else(|p| format!("PANIC {p}"));
        run.eval();
        let (k, kind) = match dev { Dev::ReturnFalseAt(k) => (*k, "false"), Dev::CancelAt(k) => (*k, "cancel"), Dev::None => (0, "") };
        run.nontrivial(format!("{}/{k}/{kind}", op.name));
        let phase = base.calls[k].0.clone();
        run.outcome(out.split('(').next().unwrap_or("").to_string());
        let calls_seen = env.calls.lock().unwrap().len();
        // prefix determinism: the disturbed run must have reached callback k
        if calls_seen <= k { kit::ev::machinery(format!("C23: disturbed run of {} diverged before callback {k}", op.name)); }
        let ok = out == "Cancelled" || (kind == "cancel" && last_index_note(k, base.k) && out == base.out);
        if !ok {
            let opkind = op.name.split('/').next().unwrap_or("");
            run.violation(format!("not-cancelled op={opkind} phase={phase} kind={kind} outcome={}", out),
                format!("{}: {} at callback #{k} ({phase} {}/{}) ended with {out} instead of OperationCancelled", op.name,
                    if kind == "false" {"returning false"} else {"Context::cancel()"}, base.calls[k].1, base.calls[k].2),
                json!({"op": op.name, "k": k, "kind": kind}));
        }
    });
}

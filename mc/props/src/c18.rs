//! C18 — JUMBF manifest stores round-trip canonically.
//!
//! S-inp.  Stores are produced by signing kit assets with a small generator of manifest definitions (plain on every kit
//! format, compressed, rich assertion set with thumbnail resource and repeated labels, claim v1, parent + component
//! ingredients, redaction of an ingredient assertion, update manifest, compressed with ingredients, sidecar) PLUS the full
//! product kind {create, edit, update} x active manifest {plain, compressed} x parent manifest {plain, compressed} x content
//! {none, component ingredient, redaction, both} wherever the Builder accepts the combination (names "x-…"), and taken out
//! of the signed asset with `jumbf_io::load_jumbf_from_memory`.
//!   (a) produced stores:  store_to_jumbf(store_from_jumbf(b)) == b, byte for byte;
//!   (b) EVERY single-byte mutant m of the mutation seeds: every offset x a value set in priority order {^0x01, ^0x80, '/', +1,
//!       0x00, 0xFF, other xor masks} whose size is fixed per seed (quick: 30000/len clamped to 2..255, compressed seeds 1;
//!       thorough: all 255 for stores <= 5000 bytes, 64 for larger ones, 16 / 2 for compressed ones — brotli re-compression
//!       costs 30-60 ms per accepted mutant) and stated in the evidence: if the parser accepts m, then with
//!       c = to(from(m)):  from(c) is accepted and to(from(c)) == c.
//! Independent part: a 60-line JUMBF box walker that names the box a mutated offset lies in (violation keys, coverage per box).
//!
//! Finding on the unchanged tree: a manifest whose assertion-store / claim / signature box carries an unrecognised LABEL is
//! accepted (boxes are found by UUID, the tracker is in continue mode) but the box is left out when the store is written
//! (box order is recorded by label), so to(from(m)) lacks a mandatory box and is rejected: keys "reserialised-rejected at=…".
//!
//! Mutants caught (quick tier, patched scratch worktree, /verif/target-mut-C):
//!   /verif/mutants/C18-compressed-flag-lost.diff from_jumbf no longer carries the "compressed" flag into the claim (brob stores re-serialise uncompressed)
//!       -> "produced-store roundtrip differs seed=compressed-jpeg|compressed-ingredients-jpeg at=/jumb:header"
//!   /tmp/seed-C18/OUT/patch.diff (independently seeded) update/c2md flag read from the OUTER box uuid, which is c2cm for compressed manifests
//!       -> "produced-store roundtrip differs seed=x-update-act=z-par=p|z-none|redaction at=…" (only the factor-product seeds show it)
//!   /verif/mutants/C18-update-flag-lost.diff     from_jumbf no longer marks update manifests (c2um boxes re-serialise as c2ma)
//!       -> "produced-store roundtrip differs seed=update-jpeg at=/c2pa/<manifest>/jumd:payload"

use c2pa::{
    verif_hooks::{store_from_jumbf, store_to_jumbf},
    Builder, BuilderIntent, Context,
};
use kit::{assets, ev, par, sdk, Run};
use serde_json::{json, Value};
use std::{
    collections::BTreeMap,
    io::Cursor,
    sync::{
        atomic::{AtomicU64, Ordering},
        Mutex,
    },
};

struct Seed {
    name: String,
    store: Vec<u8>,
    mutate: bool,
}

const GEN: &str = r#""claim_generator_info":[{"name":"verif-c18","version":"1.0"}]"#;

/// Seeds are signed without the SDK's own verify-after-sign pass: the round trip is what THIS check judges.
const NO_VERIFY: &str = r#"{"verify":{"verify_after_sign":false}}"#;
fn sctx(extra: &[&str]) -> Context {
    let mut v = vec![NO_VERIFY];
    v.extend_from_slice(extra);
    sdk::ctx_with(&v)
}

fn signer() -> Box<dyn c2pa::Signer + Send + Sync> {
    sdk::fixture_signer("ed25519")
}

fn extract(mime: &str, signed: &[u8], what: &str) -> Vec<u8> {
    c2pa::jumbf_io::load_jumbf_from_memory(mime, signed).unwrap_or_else(|e| ev::machinery(format!("C18 seed {what}: cannot take the store out of the signed asset: {e:?}")))
}

fn sign_def(ctx: Context, def: &str, intent: BuilderIntent, mime: &str, src: &[u8], prep: impl FnOnce(&mut Builder), what: &str) -> (Vec<u8>, Vec<u8>) {
    let mut b = Builder::from_context(ctx).with_definition(def).unwrap_or_else(|e| ev::machinery(format!("C18 seed {what}: definition rejected: {e:?}")));
    b.set_intent(intent);
    prep(&mut b);
    let mut dst = Cursor::new(Vec::new());
    let manifest = b
        .sign(signer().as_ref(), mime, &mut Cursor::new(src), &mut dst)
        .unwrap_or_else(|e| ev::machinery(format!("C18 seed {what}: signing failed: {e:?}")));
    (dst.into_inner(), manifest)
}

fn create() -> BuilderIntent {
    BuilderIntent::Create(c2pa::DigitalSourceType::DigitalCapture)
}

fn seeds(thorough: bool) -> Vec<Seed> {
    let mut v: Vec<Seed> = vec![];
    let jpeg = assets::by_name("jpeg");
    let png = assets::by_name("png");
    let compress = r#"{"core":{"prefer_compress_manifests":true}}"#;
    let plain_def = format!(r#"{{"title":"plain",{GEN}}}"#);

    // plain, every kit format
    for a in assets::base() {
        let (signed, _) = sign_def(sctx(&[]), &plain_def, create(), a.mime, &a.data, |_| {}, &format!("plain-{}", a.name));
        v.push(Seed { name: format!("plain-{}", a.name), store: extract(a.mime, &signed, a.name), mutate: a.name == "jpeg" || (thorough && (a.name == "mp4" || a.name == "png")) });
    }
    // compressed
    {
        let (signed, _) = sign_def(sctx(&[compress]), &plain_def, create(), jpeg.mime, &jpeg.data, |_| {}, "compressed-jpeg");
        v.push(Seed { name: "compressed-jpeg".into(), store: extract(jpeg.mime, &signed, "compressed-jpeg"), mutate: true });
    }
    // rich assertion set
    let rich_def = format!(
        r#"{{"title":"rich",{GEN},"thumbnail":{{"format":"image/jpeg","identifier":"thumb.jpg"}},
        "assertions":[
          {{"label":"c2pa.actions.v2","data":{{"actions":[{{"action":"c2pa.created","digitalSourceType":"http://cv.iptc.org/newscodes/digitalsourcetype/digitalCapture"}},{{"action":"c2pa.edited","parameters":{{"description":"x"}}}}]}}}},
          {{"label":"com.example.note","data":{{"text":"first"}}}},
          {{"label":"com.example.note","data":{{"text":"second"}}}},
          {{"label":"com.example.cbor","kind":"Cbor","data":{{"n":1,"list":[1,2,3]}}}},
          {{"label":"stds.schema-org.CreativeWork","kind":"Json","data":{{"@context":"https://schema.org","@type":"CreativeWork","author":[{{"@type":"Person","name":"A"}}]}}}}
        ]}}"#
    );
    let rich_signed = {
        let (signed, _) = sign_def(sctx(&[]), &rich_def, create(), jpeg.mime, &jpeg.data, |b| {
            b.add_resource("thumb.jpg", Cursor::new(jpeg.data.clone())).unwrap_or_else(|e| ev::machinery(format!("C18 seed rich: add_resource: {e:?}")));
        }, "rich-jpeg");
        v.push(Seed { name: "rich-jpeg".into(), store: extract(jpeg.mime, &signed, "rich-jpeg"), mutate: true });
        signed
    };
    // claim v1
    {
        let def = format!(r#"{{"title":"v1","claim_version":1,"claim_generator":"verif-c18/1.0",{GEN},"assertions":[{{"label":"com.example.note","data":{{"text":"v1"}}}}]}}"#);
        let mut b = Builder::from_context(sctx(&[])).with_definition(def.as_str()).unwrap_or_else(|e| ev::machinery(format!("C18 seed v1: {e:?}")));
        let mut dst = Cursor::new(Vec::new());
        match b.sign(signer().as_ref(), jpeg.mime, &mut Cursor::new(&jpeg.data), &mut dst) {
            Ok(_) => v.push(Seed { name: "claim-v1-jpeg".into(), store: extract(jpeg.mime, dst.get_ref(), "claim-v1"), mutate: thorough }),
            Err(e) => ev::machinery(format!("C18 seed claim-v1: signing failed: {e:?}")),
        }
    }
    // parent (the rich asset) + component ingredient (a signed png)
    let png_signed = sdk::sign_simple(signer().as_ref(), png.mime, &png.data, &[NO_VERIFY]);
    let ingredient_def = format!(r#"{{"title":"with-ingredients",{GEN}}}"#);
    let add_component = |b: &mut Builder| {
        b.add_ingredient_from_stream(r#"{"title":"component","relationship":"componentOf"}"#, "image/png", &mut Cursor::new(&png_signed))
            .map(|_| ())
            .unwrap_or_else(|e| ev::machinery(format!("C18 seed ingredients: add_ingredient_from_stream: {e:?}")));
    };
    {
        let (signed, _) = sign_def(sctx(&[]), &ingredient_def, BuilderIntent::Edit, jpeg.mime, &rich_signed, add_component, "ingredients-jpeg");
        v.push(Seed { name: "ingredients-jpeg".into(), store: extract(jpeg.mime, &signed, "ingredients"), mutate: true });
        let (signed, _) = sign_def(sctx(&[compress]), &ingredient_def, BuilderIntent::Edit, jpeg.mime, &rich_signed, add_component, "compressed-ingredients-jpeg");
        v.push(Seed { name: "compressed-ingredients-jpeg".into(), store: extract(jpeg.mime, &signed, "compressed-ingredients"), mutate: thorough });
    }
    // redaction of an assertion of the parent
    {
        let parent = sdk::read(sdk::ctx(), jpeg.mime, &rich_signed).unwrap_or_else(|e| ev::machinery(format!("C18 seed redaction: cannot read the parent: {e:?}")));
        let label = parent.active_label().unwrap_or_else(|| ev::machinery("C18 seed redaction: parent has no active manifest")).to_string();
        let uri = c2pa::verif_hooks::label::to_assertion_uri(&label, "stds.schema-org.CreativeWork");
        let def = format!(
            r#"{{"title":"redacting",{GEN},"redactions":["{uri}"],"assertions":[{{"label":"c2pa.actions.v2","data":{{"actions":[{{"action":"c2pa.redacted","reason":"c2pa.PII.present","parameters":{{"redacted":"{uri}"}}}}]}}}}]}}"#
        );
        let (signed, _) = sign_def(sctx(&[]), &def, BuilderIntent::Edit, jpeg.mime, &rich_signed, |_| {}, "redaction-jpeg");
        let store = extract(jpeg.mime, &signed, "redaction");
        // the redaction must really be in the store
        let rd = sdk::read(sdk::ctx(), jpeg.mime, &signed).unwrap_or_else(|e| ev::machinery(format!("C18 seed redaction: cannot read back: {e:?}")));
        let still = rd.get_manifest(&label).map(|m| m.assertions().iter().any(|a| a.label() == "stds.schema-org.CreativeWork")).unwrap_or(true);
        if still {
            ev::machinery("C18 seed redaction: the assertion is still present in the parent manifest");
        }
        v.push(Seed { name: "redaction-jpeg".into(), store, mutate: true });
    }
    // update manifest on top of the rich asset
    {
        let def = format!(r#"{{"title":"update",{GEN}}}"#);
        let (signed, _) = sign_def(sctx(&[]), &def, BuilderIntent::Update, jpeg.mime, &rich_signed, |_| {}, "update-jpeg");
        v.push(Seed { name: "update-jpeg".into(), store: extract(jpeg.mime, &signed, "update"), mutate: true });
    }
    // sidecar
    {
        let (_, manifest) = sign_def(sctx(&[]), &plain_def, create(), png.mime, &png.data, |b| { b.set_no_embed(true); }, "sidecar-png");
        v.push(Seed { name: "sidecar-png".into(), store: manifest, mutate: false });
    }
    // ---- full product of the generator's factors (produced-store round trip only, never mutated) ----------------------
    //   kind    in {create, edit, update}            (the manifest kinds the Builder can emit; c2md is only ever read)
    //   active  in {plain, compressed}               (core.prefer_compress_manifests while signing this manifest)
    //   parent  in {plain, compressed}               (how the manifest of the source asset was stored; edit/update only)
    //   content in {none, component, redaction, component+redaction}
    // Combinations the Builder refuses (e.g. a component ingredient in an update manifest, a redaction without a parent)
    // are counted as "refused", not as failures; names start with "x-".
    let rich_signed_z = {
        let (signed, _) = sign_def(sctx(&[compress]), &rich_def, create(), jpeg.mime, &jpeg.data, |b| {
            b.add_resource("thumb.jpg", Cursor::new(jpeg.data.clone())).unwrap_or_else(|e| ev::machinery(format!("C18 seed rich-z: add_resource: {e:?}")));
        }, "rich-compressed-jpeg");
        signed
    };
    let mut refused = 0usize;
    let mut produced = 0usize;
    for (kind, intent) in [("create", create()), ("edit", BuilderIntent::Edit), ("update", BuilderIntent::Update)] {
        for act_z in [false, true] {
            for par_z in [false, true] {
                if kind == "create" && par_z {
                    continue;
                }
                for content in ["none", "component", "redaction", "component+redaction"] {
                    let src: &[u8] = if kind == "create" { &jpeg.data } else if par_z { &rich_signed_z } else { &rich_signed };
                    let name = format!("x-{kind}-act={}-par={}-{content}", if act_z { "z" } else { "p" }, if kind == "create" { "none" } else if par_z { "z" } else { "p" });
                    let mut def = format!(r#"{{"title":"{name}",{GEN}"#);
                    if content.contains("redaction") {
                        if kind == "create" {
                            refused += 1;
                            continue; // nothing to redact from
                        }
                        let parent = sdk::read(sdk::ctx(), jpeg.mime, src).unwrap_or_else(|e| ev::machinery(format!("C18 seed {name}: cannot read the parent: {e:?}")));
                        let label = parent.active_label().unwrap_or_else(|| ev::machinery("C18 product seed: parent has no active manifest")).to_string();
                        let uri = c2pa::verif_hooks::label::to_assertion_uri(&label, "stds.schema-org.CreativeWork");
                        def.push_str(&format!(
                            r#","redactions":["{uri}"],"assertions":[{{"label":"c2pa.actions.v2","data":{{"actions":[{{"action":"c2pa.redacted","reason":"c2pa.PII.present","parameters":{{"redacted":"{uri}"}}}}]}}}}]"#
                        ));
                    }
                    def.push('}');
                    let ctx = if act_z { sctx(&[compress]) } else { sctx(&[]) };
                    let r: Result<Vec<u8>, String> = par::guard(|| -> Result<Vec<u8>, String> {
                        let mut b = Builder::from_context(ctx).with_definition(def.as_str()).map_err(|e| format!("{e:?}"))?;
                        b.set_intent(intent.clone());
                        if content.contains("component") {
                            b.add_ingredient_from_stream(r#"{"title":"component","relationship":"componentOf"}"#, "image/png", &mut Cursor::new(&png_signed)).map_err(|e| format!("{e:?}"))?;
                        }
                        let mut dst = Cursor::new(Vec::new());
                        b.sign(signer().as_ref(), jpeg.mime, &mut Cursor::new(src), &mut dst).map_err(|e| format!("{e:?}"))?;
                        Ok(dst.into_inner())
                    })
                    .unwrap_or_else(|p| Err(format!("panic {p}")));
                    match r {
                        Ok(signed) => {
                            produced += 1;
                            v.push(Seed { name, store: extract(jpeg.mime, &signed, "product"), mutate: false });
                        }
                        Err(e) => {
                            refused += 1;
                            if std::env::var("VERIF_DEBUG").is_ok() {
                                eprintln!("C18 product seed {name} refused by the Builder: {e}");
                            }
                        }
                    }
                }
            }
        }
    }
    // the combinations this product exists for must really be there
    for must in ["x-update-act=z-par=p-none", "x-update-act=z-par=z-none", "x-edit-act=z-par=z-component", "x-create-act=z-par=none-none", "x-update-act=p-par=z-none"] {
        if !v.iter().any(|s| s.name == must) {
            ev::machinery(format!("C18: product seed {must} could not be produced ({produced} produced, {refused} refused)"));
        }
    }
    v
}

// ---- independent JUMBF walker -----------------------------------------------------------------------

#[derive(Clone, Debug)]
struct Region {
    start: usize,
    end: usize,
    what: String,
}

/// Flat list of leaf regions (box headers, description boxes, content payloads) with a path of JUMBF labels.
fn walk(data: &[u8], base: usize, end: usize, path: &str, out: &mut Vec<Region>, depth: usize) {
    let mut p = base;
    while p + 8 <= end && depth < 12 {
        let size = u32::from_be_bytes([data[p], data[p + 1], data[p + 2], data[p + 3]]) as usize;
        let typ = String::from_utf8_lossy(&data[p + 4..p + 8]).to_string();
        let size = if size == 0 { end - p } else { size };
        if size < 8 || p + size > end {
            out.push(Region { start: p, end, what: format!("{path}/?unparsed") });
            return;
        }
        out.push(Region { start: p, end: p + 8, what: format!("{path}/{typ}:header") });
        if typ == "jumb" {
            // label from the description box, if it is where it should be
            let mut label = String::from("?");
            let d = p + 8;
            if d + 8 + 17 <= p + size && &data[d + 4..d + 8] == b"jumd" {
                let dsize = u32::from_be_bytes([data[d], data[d + 1], data[d + 2], data[d + 3]]) as usize;
                let toggles = data[d + 8 + 16];
                if toggles & 0x02 != 0 && dsize >= 8 + 17 && d + dsize <= p + size {
                    let l = &data[d + 8 + 17..d + dsize];
                    let n = l.iter().position(|b| *b == 0).unwrap_or(l.len());
                    label = String::from_utf8_lossy(&l[..n]).to_string();
                }
            }
            // manifest labels and instance ids are random: keep their shape only
            let label = if label.starts_with("urn:c2pa:") || label.starts_with("urn:uuid:") || label.contains(":urn:uuid:") { "<manifest>".to_string() } else { label };
            walk(data, p + 8, p + size, &format!("{path}/{label}"), out, depth + 1);
        } else {
            out.push(Region { start: p + 8, end: p + size, what: format!("{path}/{typ}:payload") });
        }
        p += size;
    }
    if p < end {
        out.push(Region { start: p, end, what: format!("{path}/?trailing") });
    }
}

fn region_of(regions: &[Region], pos: usize) -> String {
    regions.iter().find(|r| r.start <= pos && pos < r.end).map(|r| r.what.clone()).unwrap_or_else(|| "?outside".into())
}

// ---- the round trips ----------------------------------------------------------------------------------

fn from(ctx: &Context, b: &[u8]) -> Result<Result<c2pa::verif_hooks::Store, String>, String> {
    par::guard(|| store_from_jumbf(b, ctx).map_err(|e| sdk::err_kind(&e)))
}

fn to(s: &c2pa::verif_hooks::Store) -> Result<Result<Vec<u8>, String>, String> {
    par::guard(|| store_to_jumbf(s).map_err(|e| sdk::err_kind(&e)))
}

fn first_diff(a: &[u8], b: &[u8]) -> usize {
    a.iter().zip(b.iter()).position(|(x, y)| x != y).unwrap_or(a.len().min(b.len()))
}

/// every violation class (key without the seed name) with its number of cases — the Run keeps at most 2000 violations
static CLASSES: Mutex<BTreeMap<String, u64>> = Mutex::new(BTreeMap::new());

fn violate(run: &Run, class: String, seed: &str, what: String, case: Value) {
    *CLASSES.lock().unwrap().entry(class.clone()).or_insert(0) += 1;
    run.violation(format!("{class} seed={seed}"), what, case);
}

#[derive(Default)]
struct Tally {
    rejected: AtomicU64,
    identical: AtomicU64,
    normalised: AtomicU64,
}

/// Judge one byte string the parser may accept. Returns the outcome class.
fn judge_mutant(run: &Run, ctx: &Context, seed: &str, region: &str, m: &[u8], case: &dyn Fn() -> Value, verbose: bool) -> &'static str {
    let s1 = match from(ctx, m) {
        Err(p) => {
            violate(run, format!("panic parse at={region}"), seed, format!("store_from_jumbf panicked: {p}"), case());
            return "panic";
        }
        Ok(Err(e)) => {
            if verbose {
                println!("  parser rejects the bytes: {e}");
            }
            return "rejected";
        }
        Ok(Ok(s)) => s,
    };
    let c = match to(&s1) {
        Err(p) => {
            violate(run, format!("panic serialise at={region}"), seed, format!("store_to_jumbf panicked on an accepted store: {p}"), case());
            return "panic";
        }
        Ok(Err(e)) => {
            violate(run, format!("accepted-not-serialisable at={region} err={e}"), seed, format!("the parser accepts the bytes but the parsed store cannot be serialised: {e}"), case());
            return "not-serialisable";
        }
        Ok(Ok(c)) => c,
    };
    // from/to are deterministic functions of the bytes (probed at start-up), so when to(from(m)) == m the second pass would
    // recompute exactly the same thing: the fixed point is the identity. Every 16th such case is run in full anyway.
    if c == m && !verbose && (m.iter().fold(0u32, |a, b| a.wrapping_mul(31).wrapping_add(*b as u32)) % 16 != 0) {
        return "accepted-identical";
    }
    let s2 = match from(ctx, &c) {
        Err(p) => {
            violate(run, format!("panic reparse at={region}"), seed, format!("store_from_jumbf panicked on re-serialised bytes: {p}"), case());
            return "panic";
        }
        Ok(Err(e)) => {
            violate(run, format!("reserialised-rejected at={region} err={e}"), seed, format!("to(from(m)) is not accepted by the parser: {e}"), case());
            return "reserialised-rejected";
        }
        Ok(Ok(s)) => s,
    };
    let c2 = match to(&s2) {
        Ok(Ok(c2)) => c2,
        other => {
            violate(run, format!("reserialise-twice-fails at={region}"), seed, format!("second serialisation fails: {:?}", other.map(|r| r.map(|b| b.len()))), case());
            return "not-serialisable";
        }
    };
    if verbose {
        println!("  accepted; |m|={} |to(from(m))|={} (first difference to m at {}), |to(from(to(from(m))))|={}", m.len(), c.len(), first_diff(m, &c), c2.len());
    }
    if c2 != c {
        violate(run, format!("fixed-point-differs at={region}"), seed,
            format!("to(from(m)) has {} bytes, serialising its parse again gives {} bytes; first difference at offset {}", c.len(), c2.len(), first_diff(&c, &c2)),
            case(),
        );
        return "not-fixed-point";
    }
    if c == m {
        "accepted-identical"
    } else {
        "accepted-normalised"
    }
}

pub fn run(run: &Run, replay: Option<&Value>) {
    run.rule(
        "produced stores must re-serialise to identical bytes; every single-byte mutant (offset x value set) of the mutation seeds that the parser accepts must reach a fixed point after one \
         re-serialisation. non-trivial = accepted mutants whose re-serialisation differs from the mutant itself (the parser normalised something, so the fixed point is not the identity); \
         distinct by construction (seed, offset, value).",
    );
    run.assume("stores are parsed with the default-size decompression limit and a Context with thumbnails/network off; signer = repository ed25519 test credential");
    run.assume("hostile bytes are parsed in-process under catch_unwind; an abort/stack overflow would end the run as a machinery failure (C10 covers crash-freedom itself)");
    let ctx = sdk::ctx();

    if let Some(c) = replay {
        let bytes = ev::unhex(c["store_hex"].as_str().unwrap_or(""));
        let seed = c["seed"].as_str().unwrap_or("?");
        println!("replay seed={seed} kind={} bytes={}", c["kind"], bytes.len());
        run.eval();
        if c["kind"] == "produced" {
            check_produced(run, &ctx, seed, &bytes, true);
        } else {
            let cc = c.clone();
            judge_mutant(run, &ctx, seed, c["region"].as_str().unwrap_or("?"), &bytes, &move || cc.clone(), true);
        }
        return;
    }

    let seeds = seeds(run.tier.is_thorough());
    // own nondeterminism: parse+serialise the same bytes twice
    {
        let a = from(&ctx, &seeds[0].store).ok().and_then(|r| r.ok()).and_then(|s| to(&s).ok()).and_then(|r| r.ok());
        let b = from(&ctx, &seeds[0].store).ok().and_then(|r| r.ok()).and_then(|s| to(&s).ok()).and_then(|r| r.ok());
        if a.is_none() || a != b {
            ev::machinery("C18: parse/serialise of the first seed is not deterministic or fails outright");
        }
    }

    if std::env::var("VERIF_DEBUG").is_ok() {
        for s in &seeds {
            let t0 = std::time::Instant::now();
            let mut st = None;
            for _ in 0..20 { st = from(&ctx, &s.store).ok().and_then(|r| r.ok()); }
            let t1 = t0.elapsed();
            let t0 = std::time::Instant::now();
            for _ in 0..20 { let _ = to(st.as_ref().unwrap()); }
            eprintln!("{}: {} bytes, from {:?}/20, to {:?}/20", s.name, s.store.len(), t1, t0.elapsed());
        }
    }
    // ---- (a) produced stores ---------------------------------------------------------------------
    run.space("produced stores (definition generator x formats)", seeds.len() as u64, true);
    for s in &seeds {
        run.eval();
        let ok = check_produced(run, &ctx, &s.name, &s.store, false);
        run.outcome(if ok { "produced: identical" } else { "produced: differs" });
        // the seed must contain what its name says
        let mut regions = vec![];
        walk(&s.store, 0, s.store.len(), "", &mut regions, 0);
        let manifests = regions.iter().filter(|r| r.what.ends_with("/<manifest>/jumb:header") || r.what.ends_with("/<manifest>/brob:header")).count();
        let compressed = regions.iter().any(|r| r.what.contains("brob"));
        let named_compressed = if s.name.starts_with("x-") { s.name.contains("=z") } else { s.name.contains("compressed") };
        if named_compressed != compressed {
            ev::machinery(format!("C18 seed {}: compressed={compressed}", s.name));
        }
        // kind of the active (last) manifest as the independent walker sees it: c2um = update manifest
        if s.name.starts_with("x-update") || s.name == "update-jpeg" {
            let n_update = s.store.windows(4).filter(|w| w == b"c2um").count();
            if n_update == 0 && !s.name.contains("act=z") {
                ev::machinery(format!("C18 seed {}: no update-manifest box (c2um) in the store", s.name));
            }
        }
        run.sample(json!({"seed": s.name, "store_bytes": s.store.len(), "boxes": regions.len(), "compressed": compressed, "manifest_level_boxes": manifests, "mutated": s.mutate}));
    }

    // ---- (b) single-byte mutants -----------------------------------------------------------------
    for s in seeds.iter().filter(|s| s.mutate) {
        let mut regions = vec![];
        walk(&s.store, 0, s.store.len(), "", &mut regions, 0);
        let n = s.store.len();
        let compressed = s.name.contains("compressed");
        // values per offset: brotli re-compression costs ~30-60 ms per accepted mutant, so compressed seeds get fewer values
        let per_pos: usize = match (run.tier.is_thorough(), compressed, n > 5000) {
            (false, true, _) => 1,
            (false, false, _) => (30_000 / n).clamp(2, 255),
            (true, false, false) => 255,
            (true, false, true) => 64,
            (true, true, false) => 16,
            (true, true, true) => 2,
        };
        // priority order: low bit, high bit, '/', +1, 0x00, 0xFF, then the remaining xor masks
        let values = |b: u8| -> Vec<u8> {
            let mut v: Vec<u8> = vec![];
            let mut push = |x: u8| {
                if x != b && !v.contains(&x) {
                    v.push(x);
                }
            };
            for x in [b ^ 0x01, b ^ 0x80, b'/', b.wrapping_add(1), 0x00, 0xFF] {
                push(x);
            }
            for k in 2..=255u8 {
                push(b ^ k);
            }
            v.truncate(per_pos);
            v
        };
        let exhaustive_values = per_pos >= 255;
        let total: u64 = (0..n).map(|p| values(s.store[p]).len() as u64).sum();
        run.space(&format!("single-byte mutants of {} ({} bytes x {} values per offset{})", s.name, n, per_pos, if exhaustive_values { " = all" } else { "" }), total, true);
        let per_region: Mutex<BTreeMap<String, [u64; 3]>> = Mutex::new(BTreeMap::new());
        let tally = Tally::default();
        par::for_each_index(n as u64, |p| {
            let p = p as usize;
            let region = region_of(&regions, p);
            let mut m = s.store.clone();
            let mut local = [0u64; 3];
            for v in values(s.store[p]) {
                m[p] = v;
                let mm = &m;
                let name = &s.name;
                let reg = &region;
                let case = move || json!({"kind": "mutant", "seed": name, "offset": p, "value": v, "region": reg, "store_hex": ev::hex(mm)});
                let class = judge_mutant(run, &ctx, &s.name, &region, &m, &case, false);
                match class {
                    "rejected" => local[0] += 1,
                    "accepted-identical" => local[1] += 1,
                    "accepted-normalised" => local[2] += 1,
                    _ => {}
                }
                if class != "rejected" && class != "accepted-identical" && class != "accepted-normalised" {
                    run.outcome(format!("mutant: {class}"));
                }
            }
            m[p] = s.store[p];
            tally.rejected.fetch_add(local[0], Ordering::Relaxed);
            tally.identical.fetch_add(local[1], Ordering::Relaxed);
            tally.normalised.fetch_add(local[2], Ordering::Relaxed);
            let mut g = per_region.lock().unwrap();
            let e = g.entry(region).or_insert([0; 3]);
            for i in 0..3 {
                e[i] += local[i];
            }
        });
        run.evals(total);
        run.nontrivial_n(tally.normalised.load(Ordering::Relaxed));
        run.outcome_n("mutant: rejected by the parser", tally.rejected.load(Ordering::Relaxed));
        run.outcome_n("mutant: accepted, re-serialises to itself", tally.identical.load(Ordering::Relaxed));
        run.outcome_n("mutant: accepted, normalised, fixed point reached", tally.normalised.load(Ordering::Relaxed));
        let g = per_region.lock().unwrap();
        let normalising: Vec<Value> = g.iter().filter(|(_, c)| c[2] > 0).map(|(k, c)| json!({"box": k, "rejected": c[0], "identical": c[1], "normalised": c[2]})).collect();
        run.extra(&format!("regions_with_normalised_mutants:{}", s.name), json!(normalising));
    }
    run.extra("violation_classes(all cases, not capped)", json!(*CLASSES.lock().unwrap()));
}

fn check_produced(run: &Run, ctx: &Context, name: &str, b: &[u8], verbose: bool) -> bool {
    let case = || json!({"kind": "produced", "seed": name, "store_hex": ev::hex(b)});
    let s = match from(ctx, b) {
        Ok(Ok(s)) => s,
        other => {
            run.violation(format!("produced-store not parseable seed={name}"), format!("store_from_jumbf on a store the SDK produced: {:?}", other.map(|r| r.map(|_| ()))), case());
            return false;
        }
    };
    let c = match to(&s) {
        Ok(Ok(c)) => c,
        other => {
            run.violation(format!("produced-store not serialisable seed={name}"), format!("store_to_jumbf: {:?}", other.map(|r| r.map(|b| b.len()))), case());
            return false;
        }
    };
    if verbose {
        println!("  produced store {} bytes, re-serialised {} bytes, first difference at {}", b.len(), c.len(), first_diff(b, &c));
    }
    if c != b {
        let mut regions = vec![];
        walk(b, 0, b.len(), "", &mut regions, 0);
        let d = first_diff(b, &c);
        run.violation(
            format!("produced-store roundtrip differs seed={name} at={}", region_of(&regions, d)),
            format!("store of {} bytes re-serialises to {} bytes; first difference at offset {d}", b.len(), c.len()),
            case(),
        );
        return false;
    }
    true
}

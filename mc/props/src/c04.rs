//! C04 — validation state is derived soundly from validation codes.
//!
//! S-seq explicit-state search on the REAL `ValidationResults` / `ValidationStatus` objects.
//! state      = multiset of atoms (placement ∈ {active, delta1, delta2}) × (bin ∈ {success, informational, failure}) × code
//! transition = `ValidationResults::add_status(atom)` on the real object
//! alphabet   = every code harvested at run time from sdk/src/validation_results.rs (mod validation_codes) and
//!              sdk/src/validation_status.rs, plus unknown codes, × 3 placements × 3 bins
//! bound      = every subset of 12 core atoms (reached breadth-first over the subset lattice), from each of them every
//!              one-step extension by the full alphabet (appended AND prepended), every ordered two-step extension by a
//!              reduced alphabet (quick) / by the full alphabet from the 2^8 sub-lattice (thorough)
//! oracle     = reference function transcribed from the property text (one-directional: the implementation may never report
//!              more than the reference allows); adding a non-tolerated failure to an Invalid state stays Invalid
//! also       = serde construction of the same states, Reader::from_json carrying a results object, the legacy
//!              status-list fallback (every subset of <= 3 codes) and readers without any results; stateright BFS of the
//!              same model as a cross-check of state counts (and a second engine evaluating the real code in every state).
//!
//! Mutants caught (quick tier, patched scratch worktree, /verif/target-mut-C):
//!   /verif/mutants/C04-tolerate-expired.diff     is_tolerated_manifest_failure_code also tolerates signingCredential.expired
//!       -> "unsound got=Valid allowed=Invalid why=non-tolerated-failure:signingCredential.expired@active|delta1|delta2 via=seq" (>2000 cases)
//!   /verif/mutants/C04-drop-inside-validity.diff the insideValidity conjunct dropped
//!       -> "unsound got=Valid|Trusted allowed=Invalid why=no-claimSignature.insideValidity via=seq"
//! Finding on the unchanged tree (expected, DESIGN 7): every reader without a results object reports Trusted (Valid with
//! verify_trust=false): keys "legacy-fallback src=… list=absent|empty|tolerated-failures-only got=Trusted|Valid allowed=Invalid".

use c2pa::{
    status_tracker::LogKind,
    validation_results::{ValidationResults, ValidationState},
    validation_status::ValidationStatus,
    Reader,
};
use kit::{par, Run};
use serde_json::{json, Value};
use stateright::{Checker, Model, Property};
use std::{
    collections::{BTreeMap, HashSet},
    sync::{
        atomic::{AtomicU64, Ordering},
        Arc, Mutex,
    },
};

// ------------------------------------------------------------------------------------------------
// alphabet

const VALIDATED: &str = "claimSignature.validated";
const INSIDE: &str = "claimSignature.insideValidity";
const TRUSTED: &str = "signingCredential.trusted";
const UNTRUSTED: &str = "signingCredential.untrusted";
const CAWG_PREFIX: &str = "cawg.x509.";
const CAWG_CORE: &str = "cawg.x509.credential.untrusted";
const HARD_FAILURE: &str = "assertion.dataHash.mismatch";

const UNKNOWN_CODES: [&str; 3] = ["zz.unknown.code", "claimSignature.validatedX", "cawg.x509.zz_unknown"];

const DELTA_URIS: [&str; 2] = [
    "self#jumbf=/c2pa/urn:c2pa:00000000-0000-4000-8000-000000000001/c2pa.assertions/c2pa.ingredient.v3",
    "self#jumbf=/c2pa/urn:c2pa:00000000-0000-4000-8000-000000000001/c2pa.assertions/c2pa.ingredient.v3__1",
];

#[derive(Clone, Copy, PartialEq, Eq, Debug, Hash, PartialOrd, Ord)]
struct Atom {
    code: u16,
    placement: u8, // 0 active, 1 delta1, 2 delta2
    bin: u8,       // 0 success, 1 informational, 2 failure
}

const PLACEMENTS: [&str; 3] = ["active", "delta1", "delta2"];
const BINS: [&str; 3] = ["success", "informational", "failure"];

struct Alphabet {
    codes: Vec<String>,
    /// section the SDK source declares the code under ("success" | "informational" | "failure" | "unknown")
    declared: Vec<&'static str>,
    atoms: Vec<Atom>,
    /// prebuilt real status objects, parallel to `atoms`
    statuses: Vec<ValidationStatus>,
}

fn repo_root() -> String {
    std::env::var("VERIF_MUT_REPO").unwrap_or_else(|_| "/repo".to_string())
}

/// Harvest `const NAME: &str = "value";` items (value may be on the following line) and the section markers.
fn harvest() -> Vec<(String, &'static str)> {
    let mut out: Vec<(String, &'static str)> = vec![];
    let p = format!("{}/sdk/src/validation_results.rs", repo_root());
    let src = std::fs::read_to_string(&p).unwrap_or_else(|e| kit::ev::machinery(format!("C04: cannot read {p}: {e}")));
    let start = src.find("pub mod validation_codes").unwrap_or_else(|| kit::ev::machinery("C04: mod validation_codes not found"));
    let body = &src[start..];
    let end = body.find("#[cfg(test)]").unwrap_or(body.len());
    let body = &body[..end];
    let mut section: &'static str = "unknown";
    let mut pending = false;
    for line in body.lines() {
        let t = line.trim();
        if t.starts_with("// --") {
            section = if t.contains("success") {
                "success"
            } else if t.contains("informational") {
                "informational"
            } else if t.contains("failure") {
                "failure"
            } else {
                "unknown"
            };
            continue;
        }
        if t.starts_with("//") {
            continue;
        }
        let probe = if t.contains("const ") && t.contains("&str") {
            pending = true;
            t.split_once('=').map(|x| x.1).unwrap_or("")
        } else {
            t
        };
        if pending {
            if let Some(a) = probe.find('"') {
                if let Some(b) = probe[a + 1..].find('"') {
                    out.push((probe[a + 1..a + 1 + b].to_string(), section));
                    pending = false;
                }
            }
        }
    }
    let p2 = format!("{}/sdk/src/validation_status.rs", repo_root());
    let src2 = std::fs::read_to_string(&p2).unwrap_or_else(|e| kit::ev::machinery(format!("C04: cannot read {p2}: {e}")));
    for line in src2.lines() {
        let t = line.trim();
        if !t.starts_with("//") && t.contains("const ") && t.contains("&str") {
            if let Some((_, v)) = t.split_once('=') {
                if let Some(a) = v.find('"') {
                    if let Some(b) = v[a + 1..].find('"') {
                        out.push((v[a + 1..a + 1 + b].to_string(), "unknown"));
                    }
                }
            }
        }
    }
    out
}

fn mk_status(code: &str, placement: u8, bin: u8) -> ValidationStatus {
    let s: ValidationStatus = serde_json::from_value(json!({ "code": code }))
        .unwrap_or_else(|e| kit::ev::machinery(format!("C04: cannot construct ValidationStatus: {e}")));
    let s = s.set_kind(match bin {
        0 => LogKind::Success,
        1 => LogKind::Informational,
        _ => LogKind::Failure,
    });
    match placement {
        0 => s,
        p => s.set_ingredient_uri(DELTA_URIS[p as usize - 1]),
    }
}

fn alphabet() -> Alphabet {
    let mut codes: Vec<String> = vec![];
    let mut declared: Vec<&'static str> = vec![];
    for (c, sec) in harvest() {
        if !codes.contains(&c) {
            codes.push(c);
            declared.push(sec);
        }
    }
    if codes.len() < 90 {
        kit::ev::machinery(format!("C04: only {} codes harvested from the SDK source", codes.len()));
    }
    for must in [VALIDATED, INSIDE, TRUSTED, UNTRUSTED, CAWG_CORE, HARD_FAILURE, "signingCredential.expired"] {
        if !codes.iter().any(|c| c == must) {
            kit::ev::machinery(format!("C04: code {must} not found in the SDK source"));
        }
    }
    for (i, must) in [(0usize, "success"), (1, "success"), (2, "success")] {
        let c = [VALIDATED, INSIDE, TRUSTED][i];
        let k = codes.iter().position(|x| x == c).unwrap();
        if declared[k] != must {
            kit::ev::machinery(format!("C04: section markers not understood ({c} declared {})", declared[k]));
        }
    }
    for u in UNKNOWN_CODES {
        if !codes.iter().any(|c| c == u) {
            codes.push(u.to_string());
            declared.push("unknown");
        }
    }
    let mut atoms = vec![];
    let mut statuses = vec![];
    for (ci, c) in codes.iter().enumerate() {
        for placement in 0..3u8 {
            for bin in 0..3u8 {
                atoms.push(Atom { code: ci as u16, placement, bin });
                statuses.push(mk_status(c, placement, bin));
            }
        }
    }
    Alphabet { codes, declared, atoms, statuses }
}

impl Alphabet {
    fn code(&self, a: Atom) -> &str {
        &self.codes[a.code as usize]
    }
    fn idx(&self, code: &str, placement: u8, bin: u8) -> usize {
        let ci = self.codes.iter().position(|c| c == code).unwrap_or_else(|| kit::ev::machinery(format!("C04: no code {code}")));
        (ci * 3 + placement as usize) * 3 + bin as usize
    }
    fn describe(&self, a: Atom) -> Value {
        json!([PLACEMENTS[a.placement as usize], BINS[a.bin as usize], self.code(a)])
    }
    fn parse(&self, v: &Value) -> Option<(String, u8, u8)> {
        let p = PLACEMENTS.iter().position(|x| Some(*x) == v[0].as_str())? as u8;
        let b = BINS.iter().position(|x| Some(*x) == v[1].as_str())? as u8;
        Some((v[2].as_str()?.to_string(), p, b))
    }
}

// ------------------------------------------------------------------------------------------------
// reference (transcribed from the property text)

fn tolerated(code: &str) -> bool {
    code == UNTRUSTED || code.starts_with(CAWG_PREFIX)
}

fn rank(s: ValidationState) -> u8 {
    match s {
        ValidationState::Invalid => 0,
        ValidationState::Valid => 1,
        ValidationState::Trusted => 2,
    }
}
const STATE_NAMES: [&str; 3] = ["Invalid", "Valid", "Trusted"];

/// Highest state the property allows for a multiset of (code, placement, bin), and the first reason it is not higher.
fn reference<'a>(atoms: impl Iterator<Item = (&'a str, u8, u8)> + Clone) -> (u8, String) {
    let has = |c: &str| atoms.clone().any(|(code, p, b)| p == 0 && b == 0 && code == c);
    let validated = has(VALIDATED);
    let inside = has(INSIDE);
    let trusted = has(TRUSTED);
    let first_nontol = atoms.clone().find(|(code, _, b)| *b == 2 && !tolerated(code));
    let first_fail = atoms.clone().find(|(_, _, b)| *b == 2);
    if !validated {
        return (0, "no-claimSignature.validated".into());
    }
    if !inside {
        return (0, "no-claimSignature.insideValidity".into());
    }
    if let Some((c, p, _)) = first_nontol {
        return (0, format!("non-tolerated-failure:{c}@{}", PLACEMENTS[p as usize]));
    }
    if let Some((c, p, _)) = first_fail {
        return (1, format!("failure-present:{c}@{}", PLACEMENTS[p as usize]));
    }
    if !trusted {
        return (1, "no-signingCredential.trusted".into());
    }
    (2, String::new())
}

// ------------------------------------------------------------------------------------------------
// the engine

struct Counters {
    /// [impl rank][reference rank]
    outcome: [[AtomicU64; 3]; 3],
    evals: AtomicU64,
    transitions: AtomicU64,
    traces: AtomicU64,
    nontrivial: AtomicU64,
}

impl Counters {
    fn new() -> Self {
        Counters {
            outcome: Default::default(),
            evals: AtomicU64::new(0),
            transitions: AtomicU64::new(0),
            traces: AtomicU64::new(0),
            nontrivial: AtomicU64::new(0),
        }
    }
}

struct Ctx<'a> {
    run: &'a Run,
    al: &'a Alphabet,
    cnt: Counters,
}

impl Ctx<'_> {
    /// Judge one evaluated state: `seq` is the add_status order that built `obj`.
    /// `pre` = implementation verdict before the last atom was added (None for construction paths without a predecessor).
    fn judge(&self, how: &str, seq: &[Atom], got: ValidationState, pre: Option<ValidationState>) {
        let al = self.al;
        let (allowed, why) = reference(seq.iter().map(|a| (al.code(*a), a.placement, a.bin)));
        let g = rank(got);
        self.cnt.outcome[g as usize][allowed as usize].fetch_add(1, Ordering::Relaxed);
        self.cnt.evals.fetch_add(1, Ordering::Relaxed);
        if g > allowed {
            self.run.violation(
                format!("unsound got={} allowed={} why={why} via={how}", STATE_NAMES[g as usize], STATE_NAMES[allowed as usize]),
                format!(
                    "validation_state() = {} for a status set that only allows {} ({why}); statuses in add order: {}",
                    STATE_NAMES[g as usize],
                    STATE_NAMES[allowed as usize],
                    Value::Array(seq.iter().map(|a| al.describe(*a)).collect())
                ),
                json!({"kind": how, "atoms": seq.iter().map(|a| al.describe(*a)).collect::<Vec<_>>()}),
            );
        }
        if let (Some(pre), Some(last)) = (pre, seq.last()) {
            if last.bin == 2 && !tolerated(al.code(*last)) && pre == ValidationState::Invalid && got != ValidationState::Invalid {
                self.run.violation(
                    format!("regress add={}@{} pre=Invalid post={}", al.code(*last), PLACEMENTS[last.placement as usize], STATE_NAMES[g as usize]),
                    format!("adding the non-tolerated failure {} turned Invalid into {}", al.code(*last), STATE_NAMES[g as usize]),
                    json!({"kind": "seq", "atoms": seq.iter().map(|a| al.describe(*a)).collect::<Vec<_>>()}),
                );
            }
        }
    }
}

fn build(al: &Alphabet, seq: &[usize]) -> ValidationResults {
    let mut r = ValidationResults::default();
    for i in seq {
        r.add_status(al.statuses[*i].clone());
    }
    r
}

/// JSON rendering of the same state for serde construction (bins are given structurally).
fn to_results_json(al: &Alphabet, seq: &[Atom]) -> Value {
    let bins = |p: u8| -> Value {
        let pick = |b: u8| -> Vec<Value> {
            seq.iter().filter(|a| a.placement == p && a.bin == b).map(|a| json!({"code": al.code(*a)})).collect()
        };
        json!({"success": pick(0), "informational": pick(1), "failure": pick(2)})
    };
    let mut o = serde_json::Map::new();
    if seq.iter().any(|a| a.placement == 0) {
        o.insert("activeManifest".into(), bins(0));
    }
    let mut deltas = vec![];
    for p in 1..3u8 {
        if seq.iter().any(|a| a.placement == p) {
            deltas.push(json!({"ingredientAssertionURI": DELTA_URIS[p as usize - 1], "validationDeltas": bins(p)}));
        }
    }
    if !deltas.is_empty() {
        o.insert("ingredientDeltas".into(), Value::Array(deltas));
    }
    Value::Object(o)
}

/// Number of distinct multisets M = S ⊎ E with S ⊆ core (a set), E a multiset over the alphabet, |E| <= depth.
fn analytic_states(k: u64, alpha: u64, depth: u64) -> u64 {
    let n = alpha - k; // non-core atoms
    let nc = |e: u64| match e {
        0 => 1,
        1 => n,
        2 => n * (n + 1) / 2,
        _ => unreachable!(),
    };
    let p2 = |x: i64| if x < 0 { 0u64 } else { 1u64 << x };
    let cv = |e: u64| match e {
        0 => p2(k as i64),
        1 => k * p2(k as i64 - 1),
        2 => k * p2(k as i64 - 1) + (k * k.saturating_sub(1) / 2) * p2(k as i64 - 2),
        _ => unreachable!(),
    };
    let mut s = 0;
    for en in 0..=depth {
        for ec in 0..=(depth - en) {
            s += nc(en) * cv(ec);
        }
    }
    s
}

/// canonical key of a multiset
fn canon_key(seq: &[usize]) -> Vec<u16> {
    let mut v: Vec<u16> = seq.iter().map(|x| *x as u16).collect();
    v.sort_unstable();
    v
}

// ------------------------------------------------------------------------------------------------
// stateright model of the same space (state = sorted multiset of atom indices)

#[derive(Clone)]
struct SrModel {
    al: Arc<Alphabet>,
    core: Vec<u16>,
    alpha: Vec<u16>,
    depth: usize,
    mismatches: Arc<Mutex<Vec<(Vec<u16>, String)>>>,
    evals: Arc<AtomicU64>,
}

impl SrModel {
    /// minimal number of extension steps needed to reach the multiset
    fn ext_min(&self, st: &[u16]) -> usize {
        let mut need = 0;
        let mut i = 0;
        while i < st.len() {
            let mut j = i;
            while j < st.len() && st[j] == st[i] {
                j += 1;
            }
            let m = j - i;
            need += if self.core.contains(&st[i]) { m - 1 } else { m };
            i = j;
        }
        need
    }
}

impl Model for SrModel {
    type State = Vec<u16>;
    type Action = u16;

    fn init_states(&self) -> Vec<Self::State> {
        vec![vec![]]
    }

    fn actions(&self, state: &Self::State, actions: &mut Vec<Self::Action>) {
        for a in &self.alpha {
            let mut n = state.clone();
            let pos = n.partition_point(|x| x <= a);
            n.insert(pos, *a);
            if self.ext_min(&n) <= self.depth {
                actions.push(*a);
            }
        }
    }

    fn next_state(&self, last: &Self::State, action: Self::Action) -> Option<Self::State> {
        let mut n = last.clone();
        let pos = n.partition_point(|x| *x <= action);
        n.insert(pos, action);
        Some(n)
    }

    fn properties(&self) -> Vec<Property<Self>> {
        // The condition always answers true so that the search runs to completion; mismatches are collected on the side.
        vec![Property::always("sound", |m: &SrModel, st: &Vec<u16>| {
            let seq: Vec<usize> = st.iter().map(|x| *x as usize).collect();
            let obj = build(&m.al, &seq);
            let got = rank(obj.validation_state());
            let (allowed, why) = reference(seq.iter().map(|i| {
                let a = m.al.atoms[*i];
                (m.al.code(a), a.placement, a.bin)
            }));
            m.evals.fetch_add(1, Ordering::Relaxed);
            if got > allowed {
                m.mismatches.lock().unwrap().push((st.clone(), format!("got={} allowed={} why={why}", STATE_NAMES[got as usize], STATE_NAMES[allowed as usize])));
            }
            true
        })]
    }
}

// ------------------------------------------------------------------------------------------------

pub fn run(run: &Run, replay: Option<&Value>) {
    run.rule(
        "state = multiset of (placement, bin, code) atoms built on the real ValidationResults by add_status; every subset of the 12 core atoms, \
         every one-step extension of each by the full harvested alphabet (appended and prepended), ordered two-step extensions (reduced alphabet from all \
         4096 bases in quick; full alphabet from the 256-state sub-lattice in thorough). non-trivial = evaluated traces whose base contains \
         claimSignature.validated and claimSignature.insideValidity in the active success bin (the verdict then depends on the failure/trust atoms); \
         distinct by construction (each (base, extension sequence, order) is enumerated once).",
    );
    run.assume("tolerated failure codes = signingCredential.untrusted and every code with the prefix 'cawg.x509.' (the SDK's documented list; the property text says 'explicitly tolerated credential codes')");
    run.assume("the oracle is one-directional as the property is ('only if'): reporting a LOWER state than the reference is counted (outcomes Invalid/Valid etc.) but is not a violation");
    run.assume("legacy status lists are judged under the most permissive reading: each listed code is binned by the section the SDK source declares it under; unknown codes are failures");
    let al = Arc::new(alphabet());
    let ctx = Ctx { run, al: &al, cnt: Counters::new() };

    if let Some(c) = replay {
        replay_case(&ctx, c);
        return;
    }

    run.extra("codes_harvested", json!(al.codes.len()));
    run.extra("alphabet_atoms", json!(al.atoms.len()));

    // determinism probe (same sequence twice)
    {
        let seq = [al.idx(VALIDATED, 0, 0), al.idx(INSIDE, 0, 0), al.idx(UNTRUSTED, 1, 2)];
        let a = build(&al, &seq).validation_state();
        let b = build(&al, &seq).validation_state();
        if a != b {
            kit::ev::machinery("C04: validation_state is not deterministic");
        }
        if a != ValidationState::Valid {
            // not a machinery failure: will be judged below; only make sure atoms land where we think they do
        }
        let r = build(&al, &seq);
        let placed = r.active_manifest().map(|s| s.success().len()) == Some(2)
            && r.ingredient_deltas().map(|d| d.len()) == Some(1)
            && r.ingredient_deltas().map(|d| d[0].validation_deltas().failure().len()) == Some(1);
        if !placed {
            kit::ev::machinery("C04: add_status does not place atoms by (ingredient uri, kind) as the harness assumes");
        }
    }

    // ---- 1. core lattice, breadth first ---------------------------------------------------------
    let core: Vec<usize> = {
        let mut v = vec![al.idx(VALIDATED, 0, 0), al.idx(INSIDE, 0, 0), al.idx(TRUSTED, 0, 0)];
        for p in 0..3u8 {
            v.push(al.idx(UNTRUSTED, p, 2));
            v.push(al.idx(CAWG_CORE, p, 2));
            v.push(al.idx(HARD_FAILURE, p, 2));
        }
        v
    };
    let k = core.len();
    let nmask = 1usize << k;
    let mut rep: Vec<Option<(ValidationResults, Vec<Atom>)>> = vec![None; nmask];
    rep[0] = Some((ValidationResults::default(), vec![]));
    ctx.judge("seq", &[], ValidationResults::default().validation_state(), None);
    let mut order: Vec<usize> = (0..nmask).collect();
    order.sort_by_key(|m| (m.count_ones(), *m));
    let mut lattice_states = 1u64;
    for &mask in &order {
        let (obj, seq) = rep[mask].clone().unwrap_or_else(|| kit::ev::machinery("C04: lattice BFS hole"));
        let pre = obj.validation_state();
        for bit in 0..k {
            if mask & (1 << bit) != 0 {
                continue;
            }
            let mut o = obj.clone();
            o.add_status(al.statuses[core[bit]].clone());
            let mut s = seq.clone();
            s.push(al.atoms[core[bit]]);
            ctx.judge("seq", &s, o.validation_state(), Some(pre));
            ctx.cnt.transitions.fetch_add(1, Ordering::Relaxed);
            ctx.cnt.traces.fetch_add(1, Ordering::Relaxed);
            let nm = mask | (1 << bit);
            if rep[nm].is_none() {
                rep[nm] = Some((o, s));
                lattice_states += 1;
            }
        }
    }
    run.space("core lattice: subsets of 12 core atoms, every add_status edge", (k as u64) << (k - 1), true);
    let rep: Vec<(ValidationResults, Vec<Atom>)> = rep.into_iter().map(|x| x.unwrap()).collect();
    let base_nontrivial = |mask: usize| mask & 0b11 == 0b11;

    // ---- 2. one-step extension by the full alphabet (append + prepend) ---------------------------
    let na = al.atoms.len();
    par::for_each_index(nmask as u64, |mask| {
        let mask = mask as usize;
        let (obj, seq) = &rep[mask];
        let pre = obj.validation_state();
        let mut s = seq.clone();
        s.push(al.atoms[0]);
        let mut pseq: Vec<Atom> = Vec::with_capacity(seq.len() + 1);
        for a in 0..na {
            // appended
            let mut o = obj.clone();
            o.add_status(al.statuses[a].clone());
            *s.last_mut().unwrap() = al.atoms[a];
            ctx.judge("seq", &s, o.validation_state(), Some(pre));
            // prepended (the extension atom is added to an empty object, the base atoms follow)
            let mut o2 = ValidationResults::default();
            o2.add_status(al.statuses[a].clone());
            pseq.clear();
            pseq.push(al.atoms[a]);
            for (i, bit) in core.iter().enumerate() {
                if mask & (1 << i) != 0 {
                    o2.add_status(al.statuses[*bit].clone());
                    pseq.push(al.atoms[*bit]);
                }
            }
            ctx.judge("seq", &pseq, o2.validation_state(), None);
        }
        ctx.cnt.transitions.fetch_add(na as u64, Ordering::Relaxed);
        ctx.cnt.traces.fetch_add(2 * na as u64, Ordering::Relaxed);
        if base_nontrivial(mask) {
            ctx.cnt.nontrivial.fetch_add(2 * na as u64, Ordering::Relaxed);
        }
    });
    run.space("one-step extension: 4096 bases x full alphabet x {appended, prepended}", 2 * (nmask * na) as u64, true);

    // ---- 3. two-step extensions -----------------------------------------------------------------
    // reduced alphabet: per placement and bin, one representative of each code class
    let reduced: Vec<usize> = {
        let mut v = vec![];
        for c in [VALIDATED, INSIDE, TRUSTED, UNTRUSTED, CAWG_CORE, HARD_FAILURE, "signingCredential.expired", "zz.unknown.code"] {
            for p in 0..2u8 {
                for b in [0u8, 2u8] {
                    v.push(al.idx(c, p, b));
                }
            }
        }
        v
    };
    let (bases2, alpha2, name2): (Vec<usize>, Vec<usize>, String) = if run.tier.is_thorough() {
        // sub-lattice over 8 of the core atoms (bits 0..=5: active atoms; bits 6,8: delta1 untrusted + hard failure)
        let keep: usize = 0b1_0111_1111;
        ((0..nmask).filter(|m| m & !keep == 0).collect(), (0..na).collect(), "two-step extension: 256-state sub-lattice x full alphabet^2 (ordered)".into())
    } else {
        ((0..nmask).collect(), reduced.clone(), format!("two-step extension: 4096 bases x reduced alphabet({})^2 (ordered)", reduced.len()))
    };
    let n2 = alpha2.len();
    par::for_each_index((bases2.len() * n2) as u64, |i| {
        let mask = bases2[i as usize / n2];
        let a = alpha2[i as usize % n2];
        let (obj, seq) = &rep[mask];
        let mut o1 = obj.clone();
        o1.add_status(al.statuses[a].clone());
        let pre = o1.validation_state();
        let mut s = seq.clone();
        s.push(al.atoms[a]);
        s.push(al.atoms[a]);
        for &b in &alpha2 {
            let mut o = o1.clone();
            o.add_status(al.statuses[b].clone());
            *s.last_mut().unwrap() = al.atoms[b];
            ctx.judge("seq", &s, o.validation_state(), Some(pre));
        }
        ctx.cnt.transitions.fetch_add(n2 as u64, Ordering::Relaxed);
        ctx.cnt.traces.fetch_add(n2 as u64, Ordering::Relaxed);
        if base_nontrivial(mask) {
            ctx.cnt.nontrivial.fetch_add(n2 as u64, Ordering::Relaxed);
        }
    });
    run.space(&name2, (bases2.len() * n2 * n2) as u64, true);

    // distinct states visited by sections 1-3: analytic for the full one-step space, exact set for the two-step space
    let states_1 = analytic_states(k as u64, na as u64, 1);
    debug_assert!(lattice_states == nmask as u64);
    let states_2_extra: u64 = {
        // states of section 3 that are not already in section 1/2: those needing two extension steps
        let core_set: HashSet<usize> = core.iter().cloned().collect();
        let mut set: HashSet<Vec<u16>> = HashSet::new();
        if !run.tier.is_thorough() {
            for &mask in &bases2 {
                let base: Vec<usize> = (0..k).filter(|i| mask & (1 << i) != 0).map(|i| core[i]).collect();
                for &a in &alpha2 {
                    for &b in &alpha2 {
                        if b < a {
                            continue;
                        }
                        let mut v = base.clone();
                        v.push(a);
                        v.push(b);
                        let key = canon_key(&v);
                        // needs two steps?
                        let mut need = 0;
                        let mut i = 0;
                        while i < key.len() {
                            let mut j = i;
                            while j < key.len() && key[j] == key[i] {
                                j += 1;
                            }
                            need += if core_set.contains(&(key[i] as usize)) { j - i - 1 } else { j - i };
                            i = j;
                        }
                        if need == 2 {
                            set.insert(key);
                        }
                    }
                }
            }
            set.len() as u64
        } else {
            // thorough: analytic over the sub-lattice (k=8 core atoms of the sub-lattice, the other 4 core atoms count as non-core there),
            // minus nothing: states needing exactly two steps relative to the FULL core are a subset; report the sub-lattice figure separately
            0
        }
    };
    run.states(states_1 + states_2_extra);
    run.extra("states_lattice", json!(lattice_states));
    run.extra("states_within_one_extension_step(analytic)", json!(states_1));
    if run.tier.is_thorough() {
        run.extra("two_step_sublattice_states(analytic, relative to its own 8 core atoms)", json!(analytic_states(8, na as u64, 2)));
    } else {
        run.extra("states_needing_two_extension_steps(exact set)", json!(states_2_extra));
    }

    // ---- 4. serde construction and Reader::from_json with a results object ----------------------
    {
        let ext: Vec<Option<usize>> = std::iter::once(None).chain(reduced.iter().map(|x| Some(*x))).collect();
        let cases = nmask * ext.len();
        par::for_each_index(cases as u64, |i| {
            let mask = i as usize / ext.len();
            let e = ext[i as usize % ext.len()];
            let mut seq = rep[mask].1.clone();
            if let Some(e) = e {
                seq.push(al.atoms[e]);
            }
            let v = to_results_json(&al, &seq);
            match serde_json::from_value::<ValidationResults>(v.clone()) {
                Ok(r) => {
                    ctx.judge("serde", &seq, r.validation_state(), None);
                    // a serialise/deserialise round trip of the add_status-built object keeps the verdict
                    if e.is_none() {
                        let built = &rep[mask].0;
                        let rt: Result<ValidationResults, _> = serde_json::to_value(built).and_then(serde_json::from_value);
                        match rt {
                            Ok(rt) => ctx.judge("serde-roundtrip", &seq, rt.validation_state(), None),
                            Err(er) => kit::ev::machinery(format!("C04: results object does not survive serde: {er}")),
                        }
                    }
                }
                Err(er) => kit::ev::machinery(format!("C04: results JSON rejected: {er} {v}")),
            }
            if e.is_none() {
                let rj = json!({"manifests": {}, "validation_results": v, "validation_state": "Trusted"});
                match Reader::from_json(&rj.to_string()) {
                    Ok(rd) => ctx.judge("reader-json", &seq, rd.validation_state(), None),
                    Err(er) => kit::ev::machinery(format!("C04: Reader::from_json rejected the harness document: {er:?}")),
                }
            }
            ctx.cnt.traces.fetch_add(1, Ordering::Relaxed);
        });
        run.space("serde construction: 4096 bases x (none + reduced alphabet); round trip and Reader::from_json(results) for the 4096 bases", cases as u64, true);
    }

    // ---- 5. legacy fallback ---------------------------------------------------------------------
    legacy(&ctx);

    // ---- 6. stateright cross-check ----------------------------------------------------------------
    {
        let depth = 1usize;
        let sr_alpha: Vec<u16> = if run.tier.is_thorough() {
            (0..na as u16).collect()
        } else {
            let mut v: Vec<u16> = core.iter().map(|x| *x as u16).collect();
            for r in &reduced {
                if !v.contains(&(*r as u16)) {
                    v.push(*r as u16);
                }
            }
            v
        };
        let model = SrModel {
            al: al.clone(),
            core: core.iter().map(|x| *x as u16).collect(),
            alpha: sr_alpha.clone(),
            depth,
            mismatches: Arc::new(Mutex::new(vec![])),
            evals: Arc::new(AtomicU64::new(0)),
        };
        let mm = model.mismatches.clone();
        let ev = model.evals.clone();
        let t0 = std::time::Instant::now();
        let checker = model.checker().threads(par::workers()).spawn_bfs().join();
        let unique = checker.unique_state_count() as u64;
        let generated = checker.state_count() as u64;
        let expect = analytic_states(k as u64, sr_alpha.len() as u64, depth as u64);
        run.extra(
            "stateright",
            json!({"alphabet": sr_alpha.len(), "extension_depth": depth, "unique_states": unique, "expected_states(analytic)": expect,
                   "transitions": generated.saturating_sub(1), "max_depth": checker.max_depth(), "property_evaluations": ev.load(Ordering::Relaxed), "wall_s": t0.elapsed().as_secs_f64()}),
        );
        if unique != expect {
            kit::ev::machinery(format!("C04: stateright explored {unique} states, the engine's model has {expect}"));
        }
        // own engine, exact-set count on the same parameters (proves the analytic formula on this instance)
        let own: u64 = {
            let core16: Vec<u16> = core.iter().map(|x| *x as u16).collect();
            let mut set: HashSet<Vec<u16>> = HashSet::new();
            for mask in 0..nmask {
                let base: Vec<u16> = (0..k).filter(|i| mask & (1 << i) != 0).map(|i| core16[i]).collect();
                let mut b = base.clone();
                b.sort_unstable();
                set.insert(b);
                for a in &sr_alpha {
                    let mut v = base.clone();
                    v.push(*a);
                    v.sort_unstable();
                    set.insert(v);
                }
            }
            set.len() as u64
        };
        if own != expect {
            kit::ev::machinery(format!("C04: engine visits {own} distinct states on the cross-check instance, formula says {expect}"));
        }
        run.evals(ev.load(Ordering::Relaxed));
        run.traces(ev.load(Ordering::Relaxed));
        for (st, what) in mm.lock().unwrap().iter().take(50) {
            let seq: Vec<Atom> = st.iter().map(|i| al.atoms[*i as usize]).collect();
            run.violation(
                format!("unsound(stateright) {what}"),
                format!("stateright BFS: {what}; statuses {}", Value::Array(seq.iter().map(|a| al.describe(*a)).collect())),
                json!({"kind": "seq", "atoms": seq.iter().map(|a| al.describe(*a)).collect::<Vec<_>>()}),
            );
        }
    }

    // ---- bookkeeping --------------------------------------------------------------------------------
    run.evals(ctx.cnt.evals.load(Ordering::Relaxed));
    run.transitions(ctx.cnt.transitions.load(Ordering::Relaxed));
    run.traces(ctx.cnt.traces.load(Ordering::Relaxed));
    run.nontrivial_n(ctx.cnt.nontrivial.load(Ordering::Relaxed));
    for g in 0..3 {
        for a in 0..3 {
            let n = ctx.cnt.outcome[g][a].load(Ordering::Relaxed);
            if n > 0 {
                run.outcome_n(format!("impl={} reference-allows={}", STATE_NAMES[g], STATE_NAMES[a]), n);
            }
        }
    }
    for (mask, extra) in [(0b111usize, None), (0b1011, None), (0b100011, None), (0b11, Some(al.idx("signingCredential.expired", 1, 2)))] {
        let mut seq = rep[mask].1.clone();
        let mut o = rep[mask].0.clone();
        if let Some(e) = extra {
            o.add_status(al.statuses[e].clone());
            seq.push(al.atoms[e]);
        }
        run.sample(json!({"statuses": seq.iter().map(|a| al.describe(*a)).collect::<Vec<_>>(), "validation_state": format!("{:?}", o.validation_state())}));
    }
}

/// The legacy fallback: readers that carry no results object.
fn legacy(ctx: &Ctx) {
    let run = ctx.run;
    let al = ctx.al;
    let judge_legacy = |src: &str, codes: Option<&[usize]>, got: ValidationState| {
        // most permissive reading: bins by the section the SDK source declares for the code
        let atoms: Vec<(&str, u8, u8)> = codes
            .unwrap_or(&[])
            .iter()
            .map(|c| {
                let bin = match al.declared[*c] {
                    "success" => 0u8,
                    "informational" => 1,
                    _ => 2,
                };
                (al.codes[*c].as_str(), 0u8, bin)
            })
            .collect();
        let (allowed, why) = reference(atoms.iter().cloned());
        let g = rank(got);
        ctx.cnt.outcome[g as usize][allowed as usize].fetch_add(1, Ordering::Relaxed);
        ctx.cnt.evals.fetch_add(1, Ordering::Relaxed);
        ctx.cnt.traces.fetch_add(1, Ordering::Relaxed);
        if g > allowed {
            let list = match codes {
                None => "absent".to_string(),
                Some([]) => "empty".to_string(),
                Some(c) if c.iter().all(|x| tolerated(&al.codes[*x])) => "tolerated-failures-only".to_string(),
                Some(c) => format!("[{}]", c.iter().map(|x| al.codes[*x].clone()).collect::<Vec<_>>().join(",")),
            };
            run.violation(
                format!("legacy-fallback src={src} list={list} got={} allowed={}", STATE_NAMES[g as usize], STATE_NAMES[allowed as usize]),
                format!(
                    "a Reader without a validation-results object ({src}, status list {}) reports {} although nothing shows that the claim signature validated ({why})",
                    match codes {
                        None => "absent".to_string(),
                        Some(c) => format!("{:?}", c.iter().map(|x| al.codes[*x].as_str()).collect::<Vec<_>>()),
                    },
                    STATE_NAMES[g as usize]
                ),
                json!({"kind": "legacy", "src": src, "codes": codes.map(|c| c.iter().map(|x| al.codes[*x].clone()).collect::<Vec<_>>())}),
            );
        }
    };

    // readers without anything
    judge_legacy("Reader::default", None, Reader::default().validation_state());
    judge_legacy("Reader::from_context(default)", None, Reader::from_context(c2pa::Context::new()).validation_state());
    match c2pa::Context::new().with_settings(r#"{"verify":{"verify_trust":false}}"#) {
        Ok(c) => judge_legacy("Reader::from_context(verify_trust=false)", None, Reader::from_context(c).validation_state()),
        Err(e) => kit::ev::machinery(format!("C04: verify_trust=false rejected: {e:?}")),
    }
    match Reader::from_json(r#"{"manifests":{}}"#) {
        Ok(r) => judge_legacy("Reader::from_json", None, r.validation_state()),
        Err(e) => kit::ev::machinery(format!("C04: minimal reader JSON rejected: {e:?}")),
    }

    // every subset of <= 3 (quick: <= 2 over all codes, 3 over the failure-declared and unknown codes) codes
    let n = al.codes.len();
    let mut lists: Vec<Vec<usize>> = vec![vec![]];
    for a in 0..n {
        lists.push(vec![a]);
        for b in a + 1..n {
            lists.push(vec![a, b]);
        }
    }
    let triple_pool: Vec<usize> = if run.tier.is_thorough() {
        (0..n).collect()
    } else {
        // quick: triples over a pool of 40 codes: the codes the decision mentions + every 3rd other code
        let mut v: Vec<usize> = [VALIDATED, INSIDE, TRUSTED, UNTRUSTED, CAWG_CORE, HARD_FAILURE].iter().map(|c| al.codes.iter().position(|x| x == c).unwrap()).collect();
        for i in (0..n).step_by(3) {
            if !v.contains(&i) {
                v.push(i);
            }
        }
        v.sort_unstable();
        v
    };
    for (i, a) in triple_pool.iter().enumerate() {
        for (j, b) in triple_pool.iter().enumerate().skip(i + 1) {
            for c in triple_pool.iter().skip(j + 1) {
                lists.push(vec![*a, *b, *c]);
            }
        }
    }
    run.space(
        &format!("legacy Reader::from_json status lists: every subset of <= 2 of {n} codes, every 3-subset of a {}-code pool; + 4 readers without any status", triple_pool.len()),
        lists.len() as u64 + 4,
        true,
    );
    par::for_each(&lists, |codes| {
        let doc = json!({"manifests": {}, "validation_status": codes.iter().map(|c| json!({"code": al.codes[*c]})).collect::<Vec<_>>()});
        match Reader::from_json(&doc.to_string()) {
            Ok(r) => judge_legacy("Reader::from_json", Some(codes), r.validation_state()),
            Err(e) => kit::ev::machinery(format!("C04: legacy reader JSON rejected: {e:?}")),
        }
    });
    ctx.cnt.nontrivial.fetch_add(lists.len() as u64, Ordering::Relaxed);
    let mut by_len: BTreeMap<usize, u64> = BTreeMap::new();
    for l in &lists {
        *by_len.entry(l.len()).or_insert(0) += 1;
    }
    run.extra("legacy_lists_by_length", json!(by_len));
}

fn replay_case(ctx: &Ctx, c: &Value) {
    let al = ctx.al;
    match c["kind"].as_str() {
        Some("legacy") => {
            let src = c["src"].as_str().unwrap_or("");
            let got = match (src, c["codes"].as_array()) {
                ("Reader::default", _) => Reader::default().validation_state(),
                ("Reader::from_context(default)", _) => Reader::from_context(c2pa::Context::new()).validation_state(),
                ("Reader::from_context(verify_trust=false)", _) => {
                    Reader::from_context(c2pa::Context::new().with_settings(r#"{"verify":{"verify_trust":false}}"#).unwrap()).validation_state()
                }
                (_, None) => Reader::from_json(r#"{"manifests":{}}"#).unwrap().validation_state(),
                (_, Some(codes)) => {
                    let doc = json!({"manifests": {}, "validation_status": codes.iter().map(|c| json!({"code": c})).collect::<Vec<_>>()});
                    Reader::from_json(&doc.to_string()).unwrap().validation_state()
                }
            };
            println!("replay legacy {src} codes={}: validation_state() = {got:?}", c["codes"]);
            ctx.run.eval();
            if got != ValidationState::Invalid {
                // re-judge with the same rule as the sweep
                let codes: Vec<usize> = c["codes"].as_array().map(|a| a.iter().filter_map(|x| al.codes.iter().position(|y| Some(y.as_str()) == x.as_str())).collect()).unwrap_or_default();
                let atoms: Vec<(&str, u8, u8)> = codes.iter().map(|c| (al.codes[*c].as_str(), 0u8, match al.declared[*c] { "success" => 0u8, "informational" => 1, _ => 2 })).collect();
                let (allowed, why) = reference(atoms.iter().cloned());
                if rank(got) > allowed {
                    ctx.run.violation("replay", format!("{got:?} but only {} allowed ({why})", STATE_NAMES[allowed as usize]), c.clone());
                }
            }
        }
        Some(kind) => {
            let atoms: Vec<(String, u8, u8)> = c["atoms"].as_array().map(|a| a.iter().filter_map(|v| al.parse(v)).collect()).unwrap_or_default();
            let seq: Vec<Atom> = atoms.iter().map(|(code, p, b)| al.atoms[al.idx(code, *p, *b)]).collect();
            let got = if kind.starts_with("serde") || kind == "reader-json" {
                let v = to_results_json(al, &seq);
                if kind == "reader-json" {
                    Reader::from_json(&json!({"manifests": {}, "validation_results": v}).to_string()).unwrap().validation_state()
                } else {
                    serde_json::from_value::<ValidationResults>(v).unwrap().validation_state()
                }
            } else {
                let mut r = ValidationResults::default();
                for (code, p, b) in &atoms {
                    r.add_status(mk_status(code, *p, *b));
                }
                r.validation_state()
            };
            let (allowed, why) = reference(atoms.iter().map(|(c, p, b)| (c.as_str(), *p, *b)));
            println!("replay {kind}: statuses {} -> validation_state() = {got:?}; reference allows at most {} ({why})", c["atoms"], STATE_NAMES[allowed as usize]);
            ctx.run.eval();
            if rank(got) > allowed {
                ctx.run.violation("replay", format!("{got:?} but only {} allowed ({why})", STATE_NAMES[allowed as usize]), c.clone());
            }
        }
        None => kit::ev::machinery("C04: replay case without kind"),
    }
}

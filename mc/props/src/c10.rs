//! C10 — untrusted input never crashes, hangs or exhausts memory: the bounded NEIGHBOURHOOD statement (DESIGN.md C10 / section 5).
//!
//! S-inp. Seeds: every kit asset unsigned and signed, a detached manifest store (.c2pa), a builder archive, seeds with legal-but-rare encodings (a store whose superbox
//! holds unknown child boxes in the 32-bit, 64-bit largesize and size-0 forms, detached and embedded in a JPEG; MP4 with top-level largesize /
//! size-0 boxes), and the
//! repository's regression inputs (riff_bomb_1000.wav, nested_moov_1000.mp4, id3v23_compression_underflow.mp3,
//! tiff_poc.tiff, bad_path_archive.zip). Alphabet per seed (one deviation from the seed per input):
//!   * byte edits: every byte position (quick: the first 600) x {00,01,7F,80,FF,b+1,b-1}; thorough: x all 255 other values on the
//!     4 smallest seeds;
//!   * truncations: every shorter length (quick: every length <= 600, every 8th beyond, and the last 16);
//!   * length-like fields: every 4/8-byte big- or little-endian window whose value is a plausible in-file length, every 2-byte
//!     big-endian window introduced by a JPEG marker, a 2-byte CBOR head (59/79/99/B9) or DER 0x82 (thorough: every plausible
//!     2-byte window of either endianness in seeds <= 16 KiB), each set to {0,1,2,7,8,9,16,v-1,v+1,2^(8w-1)-1,2^(8w-1),2^(8w)-1} and for wide fields 2^31-1, 2^32-1, 2^32, 2^63;
//!     plus 'negative' lengths: 8-byte fields (seeds <= 16 KiB) get 2^64-d for d in 1..=64 and for every distance (<= 256) back to an earlier
//!     length-field start, 4-byte fields (seeds <= 6 KiB) get 2^32-d for d in 1..=16.
//! Every input is given to Reader::with_stream, Builder::add_ingredient_from_stream and jumbf_io::load_jumbf_from_memory under the
//! seed's own format hint and 3 wrong hints (rotating through all other formats with the mutation index), and to Builder::with_archive.
//!
//! Monitors: every call runs in a WORKER SUBPROCESS (re-exec, VERIF_C10_WORKER) on a thread with the default 2 MiB stack, RLIMIT_AS 4 GiB;
//! `par::guard` (panic, with the panic location taken from a panic hook); thread CPU time per call <= 2 s; peak RSS growth (the kernel's
//! hiwater_rss = VmHWM of /proc/self/status, reset through /proc/self/clear_refs whenever it moves) <= max(64 MiB, 32 x input) + 32 MiB (the default
//! `core.max_decompressed_manifest_size_in_mb`); a dead or hung worker is attributed to the exact (input, entry point, hint) through a
//! progress file written before each call.
//!
//! Mutants caught (tools/mutant_run.sh I <diff> C10 quick):
//!   /tmp/seed-C10/OUT/patch.diff (independently seeded: unknown JUMBF child box skipped with a signed seek) -> key `hang how=hang entry=reader
//!                                 format=application/c2pa|image/jpeg mutation=field` via the rare-encoding seeds + negative-length values
//!   /verif/mutants/C10-jumd-min-size-unchecked.diff (the JUMD_MIN_SIZE guard of BoxReader::read_desc_box removed: subtraction overflow panic)

use c2pa::{Builder, Reader};
use kit::{assets, par, sdk, workers, Run};
use serde_json::{json, Value};
use std::{collections::BTreeMap, io::Cursor, path::Path, sync::Mutex};

const ENV: &str = "VERIF_C10_WORKER";
const CPU_BUDGET_US: u64 = 2_000_000;
const DECOMPRESSION_LIMIT: u64 = 32 << 20;

const FORMATS: [&str; 15] = [
    "image/jpeg", "image/png", "image/gif", "audio/wav", "image/webp", "video/avi", "image/tiff", "image/svg+xml", "audio/mpeg", "audio/flac",
    "image/jxl", "video/mp4", "image/heic", "application/c2pa", "application/pdf",
];

#[derive(Clone, Debug)]
struct Seed {
    name: String,
    mime: String,
    data: Vec<u8>,
}

#[derive(Clone, Copy, Debug, PartialEq)]
enum Mutation {
    Identity,
    Byte { pos: u32, val: u8 },
    Trunc { len: u32 },
    Field { off: u32, width: u8, be: bool, val: u64 },
}

impl Mutation {
    fn apply(&self, d: &[u8]) -> Vec<u8> {
        match *self {
            Mutation::Identity => d.to_vec(),
            Mutation::Byte { pos, val } => {
                let mut v = d.to_vec();
                v[pos as usize] = val;
                v
            }
            Mutation::Trunc { len } => d[..len as usize].to_vec(),
            Mutation::Field { off, width, be, val } => {
                let mut v = d.to_vec();
                let w = width as usize;
                let bytes = val.to_be_bytes();
                let slice = &bytes[8 - w..];
                for i in 0..w {
                    v[off as usize + i] = if be { slice[i] } else { slice[w - 1 - i] };
                }
                v
            }
        }
    }
    fn to_json(&self) -> Value {
        match *self {
            Mutation::Identity => json!({"m":"identity"}),
            Mutation::Byte { pos, val } => json!({"m":"byte","pos":pos,"val":val}),
            Mutation::Trunc { len } => json!({"m":"trunc","len":len}),
            Mutation::Field { off, width, be, val } => json!({"m":"field","off":off,"width":width,"be":be,"val":val}),
        }
    }
    fn class(&self) -> &'static str {
        match self {
            Mutation::Identity => "identity",
            Mutation::Byte { .. } => "byte",
            Mutation::Trunc { .. } => "trunc",
            Mutation::Field { .. } => "field",
        }
    }
}

fn read_uint(d: &[u8], off: usize, w: usize, be: bool) -> u64 {
    let mut v = 0u64;
    for i in 0..w {
        let b = d[off + if be { i } else { w - 1 - i }] as u64;
        v = v << 8 | b;
    }
    v
}

/// Length-like fields of a seed (see module doc). (offset, width, big-endian, current value)
fn fields(d: &[u8], thorough: bool) -> Vec<(u32, u8, bool, u64)> {
    let l = d.len();
    let mut out = vec![];
    for off in 0..l {
        for w in [2usize, 4, 8] {
            if off + w > l {
                continue;
            }
            for be in [true, false] {
                let v = read_uint(d, off, w, be);
                let remaining = (l - off) as u64;
                let plausible = v >= w as u64 && v <= remaining;
                if !plausible {
                    continue;
                }
                // quick tier: in seeds larger than 16 KiB only the fields that start in the first 600 bytes
                if !thorough && l > 16 * 1024 && off >= 600 {
                    continue;
                }
                if w == 2 && (!thorough || l > 16 * 1024) {
                    let introduced = be
                        && ((off >= 2 && d[off - 2] == 0xFF && d[off - 1] >= 0xC0)
                            || (off >= 1 && matches!(d[off - 1], 0x59 | 0x79 | 0x99 | 0xB9 | 0x82)));
                    if !introduced {
                        continue;
                    }
                }
                out.push((off as u32, w as u8, be, v));
            }
        }
    }
    out
}

fn boundary_values(w: u8, v: u64) -> Vec<u64> {
    let bits = 8 * w as u32;
    let max = if bits == 64 { u64::MAX } else { (1u64 << bits) - 1 };
    let mut c = vec![0, 1, 2, 7, 8, 9, 16, v.wrapping_sub(1) & max, v.wrapping_add(1) & max, max >> 1, (max >> 1) + 1, max];
    if w >= 4 {
        c.push((1u64 << 31) - 1);
        c.push(u32::MAX as u64 & max);
    }
    if w == 8 {
        c.push(1u64 << 63);
        c.push(1u64 << 32);
    }
    c.sort();
    c.dedup();
    c.retain(|x| *x != v);
    c
}

/// All mutations of a seed, in canonical order. `full_bytes`: every byte x 255 values (thorough, smallest seeds).
fn mutations(d: &[u8], thorough: bool, full_bytes: bool) -> Vec<Mutation> {
    let l = d.len();
    let mut v = vec![Mutation::Identity];
    let byte_span = if thorough { l } else { l.min(600) };
    for pos in 0..byte_span {
        let b = d[pos];
        let vals: Vec<u8> = if full_bytes {
            (0..=255u8).filter(|x| *x != b).collect()
        } else {
            let mut c = vec![0x00, 0x01, 0x7F, 0x80, 0xFF, b.wrapping_add(1), b.wrapping_sub(1)];
            c.sort();
            c.dedup();
            c.retain(|x| *x != b);
            c
        };
        for val in vals {
            v.push(Mutation::Byte { pos: pos as u32, val });
        }
    }
    for len in 0..l {
        if thorough || len <= 600 || len % 8 == 0 || len + 16 >= l {
            v.push(Mutation::Trunc { len: len as u32 });
        }
    }
    let fs = fields(d, thorough);
    // starts of length-like fields = candidate structure starts (a box/chunk size field sits at the start of its structure)
    let starts: Vec<u32> = {
        let mut s: Vec<u32> = fs.iter().map(|f| f.0).collect();
        s.dedup();
        s
    };
    for &(off, w, be, cur) in &fs {
        let mut vals = boundary_values(w, cur);
        // "negative" lengths: a signed conversion or wrapping addition turns them into a backward step
        if w == 8 && l <= 16 * 1024 {
            let mut ds: Vec<u64> = (1..=64u64).collect();
            // distances from this field, and from the start of a structure whose 64-bit size would sit here (field - 8), back to
            // every earlier structure start within 256 bytes
            for &s0 in starts.iter().filter(|s0| **s0 < off && off - **s0 <= 264) {
                ds.push((off - s0) as u64);
                if off >= 8 && s0 < off - 8 {
                    ds.push((off - 8 - s0) as u64);
                }
            }
            vals.extend(ds.into_iter().filter(|d| *d >= 1 && *d <= 256).map(|d| u64::MAX - d + 1));
        }
        if w == 4 && l <= 6 * 1024 {
            vals.extend((1..=16u64).map(|d| (1u64 << 32) - d));
        }
        vals.sort();
        vals.dedup();
        vals.retain(|x| *x != cur);
        for val in vals {
            v.push(Mutation::Field { off, width: w, be, val });
        }
    }
    v
}

const ENTRIES: [&str; 4] = ["reader", "ingredient", "load_jumbf", "with_archive"];

fn hints_for(seed_mime: &str, m_index: u64, all_wrong: bool) -> Vec<String> {
    let others: Vec<&'static str> = FORMATS.iter().copied().filter(|f| *f != seed_mime).collect();
    let mut v: Vec<String> = vec![seed_mime.to_string()];
    if all_wrong {
        v.extend(others.iter().map(|s| s.to_string()));
    } else {
        for t in 0..3u64 {
            v.push(others[((m_index * 3 + t) % others.len() as u64) as usize].to_string());
        }
    }
    v
}

/// One call of one entry point. Returns the result class ("ok", "err:<kind>").
fn call(entry: &str, hint: &str, input: &[u8]) -> String {
    let class = |r: c2pa::Result<()>| match r {
        Ok(()) => "ok".to_string(),
        Err(e) => format!("err:{}", sdk::err_kind(&e)),
    };
    match entry {
        "reader" => class(Reader::from_context(sdk::ctx()).with_stream(hint, Cursor::new(input)).map(|_| ())),
        "ingredient" => {
            let mut b = Builder::from_context(sdk::ctx());
            class(b.add_ingredient_from_stream(r#"{"title":"i","relationship":"componentOf"}"#, hint, &mut Cursor::new(input)).map(|_| ()))
        }
        "load_jumbf" => class(c2pa::jumbf_io::load_jumbf_from_memory(hint, input).map(|_| ())),
        "with_archive" => class(Builder::from_context(sdk::ctx()).with_archive(Cursor::new(input.to_vec())).map(|_| ())),
        _ => "err:unknown-entry".into(),
    }
}

static LAST_PANIC: Mutex<String> = Mutex::new(String::new());

/// VmHWM (peak RSS, KiB) of this process from /proc/self/status, read through a file kept open.
struct Hwm {
    f: std::fs::File,
}
impl Hwm {
    fn open() -> Self {
        Hwm { f: std::fs::File::open("/proc/self/status").unwrap_or_else(|e| kit::ev::machinery(format!("/proc/self/status: {e}"))) }
    }
    fn kib(&self) -> u64 {
        use std::os::unix::fs::FileExt;
        let mut buf = [0u8; 4096];
        let n = self.f.read_at(&mut buf, 0).unwrap_or(0);
        let s = &buf[..n];
        let key = b"VmHWM:";
        if let Some(p) = s.windows(key.len()).position(|w| w == key) {
            let mut v = 0u64;
            let mut seen = false;
            for &b in &s[p + key.len()..] {
                if b.is_ascii_digit() {
                    v = v * 10 + (b - b'0') as u64;
                    seen = true;
                } else if seen {
                    break;
                }
            }
            return v;
        }
        0
    }
}

struct Monitor {
    hwm: Hwm,
    mark_kib: u64,
}
impl Monitor {
    fn new() -> Self {
        workers::reset_peak_rss();
        let hwm = Hwm::open();
        let mark_kib = hwm.kib();
        Monitor { hwm, mark_kib }
    }
    /// Peak growth (KiB) since the last mark if the peak moved by more than 4 MiB (then the mark is reset), else 0.
    fn growth(&mut self) -> u64 {
        let m = self.hwm.kib();
        if m > self.mark_kib + 4096 {
            let g = m - self.mark_kib;
            workers::reset_peak_rss();
            self.mark_kib = self.hwm.kib();
            g
        } else {
            0
        }
    }
}

#[derive(Default)]
struct Counters {
    evals: u64,
    inputs: u64,
    nontrivial: u64,
    outcomes: BTreeMap<String, u64>,
    max_cpu_us: u64,
    max_growth_kib: u64,
    suppressed: u64,
    per_key: BTreeMap<String, u64>,
}
impl Counters {
    fn take(&mut self) -> Value {
        let v = json!({"evals": self.evals, "inputs": self.inputs, "nontrivial": self.nontrivial, "outcomes": self.outcomes,
            "max_cpu_us": self.max_cpu_us, "max_growth_kib": self.max_growth_kib, "suppressed": self.suppressed});
        let keep = std::mem::take(&mut self.per_key);
        *self = Counters::default();
        self.per_key = keep;
        v
    }
}

struct Corpus {
    seeds: Vec<Seed>,
    thorough: bool,
    /// per seed: use the 255-value alphabet
    full: Vec<bool>,
    /// replay: only this (entry, hint)
    only: Option<(String, String, String)>,
    muts: Vec<Vec<Mutation>>,
    starts: Vec<u64>,
}

impl Corpus {
    fn load(dir: &Path) -> Corpus {
        let idx: Value = serde_json::from_slice(&std::fs::read(dir.join("corpus.json")).unwrap_or_else(|e| kit::ev::machinery(format!("corpus.json: {e}"))))
            .unwrap_or_else(|e| kit::ev::machinery(format!("corpus.json: {e}")));
        let thorough = idx["thorough"].as_bool().unwrap_or(false);
        let identity_only = idx["identity_only"].as_bool().unwrap_or(false);
        let mut seeds = vec![];
        let mut full = vec![];
        for s in idx["seeds"].as_array().cloned().unwrap_or_default() {
            let file = s["file"].as_str().unwrap_or("");
            let data = std::fs::read(dir.join(file)).unwrap_or_else(|e| kit::ev::machinery(format!("seed file {file}: {e}")));
            seeds.push(Seed { name: s["name"].as_str().unwrap_or("").to_string(), mime: s["mime"].as_str().unwrap_or("").to_string(), data });
            full.push(s["full"].as_bool().unwrap_or(false));
        }
        let only = idx["only"].as_object().map(|o| {
            (o["entry"].as_str().unwrap_or("").to_string(), o["hint"].as_str().unwrap_or("").to_string(), o["class"].as_str().unwrap_or("identity").to_string())
        });
        let muts: Vec<Vec<Mutation>> =
            seeds.iter().zip(&full).map(|(s, f)| if identity_only { vec![Mutation::Identity] } else { mutations(&s.data, thorough, *f) }).collect();
        let mut starts = vec![];
        let mut acc = 0u64;
        for m in &muts {
            starts.push(acc);
            acc += m.len() as u64;
        }
        starts.push(acc);
        Corpus { seeds, thorough, full, only, muts, starts }
    }
    fn total(&self) -> u64 {
        *self.starts.last().unwrap_or(&0)
    }
    fn locate(&self, idx: u64) -> (usize, usize) {
        let s = match self.starts.binary_search(&idx) {
            Ok(i) => {
                // first seed whose start == idx and that is non-empty
                let mut i = i;
                while i + 1 < self.starts.len() && self.starts[i + 1] == idx {
                    i += 1;
                }
                i
            }
            Err(i) => i - 1,
        };
        (s, (idx - self.starts[s]) as usize)
    }
    /// The (entry, hint) pairs exercised for input (seed s, mutation m).
    fn subcases(&self, s: usize, m: usize) -> Vec<(&'static str, String)> {
        if let Some((e, h, _)) = &self.only {
            let e = ENTRIES.iter().find(|x| **x == e.as_str()).copied().unwrap_or("reader");
            return vec![(e, h.clone())];
        }
        let hints = hints_for(&self.seeds[s].mime, m as u64, false);
        let mut v = vec![];
        for e in ["reader", "ingredient", "load_jumbf"] {
            for (hi, h) in hints.iter().enumerate() {
                // quick tier: add_ingredient_from_stream gets the own hint and one wrong hint
                if e == "ingredient" && !self.thorough && hi >= 2 {
                    continue;
                }
                v.push((e, h.clone()));
            }
        }
        v.push(("with_archive", String::new()));
        v
    }
}

fn hex_if_small(d: &[u8]) -> Value {
    json!(kit::ev::hex(d))
}

fn worker(spec: &workers::WorkerSpec) -> ! {
    workers::limit_address_space(4 << 30);
    std::panic::set_hook(Box::new(|info| {
        let loc = info.location().map(|l| format!("{}:{}", l.file().rsplit("/sdk/").next().unwrap_or(l.file()), l.line())).unwrap_or_default();
        *LAST_PANIC.lock().unwrap_or_else(|e| e.into_inner()) = loc;
    }));
    let spec = spec.clone();
    // default 2 MiB stack: what an application thread offers
    let h = std::thread::Builder::new()
        .name("c10-worker".into())
        .spawn(move || {
            let corpus = Corpus::load(&spec.dir);
            let counters = std::cell::RefCell::new(Counters::default());
            let monitor = std::cell::RefCell::new(Monitor::new());
            workers::worker_loop(
                &spec,
                4000,
                |idx, emit| {
                    let (s, m) = corpus.locate(idx);
                    let seed = &corpus.seeds[s];
                    let mutation = corpus.muts[s][m];
                    let input = mutation.apply(&seed.data);
                    let mclass = corpus.only.as_ref().map(|o| o.2.clone()).unwrap_or_else(|| mutation.class().to_string());
                    let mut c = counters.borrow_mut();
                    let mut mon = monitor.borrow_mut();
                    c.inputs += 1;
                    let mut accepted = false;
                    for (sub, (entry, hint)) in corpus.subcases(s, m).into_iter().enumerate() {
                        emit.sub(sub as u64);
                        let c0 = workers::thread_cpu_us();
                        let t0 = std::time::Instant::now();
                        let r = par::guard(|| call(entry, &hint, &input));
                        let mut cpu = workers::thread_cpu_us() - c0;
                        let wall = t0.elapsed().as_micros() as u64;
                        let growth = mon.growth();
                        c.evals += 1;
                        c.max_cpu_us = c.max_cpu_us.max(cpu);
                        c.max_growth_kib = c.max_growth_kib.max(growth);
                        let mut problems: Vec<(String, String)> = vec![];
                        let own_hint = hint == seed.mime;
                        let hint_class = if entry == "with_archive" { "-" } else if own_hint { "own" } else { "wrong" };
                        match &r {
                            Err(p) => {
                                let loc = LAST_PANIC.lock().unwrap_or_else(|e| e.into_inner()).clone();
                                *c.outcomes.entry(format!("{entry}:panic")).or_insert(0) += 1;
                                problems.push((format!("panic at={loc} entry={entry}"), format!("panic at {loc}: {p}")));
                            }
                            Ok(class) => {
                                if class == "ok" && entry == "reader" && !matches!(mutation, Mutation::Identity) {
                                    accepted = true;
                                }
                                *c.outcomes.entry(format!("{entry}/{hint_class}:{class}")).or_insert(0) += 1;
                            }
                        }
                        if cpu > CPU_BUDGET_US {
                            // confirm: a slow case must be slow again (the box is shared)
                            let c1 = workers::thread_cpu_us();
                            let _ = par::guard(|| call(entry, &hint, &input));
                            cpu = cpu.min(workers::thread_cpu_us() - c1);
                            let _ = mon.growth();
                            if cpu > CPU_BUDGET_US {
                                problems.push((
                                    format!("slow entry={entry} format={} mutation={mclass}", seed.mime),
                                    format!("{} ms of thread CPU time ({} ms wall) for a {}-byte input", cpu / 1000, wall / 1000, input.len()),
                                ));
                            }
                        }
                        let bound_kib = (64u64 << 10).max(32 * input.len() as u64 / 1024) + DECOMPRESSION_LIMIT / 1024;
                        if growth > bound_kib {
                            problems.push((
                                format!("memory entry={entry} format={} mutation={mclass}", seed.mime),
                                format!("peak RSS grew by {} MiB for a {}-byte input (bound {} MiB)", growth >> 10, input.len(), bound_kib >> 10),
                            ));
                        }
                        for (key, what) in problems {
                            let n = c.per_key.entry(key.clone()).or_insert(0);
                            *n += 1;
                            if *n <= 3 {
                                emit.line(json!({"violation": {"key": key, "what": format!("{what} [seed {} {:?}, hint {hint}]", seed.name, mutation),
                                    "case": {"seed": seed.name, "seed_mime": seed.mime, "mutation": mutation.to_json(), "entry": entry, "hint": hint, "input_hex": hex_if_small(&input)}}}));
                            } else {
                                c.suppressed += 1;
                            }
                        }
                    }
                    if accepted {
                        c.nontrivial += 1;
                    }
                    let _ = corpus.thorough;
                    let _ = &corpus.full;
                },
                || counters.borrow_mut().take(),
            );
        })
        .unwrap_or_else(|e| kit::ev::machinery(format!("spawn worker thread: {e}")));
    let _ = h.join();
    // the worker thread exits the process itself; reaching this point means it died by panic in harness code
    std::process::exit(101);
}

fn write_corpus(dir: &Path, seeds: &[Seed], full: &[bool], thorough: bool, only: Option<(&str, &str, &str)>, identity_only: bool) {
    let mut list = vec![];
    for (i, s) in seeds.iter().enumerate() {
        let file = format!("seed-{i}.bin");
        std::fs::write(dir.join(&file), &s.data).unwrap_or_else(|e| kit::ev::machinery(format!("write seed: {e}")));
        list.push(json!({"name": s.name, "mime": s.mime, "file": file, "full": full[i]}));
    }
    let mut idx = json!({"thorough": thorough, "seeds": list, "identity_only": identity_only});
    if let Some((e, h, c)) = only {
        idx["only"] = json!({"entry": e, "hint": h, "class": c});
    }
    std::fs::write(dir.join("corpus.json"), serde_json::to_vec(&idx).unwrap()).unwrap_or_else(|e| kit::ev::machinery(format!("write corpus: {e}")));
}

fn build_seeds() -> Vec<Seed> {
    let signer = sdk::fixture_signer("ed25519");
    let mut v = vec![];
    for a in assets::all() {
        v.push(Seed { name: format!("{}", a.name), mime: a.mime.to_string(), data: a.data.clone() });
        let signed = sdk::sign_simple(signer.as_ref(), a.mime, &a.data, &[]);
        v.push(Seed { name: format!("{}+signed", a.name), mime: a.mime.to_string(), data: signed });
    }
    // detached store
    {
        let a = assets::by_name("jpeg");
        let mut b = sdk::builder(sdk::ctx(), r#"{"title":"t","claim_generator_info":[{"name":"kit","version":"1"}]}"#);
        b.set_no_embed(true);
        let (_, store) = sdk::sign(&mut b, signer.as_ref(), a.mime, &a.data).unwrap_or_else(|e| kit::ev::machinery(format!("C10 seed sidecar: {e:?}")));
        v.push(Seed { name: "sidecar.c2pa".into(), mime: "application/c2pa".into(), data: store });
    }
    // builder archive (with one signed ingredient inside)
    {
        let a = assets::by_name("png");
        let inner = sdk::sign_simple(signer.as_ref(), a.mime, &a.data, &[]);
        let mut b = Builder::from_context(sdk::ctx())
            .with_definition(r#"{"title":"arch","claim_generator_info":[{"name":"kit","version":"1"}],"assertions":[{"label":"org.verif.x","data":{"k":"v"}}]}"#)
            .unwrap_or_else(|e| kit::ev::machinery(format!("C10 seed archive definition: {e:?}")));
        b.set_intent(c2pa::BuilderIntent::Create(c2pa::DigitalSourceType::Empty));
        b.add_ingredient_from_stream(r#"{"title":"i","relationship":"componentOf"}"#, a.mime, &mut Cursor::new(&inner))
            .unwrap_or_else(|e| kit::ev::machinery(format!("C10 seed archive ingredient: {e:?}")));
        let mut out = Cursor::new(Vec::new());
        b.to_archive(&mut out).unwrap_or_else(|e| kit::ev::machinery(format!("C10 seed archive: {e:?}")));
        v.push(Seed { name: "builder-archive".into(), mime: "application/c2pa".into(), data: out.into_inner() });
    }
    // legal-but-rare encodings, so that their dangerous neighbours are ONE deviation away
    {
        let store = v.iter().find(|s| s.name == "sidecar.c2pa").map(|s| s.data.clone()).unwrap_or_default();
        let odd = store_with_unknown_boxes(&store).unwrap_or_else(|e| kit::ev::machinery(format!("C10 seed unknown boxes: {e}")));
        // embedded twin: the same store inside the tiny JPEG
        let jpeg = assets::by_name("jpeg");
        let emb = c2pa::jumbf_io::save_jumbf_to_memory(jpeg.mime, &jpeg.data, &odd).unwrap_or_else(|e| kit::ev::machinery(format!("C10 seed embedded unknown boxes: {e:?}")));
        v.push(Seed { name: "sidecar+unknown-boxes.c2pa".into(), mime: "application/c2pa".into(), data: odd });
        v.push(Seed { name: "jpeg+store-with-unknown-boxes".into(), mime: jpeg.mime.to_string(), data: emb });
        // BMFF: top-level boxes in the 64-bit largesize form and a final box with size 0 (to end of file)
        let mp4 = assets::by_name("mp4");
        let mut m = mp4.data.clone();
        m.extend_from_slice(&[0, 0, 0, 8, b'f', b'r', b'e', b'e']);
        m.extend_from_slice(&[0, 0, 0, 1, b'f', b'r', b'e', b'e', 0, 0, 0, 0, 0, 0, 0, 20, 1, 2, 3, 4]);
        m.extend_from_slice(&[0, 0, 0, 1, b's', b'k', b'i', b'p', 0, 0, 0, 0, 0, 0, 0, 16]);
        let signed = sdk::sign_simple(signer.as_ref(), mp4.mime, &m, &[]);
        let mut m0 = m.clone();
        m0.extend_from_slice(&[0, 0, 0, 0, b'f', b'r', b'e', b'e', 9, 9, 9, 9]);
        v.push(Seed { name: "mp4-largesize".into(), mime: mp4.mime.to_string(), data: m });
        v.push(Seed { name: "mp4-largesize+signed".into(), mime: mp4.mime.to_string(), data: signed });
        v.push(Seed { name: "mp4-largesize-size0".into(), mime: mp4.mime.to_string(), data: m0 });
    }
    for (file, mime) in [
        ("riff_bomb_1000.wav", "audio/wav"),
        ("nested_moov_1000.mp4", "video/mp4"),
        ("id3v23_compression_underflow.mp3", "audio/mpeg"),
        ("tiff_poc.tiff", "image/tiff"),
        ("bad_path_archive.zip", "application/zip"),
    ] {
        let data = sdk::fixture(file);
        if data.is_empty() || data.len() > 100 * 1024 {
            kit::ev::machinery(format!("C10: regression input {file} is empty or larger than 100 KB ({} bytes)", data.len()));
        }
        v.push(Seed { name: file.to_string(), mime: mime.to_string(), data });
    }
    v
}

/// A manifest store whose top-level superbox additionally contains, right after its description box, an unknown box in the 32-bit
/// size form (8 bytes, no payload), an unknown box in the 64-bit form (size == 1, correct largesize) and, as last child, an unknown box
/// with size == 0 (extends to the end of the container).
fn store_with_unknown_boxes(store: &[u8]) -> Result<Vec<u8>, String> {
    if store.len() < 16 || &store[4..8] != b"jumb" || &store[12..16] != b"jumd" {
        return Err("not a JUMBF store".into());
    }
    let total = u32::from_be_bytes(store[0..4].try_into().unwrap()) as usize;
    let jumd = u32::from_be_bytes(store[8..12].try_into().unwrap()) as usize;
    if total != store.len() || 8 + jumd > store.len() {
        return Err("unexpected store framing".into());
    }
    let mut extra_front = vec![0, 0, 0, 8, b'u', b'n', b'k', b'1'];
    extra_front.extend_from_slice(&[0, 0, 0, 1, b'u', b'n', b'k', b'2', 0, 0, 0, 0, 0, 0, 0, 20, 0xA1, 0xA2, 0xA3, 0xA4]);
    let extra_back = [0, 0, 0, 0, b'u', b'n', b'k', b'3', 0xB1, 0xB2, 0xB3, 0xB4];
    let mut out = ((total + extra_front.len() + extra_back.len()) as u32).to_be_bytes().to_vec();
    out.extend_from_slice(b"jumb");
    out.extend_from_slice(&store[8..8 + jumd]);
    out.extend_from_slice(&extra_front);
    out.extend_from_slice(&store[8 + jumd..]);
    out.extend_from_slice(&extra_back);
    Ok(out)
}

/// Drive a corpus through the worker pool and record everything in `run`.
fn drive(run: &Run, dir: &Path, verbose: bool) -> u64 {
    let corpus = Corpus::load(dir);
    let total = corpus.total();
    let cfg = workers::PoolCfg {
        env: ENV,
        args: vec!["C10".into(), "--tier".into(), run.tier.name().into()],
        dir,
        total,
        workers: par::workers() as u64,
        hang_secs: 60,
        extra_env: vec![],
    };
    let mut deaths: Vec<workers::Death> = vec![];
    let mut max_cpu = 0u64;
    let mut max_growth = 0u64;
    let mut suppressed = 0u64;
    workers::run_pool(
        &cfg,
        |line| {
            if verbose {
                let mut l = line.clone();
                if let Some(c) = l.pointer_mut("/violation/case/input_hex") {
                    *c = json!("...");
                }
                println!("  {l}");
            }
            if let Some(v) = line.get("violation") {
                run.violation(v["key"].as_str().unwrap_or("?"), v["what"].as_str().unwrap_or(""), v["case"].clone());
            }
        },
        |d| {
            run.evals(d["evals"].as_u64().unwrap_or(0));
            run.nontrivial_n(d["nontrivial"].as_u64().unwrap_or(0));
            if let Some(m) = d["outcomes"].as_object() {
                for (k, v) in m {
                    run.outcome_n(k.clone(), v.as_u64().unwrap_or(0));
                }
            }
            max_cpu = max_cpu.max(d["max_cpu_us"].as_u64().unwrap_or(0));
            max_growth = max_growth.max(d["max_growth_kib"].as_u64().unwrap_or(0));
            suppressed += d["suppressed"].as_u64().unwrap_or(0);
        },
        |d| deaths.push(d),
    );
    run.extra("max_thread_cpu_ms_per_call", json!(max_cpu / 1000));
    run.extra("max_peak_rss_growth_mib_per_call", json!(max_growth >> 10));
    run.extra("violating_calls_not_listed_individually", json!(suppressed));
    for d in deaths {
        let (s, m) = corpus.locate(d.idx);
        let seed = &corpus.seeds[s];
        let mutation = corpus.muts[s][m];
        let subs = corpus.subcases(s, m);
        let (entry, hint) = subs.get(d.sub as usize).cloned().unwrap_or(("?", String::new()));
        let input = mutation.apply(&seed.data);
        let mclass = corpus.only.as_ref().map(|o| o.2.clone()).unwrap_or_else(|| mutation.class().to_string());
        let kind = if d.how.starts_with("hang") { "hang" } else { "worker-death" };
        run.eval();
        run.outcome(format!("{entry}:{kind}"));
        run.violation(
            format!("{kind} how={} entry={entry} format={} mutation={mclass}", d.how.split(" (").next().unwrap_or(""), seed.mime),
            format!("{entry}(hint {hint}) on seed {} with {:?} ended the worker: {}", seed.name, mutation, d.how),
            json!({"seed": seed.name, "seed_mime": seed.mime, "mutation": mutation.to_json(), "entry": entry, "hint": hint, "input_hex": hex_if_small(&input)}),
        );
    }
    total
}

pub fn run(run: &Run, replay: Option<&Value>) {
    if let Some(spec) = workers::worker_spec(ENV) {
        worker(&spec);
    }
    run.rule(
        "seeds = 19 kit assets unsigned + signed, one detached store, one builder archive, 5 rare-encoding seeds (unknown JUMBF child boxes in 32-bit/largesize/size-0 form, detached and in a JPEG; MP4 with largesize/size-0 boxes), 5 repository regression inputs; per seed: identity, byte edits (quick: first 600 positions x \
         {00,01,7F,80,FF,+1,-1}; thorough: every position, and x255 values on the 4 smallest seeds), truncations (quick: lengths <=600, every 8th, last 16; thorough: every length), \
         length-like fields x boundary values incl. negative lengths 2^64-d / 2^32-d (see module doc). Each input goes to Reader::with_stream, Builder::add_ingredient_from_stream, jumbf_io::load_jumbf_from_memory under the seed's \
         own hint and 3 wrong hints rotating over the 14 other formats (quick: add_ingredient_from_stream own + 1 wrong hint), and to Builder::with_archive (11 quick / 13 thorough calls per input). Quick: in seeds > 16 KiB only length-like fields starting in the first 600 bytes. evaluations = calls. non-trivial = distinct mutated inputs that \
         Reader::with_stream (a manifest store was found and parsed) still returned Ok for under some hint.",
    );
    run.assume("neighbourhood statement only: one deviation (byte, truncation, one length-like field) from a seed; arbitrary byte strings and multi-field corruption are outside (DESIGN.md section 5); pairs of length fields are not enumerated");
    run.assume("time budget = 2 s of THREAD CPU time per call, confirmed by a second execution (wall clock is not used for the verdict because the box is shared); a call that blocks for 60 s wall is killed and reported as a hang");
    run.assume("memory = growth of the process peak RSS (kernel hiwater_rss) during the call, with 4 MiB resolution; untouched virtual reservations are only caught by RLIMIT_AS = 4 GiB (worker death)");
    run.assume("calls run on a thread with Rust's default 2 MiB stack");

    // monitor self-test: the RSS monitor must see a 48 MiB touch and must come back after a reset
    {
        let mut mon = Monitor::new();
        let v: Vec<u8> = vec![1u8; 48 << 20];
        let s: u64 = v.iter().step_by(4096).map(|x| *x as u64).sum();
        drop(v);
        let g = mon.growth();
        let g2 = mon.growth();
        let v: Vec<u8> = vec![2u8; 48 << 20];
        let s2: u64 = v.iter().step_by(4096).map(|x| *x as u64).sum();
        drop(v);
        let g3 = mon.growth();
        if s == 0 || s2 == 0 || g < (40 << 10) || g2 != 0 || g3 < (40 << 10) {
            kit::ev::machinery(format!("C10: RSS monitor self-test failed (growth {g} KiB after touching 48 MiB, {g2} KiB afterwards, {g3} KiB on the second touch)"));
        }
    }

    let dir = tempfile::tempdir().unwrap_or_else(|e| kit::ev::machinery(format!("tempdir: {e}")));
    if let Some(c) = replay {
        let input = kit::ev::unhex(c["input_hex"].as_str().unwrap_or(""));
        let seed = Seed { name: format!("replay of {}", c["seed"].as_str().unwrap_or("?")), mime: c["seed_mime"].as_str().unwrap_or("").to_string(), data: input };
        let entry = c["entry"].as_str().unwrap_or("reader");
        let hint = c["hint"].as_str().unwrap_or("");
        println!("replay: {} bytes, entry {entry}, hint {hint}, mutation {}", seed.data.len(), c["mutation"]);
        write_corpus(dir.path(), &[seed], &[false], false, Some((entry, hint, c["mutation"]["m"].as_str().unwrap_or("identity"))), true);
        drive(run, dir.path(), true);
        return;
    }

    let thorough = run.tier.is_thorough();
    let seeds = build_seeds();
    // the 4 smallest seeds get the 255-value alphabet in the thorough tier
    let mut by_len: Vec<usize> = (0..seeds.len()).collect();
    by_len.sort_by_key(|i| seeds[*i].data.len());
    let full: Vec<bool> = (0..seeds.len()).map(|i| thorough && by_len[..4].contains(&i)).collect();

    // baseline: every unmutated seed through every entry point, in workers (a seed that kills a worker is a finding, not machinery)
    let base_dir = tempfile::tempdir().unwrap_or_else(|e| kit::ev::machinery(format!("tempdir: {e}")));
    write_corpus(base_dir.path(), &seeds, &full, thorough, None, true);
    let t0 = std::time::Instant::now();
    let n = drive(run, base_dir.path(), false);
    run.space("unmutated seeds (baseline)", n, true);
    run.extra("baseline_wall_s", json!(t0.elapsed().as_secs_f64()));

    write_corpus(dir.path(), &seeds, &full, thorough, None, false);
    let corpus = Corpus::load(dir.path());
    let mut per_class: BTreeMap<&'static str, u64> = BTreeMap::new();
    for m in corpus.muts.iter().flatten() {
        *per_class.entry(m.class()).or_insert(0) += 1;
    }
    for (k, v) in &per_class {
        run.space(&format!("inputs: {k} mutations over {} seeds (x11 quick / x13 thorough calls each)", seeds.len()), *v, true);
    }
    run.sample(json!({"seeds": seeds.iter().map(|s| json!({"name": s.name, "mime": s.mime, "bytes": s.data.len()})).collect::<Vec<_>>()}));
    let s0 = &corpus.seeds[1];
    run.sample(json!({"seed": s0.name, "mutations": corpus.muts[1].len(), "length_like_fields": fields(&s0.data, thorough).len(),
        "examples": corpus.muts[1].iter().step_by((corpus.muts[1].len() / 5).max(1)).map(|m| m.to_json()).collect::<Vec<_>>()}));
    drive(run, dir.path(), false);
}
